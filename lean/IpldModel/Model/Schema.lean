/-
  IPLD Schemas: typed nodes, their two views and their two builders (DESIGN §5 C08, C09, C13).
  Core Lean only; total computable functions; every builder call has an explicit outcome
  (`ok` | `reject` | `panic`).

  Design decisions (and why):

  * `Ty` is a finite tree of types, a *mutual* family (`Ty`, `Fields`, `Members`) like `DM`, with
    named references inlined.  The type NAME is carried exactly where it is observable: a union
    member is keyed by its member type name in the type-level view.  (Recursive type systems are
    out of the tree model; DESIGN §5 C08 leaves them to the correspondence.)
  * Typed values at type level are `TL`: the data model plus `absent` (a separate mutual inductive,
    not an encoding inside `DM`).  The canonical typed value of a struct lists ALL its fields in
    declaration order, an unset optional field showing as `absent` - this is exactly what reading
    a typed node through the `Node` interface yields.
  * Every function that consumes a value (`build`, `toRepr`, `conforms`, `conformsRepr`) is
    STRUCTURALLY recursive on the VALUE (`DM`/`TL` and their list families); the type is a
    parameter that changes along the way and is looked up through plain `List` views of
    fields/members.  This needs no fuel and no well-founded recursion, so the later proofs are
    mutual structural inductions on values (the shape already used for `DM`).  Two places would
    recurse on the type with the *same* value and are therefore factored out into functions that
    are structurally recursive on `Ty`: (i) everything a *scalar* input can do (`buildScalar`:
    kinded dispatch, stringprefix, stringjoin and enums only ever look at one string/int and at
    sub-types), (ii) the dispatch of a kinded union on a list/map input (`resolveKinded`: it
    returns the member type finally addressed and the chain of member names to wrap around the
    result).
  * The two builders are one function `build e lvl` (`lvl` = type | repr); `ofType`/`ofRepr` are its
    two instances.  `Engine` is a record of named quirk flags: `ideal` (all off) accepts exactly
    conforming data, `bindnode` mirrors node/bindnode as it is.  A third instance (`gen`) is a new
    record value, possibly with new flags.
  * `build` assembles INTO a slot: `cur` is what the slot already holds.  It is `none` for every
    fresh slot; it is `some old` only under `Engine.reuseSlot` when a required, non-nullable struct
    field is assigned a second time (bindnode re-uses the Go value: lists are appended to, typed
    maps keep their old keys, structs keep old optional fields, a union keeps its old member if the
    new map is empty).

  Outside the modelled space (the harness does not generate it, `Ty.wf` excludes it):
  empty stringjoin delimiter (Go's `strings.Split(s, "")` explodes into UTF-8 sequences), integers outside int64 (C19), map keys of non-string type,
  `any` as a root type (bindnode's root `Kind()` is Invalid), implicits, envelope/inline unions,
  stringpairs.
-/
import IpldModel.Model.DM
namespace Ipld
namespace Schema

/-! ## Types -/

inductive StructRepr where
  | map | tuple | stringjoin (delim : Bytes) | listpairs
  deriving DecidableEq, Repr, Inhabited

inductive UnionRepr where
  | keyed | kinded | stringprefix (delim : Bytes)
  deriving DecidableEq, Repr, Inhabited

inductive EnumRepr where
  | str | int
  deriving DecidableEq, Repr, Inhabited

/-- An enum member: its name (the type-level string), its representation string (= name unless
    renamed) and its representation int (used by the int strategy only). -/
structure EnumMember where
  name : Bytes
  rstr : Bytes
  rint : Int
  deriving DecidableEq, Repr, Inhabited

mutual
inductive Ty where
  | bool | int | float | str | bytes | link | any
  | list (elem : Ty) (nullable : Bool)
  | map (val : Ty) (nullable : Bool)              -- string keys
  | struct (fields : Fields) (repr : StructRepr)
  | union (members : Members) (repr : UnionRepr)
  | enum (members : List EnumMember) (repr : EnumRepr)
  deriving Repr, Inhabited
/-- `rename` is the key used by the map representation (= `name` when there is no rename). -/
inductive Fields where
  | nil
  | cons (name : Bytes) (rename : Bytes) (opt : Bool) (nullable : Bool) (ty : Ty) (rest : Fields)
  deriving Repr, Inhabited
/-- `name` is the member's TYPE name (the type-level key); `disc` the discriminant of the keyed and
    stringprefix strategies; `kind` the kind under which the kinded strategy's table lists it. -/
inductive Members where
  | nil
  | cons (name : Bytes) (disc : Bytes) (kind : Kind) (ty : Ty) (rest : Members)
  deriving Repr, Inhabited
end

structure Field where
  name : Bytes
  rename : Bytes
  opt : Bool
  nullable : Bool
  ty : Ty
  deriving Repr, Inhabited

structure Member where
  name : Bytes
  disc : Bytes
  kind : Kind
  ty : Ty
  deriving Repr, Inhabited

def Fields.toList : Fields → List Field
  | .nil => []
  | .cons n r o nu t rest => ⟨n, r, o, nu, t⟩ :: rest.toList

def Fields.ofList : List Field → Fields
  | [] => .nil
  | f :: fs => .cons f.name f.rename f.opt f.nullable f.ty (Fields.ofList fs)

def Members.toList : Members → List Member
  | .nil => []
  | .cons n d k t rest => ⟨n, d, k, t⟩ :: rest.toList

def Members.ofList : List Member → Members
  | [] => .nil
  | m :: ms => .cons m.name m.disc m.kind m.ty (Members.ofList ms)

/-! ## Typed values: data model plus Absent -/

mutual
inductive TL where
  | absent
  | null
  | bool (b : Bool)
  | int (i : Int)
  | float (bits : UInt64)
  | str (s : Bytes)
  | bytes (b : Bytes)
  | link (cid : Bytes)
  | list (xs : TLs)
  | map (es : TLKVs)
  deriving DecidableEq, Repr, Inhabited
inductive TLs where
  | nil
  | cons (x : TL) (xs : TLs)
  deriving DecidableEq, Repr, Inhabited
inductive TLKVs where
  | nil
  | cons (k : Bytes) (v : TL) (es : TLKVs)
  deriving DecidableEq, Repr, Inhabited
end

def TLs.toList : TLs → List TL
  | .nil => []
  | .cons x xs => x :: xs.toList

def TLs.ofList : List TL → TLs
  | [] => .nil
  | x :: xs => .cons x (TLs.ofList xs)

def TLKVs.toList : TLKVs → List (Bytes × TL)
  | .nil => []
  | .cons k v es => (k, v) :: es.toList

def TLKVs.ofList : List (Bytes × TL) → TLKVs
  | [] => .nil
  | (k, v) :: es => .cons k v (TLKVs.ofList es)

mutual
def TL.ofDM : DM → TL
  | .null => .null
  | .bool b => .bool b
  | .int i => .int i
  | .float f => .float f
  | .str s => .str s
  | .bytes b => .bytes b
  | .link c => .link c
  | .list xs => .list (TLs.ofDMs xs)
  | .map es => .map (TLKVs.ofDMKVs es)
def TLs.ofDMs : DMs → TLs
  | .nil => .nil
  | .cons x xs => .cons (TL.ofDM x) (TLs.ofDMs xs)
def TLKVs.ofDMKVs : DMKVs → TLKVs
  | .nil => .nil
  | .cons k v es => .cons k (TL.ofDM v) (TLKVs.ofDMKVs es)
end

mutual
/-- A typed value without `absent` anywhere is a data-model value. -/
def TL.toDM? : TL → Option DM
  | .absent => none
  | .null => some .null
  | .bool b => some (.bool b)
  | .int i => some (.int i)
  | .float f => some (.float f)
  | .str s => some (.str s)
  | .bytes b => some (.bytes b)
  | .link c => some (.link c)
  | .list xs => match TLs.toDMs? xs with
      | some ys => some (.list ys)
      | none => none
  | .map es => match TLKVs.toDMKVs? es with
      | some fs => some (.map fs)
      | none => none
def TLs.toDMs? : TLs → Option DMs
  | .nil => some .nil
  | .cons x xs => match TL.toDM? x, TLs.toDMs? xs with
      | some y, some ys => some (.cons y ys)
      | _, _ => none
def TLKVs.toDMKVs? : TLKVs → Option DMKVs
  | .nil => some .nil
  | .cons k v es => match TL.toDM? v, TLKVs.toDMKVs? es with
      | some w, some fs => some (.cons k w fs)
      | _, _ => none
end

/-! ## Outcomes and engines -/

inductive Outcome (α : Type) where
  | ok (a : α)
  | reject
  | panic
  deriving Repr, DecidableEq, Inhabited

def Outcome.map {α β : Type} (f : α → β) : Outcome α → Outcome β
  | .ok a => .ok (f a)
  | .reject => .reject
  | .panic => .panic

def Outcome.isOk {α : Type} : Outcome α → Bool
  | .ok _ => true
  | _ => false

/-- Type level or representation level. -/
inductive Level where
  | type | repr
  deriving DecidableEq, Repr, Inhabited

/-- The deviations of a typed-node engine from the ideal builder, one flag each.
    With every flag off the builders accept exactly conforming data. -/
structure Engine where
  /-- a struct field that was already assigned is assigned again (ideal: rejected) -/
  dupStructField : Bool := false
  /-- ... and the second assignment of a required non-nullable field assembles into the Go value that is
      already there instead of a fresh one -/
  reuseSlot : Bool := false
  /-- a typed-map key that is already present is appended again; every entry of that key then reads the
      last value (ideal: rejected) -/
  dupMapKey : Bool := false
  /-- a type-level / keyed union map with several entries: each is assigned, the last wins (ideal: rejected) -/
  unionMulti : Bool := false
  /-- map representation: a renamed field is also accepted under its original name -/
  renameFallback : Bool := false
  /-- keyed representation: a member is also accepted under its type name -/
  discFallback : Bool := false
  /-- type-level enum builder accepts any string -/
  enumTypeAnyString : Bool := false
  /-- string-represented enum: the representation builder also accepts the member NAME of a renamed member -/
  enumNameAtRepr : Bool := false
  /-- a kinded or stringprefix union sitting in a nullable slot (Go pointer) panics in the representation
      builder as soon as a member has been selected -/
  nullableUnionPanic : Bool := false
  /-- listpairs: an entry with fewer than two elements is silently ignored (ideal: rejected) -/
  lpShortPair : Bool := false
  /-- listpairs: an entry naming an unknown field panics (ideal: rejected) -/
  lpUnknownKeyPanic : Bool := false
  /-- (generated code, C13) tuple representation: `Finish` does not check that the required fields were assigned.
      A list shorter than the required fields is accepted and every missing field holds its Go zero value
      (`zeroOf`); a zero value that cannot be read back (a link, a union, a struct or union behind a nil
      pointer) makes the outcome `panic` (ideal: rejected) -/
  tupleShortAccepted : Bool := false
  /-- (generated code, C13) stringprefix union with the EMPTY delimiter: the text is cut by
      `strings.SplitN(s, "", 2)`, i.e. after its first UTF-8 sequence, and a member is selected only if its
      discriminant EQUALS that first piece (ideal: the first member whose discriminant is a prefix of the text) -/
  prefixEmptyDelimSplit : Bool := false
  /-- (generated code, C13) the representation builder of a kinded union refuses null even in a nullable slot -/
  kindedNullRejected : Bool := false
  /-- (generated code, C13) typed map: a key that is already present is accepted when it arrives through the key
      assembler (`AssembleKey`; driving mode `viaKeys`); both entries stay, each with its own value (ideal: rejected) -/
  keyAsmDupMapKey : Bool := false
  /-- (generated code, C13) `AssignNode` of a foreign node of recursive kind (driving mode `viaNode`) iterates the
      node without doing first what `BeginMap`/`BeginList` do: the typed map's index is never made (panic at the
      first entry), and a struct or union behind a pointer `Maybe` (optional or nullable field, nullable list/map
      value) is never allocated (`nilSlotAssign`) -/
  assignNodeSkipsBegin : Bool := false
  /-- HOW the builder is driven - not a deviation, not listed in `flags`: every map entry through
      `AssembleKey().AssignString` + `AssembleValue()` instead of `AssembleEntry` -/
  viaKeys : Bool := false
  /-- HOW the builder is driven - not a deviation, not listed in `flags`: the whole input is handed over as ONE
      prebuilt foreign node (`AssignNode`); every subtree then arrives by `AssignNode`, except the list/map a
      kinded union dispatches on (its assembler calls the member's `BeginMap`/`BeginList`) -/
  viaNode : Bool := false
  deriving Repr, DecidableEq, Inhabited

def Engine.ideal : Engine := {}

/-- node/bindnode as it is in the working tree.  Every flag above was a deviation found in the pinned
    commit (each `true` here then) and has since been repaired in /repo by a `fix:` commit
    (known_findings.json, status fixed); the flags stay in the model so that a regression is
    classified by name (`schema.quirks`) and so that the theorems can say what each flag costs. -/
def Engine.bindnode : Engine := {}

/-- Code generated by schema/gen/go (C13): the deviations of the generated builders, as found by the
    differential run against the reflection binding.  A flag that is set here and not in `bindnode` is a
    place where the two engines disagree (known_findings.json, `C13/gen-<flag>`). -/
def Engine.gen : Engine :=
  -- tupleShortAccepted, kindedNullRejected, assignNodeSkipsBegin, prefixEmptyDelimSplit were set here for the pinned
  -- commit's generator; repaired in /repo (40ac55b, the kinded AssignNull fix, 6982f51, ce97b14) they are off.
  { keyAsmDupMapKey := true }

/-- The flags by name (driver, classifier): `(name, isSet, cleared)`. -/
def Engine.flags (e : Engine) : List (String × Bool × Engine) :=
  [ ("dupStructField", e.dupStructField, { e with dupStructField := false, reuseSlot := false }),
    ("reuseSlot", e.reuseSlot, { e with reuseSlot := false }),
    ("dupMapKey", e.dupMapKey, { e with dupMapKey := false }),
    ("unionMulti", e.unionMulti, { e with unionMulti := false }),
    ("renameFallback", e.renameFallback, { e with renameFallback := false }),
    ("discFallback", e.discFallback, { e with discFallback := false }),
    ("enumTypeAnyString", e.enumTypeAnyString, { e with enumTypeAnyString := false }),
    ("enumNameAtRepr", e.enumNameAtRepr, { e with enumNameAtRepr := false }),
    ("nullableUnionPanic", e.nullableUnionPanic, { e with nullableUnionPanic := false }),
    ("lpShortPair", e.lpShortPair, { e with lpShortPair := false }),
    ("lpUnknownKeyPanic", e.lpUnknownKeyPanic, { e with lpUnknownKeyPanic := false }),
    ("tupleShortAccepted", e.tupleShortAccepted, { e with tupleShortAccepted := false }),
    ("prefixEmptyDelimSplit", e.prefixEmptyDelimSplit, { e with prefixEmptyDelimSplit := false }),
    ("kindedNullRejected", e.kindedNullRejected, { e with kindedNullRejected := false }),
    ("keyAsmDupMapKey", e.keyAsmDupMapKey, { e with keyAsmDupMapKey := false }),
    ("assignNodeSkipsBegin", e.assignNodeSkipsBegin, { e with assignNodeSkipsBegin := false }) ]

/-! ## Byte-string helpers (Go `strings.Split`, `SplitN(…, 2)`, `HasPrefix`) -/

def isPrefix : Bytes → Bytes → Bool
  | [], _ => true
  | _ :: _, [] => false
  | a :: p, b :: s => a == b && isPrefix p s

/-- `strings.Split(s, d)` for a non-empty `d`: `skip` bytes of a matched delimiter are still to be dropped,
    `cur` is the current part, reversed. -/
def splitAux (d : Bytes) : Nat → Bytes → Bytes → List Bytes
  | _, cur, [] => [cur.reverse]
  | skip + 1, cur, _ :: s => splitAux d skip cur s
  | 0, cur, c :: s =>
    if isPrefix d (c :: s) then cur.reverse :: splitAux d (d.length - 1) [] s
    else splitAux d 0 (c :: cur) s

/-- `strings.Split`; an empty delimiter is outside the modelled space (the whole string is one part). -/
def splitAll (d s : Bytes) : List Bytes :=
  if d.isEmpty then [s] else splitAux d 0 [] s

/-- `strings.SplitN(s, d, 2)` for a non-empty `d`: the parts before and after the leftmost occurrence. -/
def splitFirst (d : Bytes) : Bytes → Option (Bytes × Bytes)
  | [] => none
  | c :: s =>
    if isPrefix d (c :: s) then some ([], (c :: s).drop d.length)
    else match splitFirst d s with
      | some (a, b) => some (c :: a, b)
      | none => none

def joinBytes (d : Bytes) : List Bytes → Bytes
  | [] => []
  | [p] => p
  | p :: ps => p ++ d ++ joinBytes d ps

/-- Width of the first UTF-8 sequence of a non-empty string as `utf8.DecodeRuneInString` reports it, for
    well-formed text (a lead byte whose continuation bytes are missing or malformed counts 1, like Go's
    RuneError; overlong forms and surrogates are outside the modelled space). -/
def firstRuneWidth : Bytes → Nat
  | [] => 0
  | b :: rest =>
    let want : Nat := if b < 0x80 then 1 else if b < 0xC0 then 1 else if b < 0xE0 then 2 else if b < 0xF0 then 3 else if b < 0xF8 then 4 else 1
    if (rest.take (want - 1)).length == want - 1 && (rest.take (want - 1)).all (fun c => 0x80 ≤ c && c < 0xC0) then want else 1

/-- `strings.SplitN(s, "", 2)`: the first UTF-8 sequence and the rest, if the text has at least two sequences. -/
def splitFirstRune (s : Bytes) : Option (Bytes × Bytes) :=
  let w := firstRuneWidth s
  if w == 0 || (s.drop w).isEmpty then none else some (s.take w, s.drop w)

/-! ## Lookups -/

def findIdx {α : Type} (p : α → Bool) : List α → Option (Nat × α)
  | [] => none
  | a :: as => if p a then some (0, a) else (findIdx p as).map fun (i, x) => (i + 1, x)

/-- Field addressed by a key: at type level (and in listpairs) by name; in the map representation by
    its representation key, and - `renameFallback` - else by name (`inboundMappedKey`'s fall-back). -/
def fieldByKey (e : Engine) (lvl : Level) (fs : List Field) (k : Bytes) : Option (Nat × Field) :=
  match lvl with
  | .type => findIdx (fun f => f.name == k) fs
  | .repr =>
    match findIdx (fun f => f.rename == k) fs with
    | some r => some r
    | none => if e.renameFallback then findIdx (fun f => f.name == k) fs else none

/-- Member addressed by a key: by type name at type level; by discriminant in the keyed representation,
    and - `discFallback` - else by type name (`inboundMappedType`'s fall-back). -/
def memberByKey (e : Engine) (lvl : Level) (ms : List Member) (k : Bytes) : Option Member :=
  match lvl with
  | .type => ms.find? (fun m => m.name == k)
  | .repr =>
    match ms.find? (fun m => m.disc == k) with
    | some m => some m
    | none => if e.discFallback then ms.find? (fun m => m.name == k) else none

def wrapPath : List Bytes → TL → TL
  | [], v => v
  | n :: ns, v => .map (.cons n (wrapPath ns v) .nil)

/-! ## Go zero values and unallocated slots (generated code, C13) -/

/-- generated code keeps a `Maybe` of this type behind a pointer (adjunctCfg.go `MaybeUsesPtr`: everything
    larger than four words, i.e. structs and unions) -/
def usesPtr : Ty → Bool
  | .struct _ _ => true
  | .union _ _ => true
  | _ => false

def isKinded : Ty → Bool
  | .union _ .kinded => true
  | _ => false

/-- The marker for a value the engine stores but that cannot be read back (a nil link, a union without member, a
    struct or union behind a nil pointer): a list holding `absent`.  No builder produces it otherwise (list
    elements are never absent), so it is recognisable wherever it ends up; the build goes on around it, and a
    result that contains it counts as `panic` (`Outcome.seal`). -/
def TL.unreadable : TL := .list (.cons .absent .nil)

mutual
def TL.broken : TL → Bool
  | .list xs => TLs.broken xs
  | .map es => TLKVs.broken es
  | _ => false
def TLs.broken : TLs → Bool
  | .nil => false
  | .cons .absent _ => true
  | .cons x xs => TL.broken x || TLs.broken xs
def TLKVs.broken : TLKVs → Bool
  | .nil => false
  | .cons _ v es => TL.broken v || TLKVs.broken es
end

mutual
/-- What reading the Go zero value of a generated type shows at type level (`TL.unreadable` where it cannot be read). -/
def zeroOf : Ty → TL
  | .bool => .bool false
  | .int => .int 0
  | .float => .float 0
  | .str => .str []
  | .bytes => .bytes []
  | .link => TL.unreadable
  | .any => TL.unreadable
  | .list _ _ => .list .nil
  | .map _ _ => .map .nil
  | .struct fs _ => .map (TLKVs.ofList (zeroFields fs))
  | .union _ _ => TL.unreadable
  | .enum _ _ => TL.unreadable
/-- the fields of a zero struct: optional ones read Absent (their `Maybe` is 0 = Absent); a nullable required one
    reads the zero value of its type, or nothing readable if that sits behind a (nil) pointer -/
def zeroFields : Fields → List (Bytes × TL)
  | .nil => []
  | .cons n _ opt nu t rest =>
    (n, if opt then TL.absent else if nu && usesPtr t then TL.unreadable else zeroOf t) :: zeroFields rest
end

/-- the value of a required field that was never assigned -/
def zeroField (f : Field) : TL :=
  if f.nullable && usesPtr f.ty then TL.unreadable else zeroOf f.ty

/-- `Engine.assignNodeSkipsBegin`: a map/list node `d` is handed by `AssignNode` to the assembler of `ty` whose
    slot is a `Maybe` (`maybe`); if `ty` lives behind a pointer nothing was allocated.  `some o`: the outcome is
    decided here; `none`: assembly proceeds as usual.
    struct as a map (type level / map representation): the first key is looked up before anything is written - an
      unknown one is refused, a known one dereferences the nil struct (panic); no entry at all: `Finish` refuses if a
      field is required, else succeeds and the nil pointer is stored (unreadable).
    tuple: no element: `Finish` succeeds, the nil pointer is stored; else the first element dereferences it (no
      field: refused).
    union as a map (type level / keyed): an unknown first key is refused, a known one dereferences; none: refused. -/
def nilSlotAssign (e : Engine) (lvl : Level) (maybe : Bool) (ty : Ty) (d : DM) : Option (Outcome TL) :=
  if !(e.viaNode && e.assignNodeSkipsBegin && maybe) then none else
  match ty, d with
  | .struct fs sr, .map es =>
    if lvl == Level.repr && !(match sr with | .map => true | _ => false) then none else
    match es with
    | .nil => some (if fs.toList.all (·.opt) then .ok TL.unreadable else .reject)
    | .cons k _ _ => some (if (fieldByKey e lvl fs.toList k).isSome then .panic else .reject)
  | .struct fs .tuple, .list xs =>
    if lvl == Level.type then none else
    match xs with
    | .nil => some (.ok TL.unreadable)
    | .cons _ _ => some (if fs.toList.isEmpty then .reject else .panic)
  | .union ms ur, .map es =>
    if lvl == Level.repr && !(match ur with | .keyed => true | _ => false) then none else
    match es with
    | .nil => some .reject
    | .cons k _ _ => some (if (memberByKey e lvl ms.toList k).isSome then .panic else .reject)
  | _, _ => none

/-! ## Scalars: everything a non-recursive, non-null input can do (structural on the type) -/

def isScalar : DM → Bool
  | .list _ => false
  | .map _ => false
  | _ => true

mutual
/-- The builder at level `lvl` for type `ty` receives the scalar `d` (not null).  `nul`: the slot is
    nullable (a Go pointer). -/
def buildScalar (e : Engine) (lvl : Level) (nul : Bool) (d : DM) : Ty → Outcome TL
  | .bool => match d with | .bool b => .ok (.bool b) | _ => .reject
  | .int => match d with | .int i => .ok (.int i) | _ => .reject
  | .float => match d with | .float f => .ok (.float f) | _ => .reject
  | .str => match d with | .str s => .ok (.str s) | _ => .reject
  | .bytes => match d with | .bytes b => .ok (.bytes b) | _ => .reject
  | .link => match d with | .link c => .ok (.link c) | _ => .reject
  | .any => if isScalar d then .ok (TL.ofDM d) else .reject
  | .list _ _ => .reject
  | .map _ _ => .reject
  | .struct fs r =>
    match lvl, r, d with
    | .repr, .stringjoin delim, .str s =>
      let parts := splitAll delim s
      -- `len(parts) != len(fields)` is tested before any field is assigned
      if parts.length != fs.toList.length then .reject else
      match buildJoin e fs parts with
      | .ok es => .ok (.map (TLKVs.ofList es))
      | .reject => .reject
      | .panic => .panic
    | _, _, _ => .reject
  | .union ms r =>
    match lvl, r with
    | .repr, .kinded => buildKinded e nul d ms
    | .repr, .stringprefix delim =>
      match d with
      | .str s =>
        if delim.isEmpty then
          (if e.prefixEmptyDelimSplit then
             match splitFirstRune s with
             | none => .reject
             | some (p, rest) => buildPrefix e nul p rest ms
           else buildPrefixNoDelim e nul s ms)
        else match splitFirst delim s with
          | none => .reject
          | some (p, rest) => buildPrefix e nul p rest ms
      | _ => .reject
    | _, _ => .reject
  | .enum ms r =>
    match lvl, d with
    | .type, .str s =>
      if e.enumTypeAnyString || ms.any (fun m => m.name == s) then .ok (.str s) else .reject
    | .repr, .str s =>
      match r with
      | .str =>
        match ms.find? (fun m => m.rstr == s) with
        | some m => .ok (.str m.name)
        | none =>
          if e.enumNameAtRepr then
            match ms.find? (fun m => m.name == s) with
            | some m => .ok (.str m.name)
            | none => .reject
          else .reject
      | .int => .reject
    | .repr, .int i =>
      match r with
      | .int =>
        match ms.find? (fun m => m.rint == i) with
        | some m => .ok (.str m.name)
        | none => .reject
      | .str => .reject
    | _, _ => .reject
/-- stringjoin: one part per field, in order (the counts were compared before) -/
def buildJoin (e : Engine) : Fields → List Bytes → Outcome (List (Bytes × TL))
  | .nil, [] => .ok []
  | .nil, _ :: _ => .reject
  | .cons _ _ _ _ _ _, [] => .reject
  | .cons n _ _ _ t rest, p :: ps =>
    match buildScalar e .repr false (.str p) t with
    | .ok v =>
      (match buildJoin e rest ps with
       | .ok es => .ok ((n, v) :: es)
       | .reject => .reject
       | .panic => .panic)
    | .reject => .reject
    | .panic => .panic
/-- kinded: the member listed under the kind of the input -/
def buildKinded (e : Engine) (nul : Bool) (d : DM) : Members → Outcome TL
  | .nil => .reject
  | .cons n _ k t rest =>
    if k == d.kind then
      if nul && e.nullableUnionPanic then .panic
      else (buildScalar e .repr false d t).map fun v => .map (.cons n v .nil)
    else buildKinded e nul d rest
/-- stringprefix with a delimiter: the member whose discriminant is the text before the first delimiter -/
def buildPrefix (e : Engine) (nul : Bool) (p rest : Bytes) : Members → Outcome TL
  | .nil => .reject
  | .cons n disc _ t ms =>
    if disc == p then
      if nul && e.nullableUnionPanic then .panic
      else (buildScalar e .repr false (.str rest) t).map fun v => .map (.cons n v .nil)
    else buildPrefix e nul p rest ms
/-- stringprefix without delimiter: the first member whose discriminant is a prefix of the text -/
def buildPrefixNoDelim (e : Engine) (nul : Bool) (s : Bytes) : Members → Outcome TL
  | .nil => .reject
  | .cons n disc _ t ms =>
    if isPrefix disc s then
      if nul && e.nullableUnionPanic then .panic
      else (buildScalar e .repr false (.str (s.drop disc.length)) t).map fun v => .map (.cons n v .nil)
    else buildPrefixNoDelim e nul s ms
end

mutual
/-- Dispatch of a kinded union on an input of recursive kind `k` (list or map): the type finally
    addressed and the member names to wrap around the result, outermost first.  A kinded union
    inside a kinded union is followed (the code does); its slot is a fresh non-pointer. -/
def resolveKinded (e : Engine) (nul : Bool) (k : Kind) : Ty → Outcome (Ty × List Bytes)
  | .union ms .kinded => resolveMembers e nul k ms
  | t => .ok (t, [])
def resolveMembers (e : Engine) (nul : Bool) (k : Kind) : Members → Outcome (Ty × List Bytes)
  | .nil => .reject
  | .cons n _ k' t rest =>
    if k' == k then
      if nul && e.nullableUnionPanic then .panic
      else match resolveKinded e false k t with
        | .ok (t', path) => .ok (t', n :: path)
        | .reject => .reject
        | .panic => .panic
    else resolveMembers e nul k rest
end

/-! ## Struct assembly state -/

structure SSt where
  /-- per field: what the Go field holds (`none` = zero value, nothing assigned) -/
  slots : List (Option TL)
  /-- per field: assigned during this assembly (`doneFields`) -/
  done : List Bool
  deriving Repr, Inhabited

/-- Fresh assembly into a slot holding `cur` (a canonical struct value, or nothing). -/
def SSt.init (fs : List Field) (cur : Option TL) : SSt :=
  let old : List (Bytes × TL) := match cur with
    | some (.map es) => es.toList
    | _ => []
  { slots := fs.map fun f =>
      match old.find? (fun e => e.1 == f.name) with
      | some (_, .absent) => none
      | some (_, v) => some v
      | none => none,
    done := fs.map fun _ => false }

def SSt.isDone (st : SSt) (i : Nat) : Bool := st.done.getD i false

def SSt.assign (st : SSt) (i : Nat) (v : TL) : SSt :=
  { slots := st.slots.set i (some v), done := st.done.set i true }

/-- What a sub-assembly into field `i` finds in its slot. -/
def SSt.curOf (e : Engine) (st : SSt) (i : Nat) (f : Field) : Option TL :=
  if e.reuseSlot && !f.opt && !f.nullable then (st.slots.getD i none) else none

def finishFields : List Field → List (Option TL) → List Bool → Option (List (Bytes × TL))
  | [], [], [] => some []
  | f :: fs, s :: ss, d :: ds =>
    if !f.opt && !d then none   -- missing required field
    else
      match s, finishFields fs ss ds with
      | some v, some r => some ((f.name, v) :: r)
      | none, some r => if f.opt then some ((f.name, .absent) :: r) else none
      | _, none => none
  | _, _, _ => none

/-- `Finish` of a struct assembler: every required field was assigned; the canonical value. -/
def SSt.finish (fs : List Field) (st : SSt) : Outcome TL :=
  match finishFields fs st.slots st.done with
  | some es => .ok (.map (TLKVs.ofList es))
  | none => .reject

def finishFieldsZero : List Field → List (Option TL) → List Bool → List (Bytes × TL)
  | f :: fs, s :: ss, d :: ds =>
    (f.name, match d, s with
             | true, some v => v
             | _, _ => if f.opt then TL.absent else zeroField f) :: finishFieldsZero fs ss ds
  | _, _, _ => []

/-- `Finish` of the generated tuple assembler (`Engine.tupleShortAccepted`): nothing is checked; the fields that
    were not reached hold zero values. -/
def SSt.finishZero (fs : List Field) (st : SSt) : Outcome TL :=
  .ok (.map (TLKVs.ofList (finishFieldsZero fs st.slots st.done)))

/-- Typed-map append: the key is listed once more and every entry of that key reads the new value
    (`Keys = append(Keys, k); Values[k] = v`). -/
def mapAppend (acc : List (Bytes × TL)) (k : Bytes) (v : TL) : List (Bytes × TL) :=
  (acc.map fun e => if e.1 == k then (e.1, v) else e) ++ [(k, v)]

def curList : Option TL → List TL
  | some (.list xs) => xs.toList
  | _ => []

def curMap : Option TL → List (Bytes × TL)
  | some (.map es) => es.toList
  | _ => []

/-! ## The builders -/

mutual
/-- The builder of `ty` at level `lvl` is fed the whole tree `d`; the slot is nullable iff `nul`
    and currently holds `cur`. -/
def build (e : Engine) (lvl : Level) (ty : Ty) (nul : Bool) (cur : Option TL) : DM → Outcome TL
  | .null => if nul && !(e.kindedNullRejected && lvl == Level.repr && isKinded ty) then .ok .null else .reject
  | .list xs =>
    match (match lvl with
           | .repr => resolveKinded e nul .list ty
           | .type => (.ok (ty, []) : Outcome (Ty × List Bytes))) with
    | .reject => .reject
    | .panic => .panic
    | .ok (ty', path) =>
      let cur' := if path.isEmpty then cur else none
      let r : Outcome TL :=
        match ty' with
        | .list ety enul =>
          (buildList e lvl ety enul (curList cur') xs).map fun ys => .list (TLs.ofList ys)
        | .struct fs sr =>
          match lvl, sr with
          | .repr, .tuple => buildTuple e fs.toList (SSt.init fs.toList cur') 0 xs
          | .repr, .listpairs => buildPairs e fs.toList (SSt.init fs.toList cur') xs
          | _, _ => .reject
        | .any => if (DM.list xs).noDupKeys then .ok (TL.ofDM (.list xs)) else .reject
        | _ => .reject
      r.map (wrapPath path)
  | .map es =>
    match (match lvl with
           | .repr => resolveKinded e nul .map ty
           | .type => (.ok (ty, []) : Outcome (Ty × List Bytes))) with
    | .reject => .reject
    | .panic => .panic
    | .ok (ty', path) =>
      let cur' := if path.isEmpty then cur else none
      let r : Outcome TL :=
        match ty' with
        | .map vty vnul =>
          if e.viaNode && e.assignNodeSkipsBegin && path.isEmpty && (match es with | .nil => false | _ => true) then .panic
          else (buildMap e lvl vty vnul (curMap cur') es).map fun ys => .map (TLKVs.ofList ys)
        | .struct fs sr =>
          match lvl, sr with
          | .type, _ => buildStruct e lvl fs.toList (SSt.init fs.toList cur') es
          | .repr, .map => buildStruct e lvl fs.toList (SSt.init fs.toList cur') es
          | .repr, _ => .reject
        | .union ms ur =>
          match lvl, ur with
          | .type, _ => buildUnion e lvl ms.toList cur' 0 es
          | .repr, .keyed => buildUnion e lvl ms.toList cur' 0 es
          | .repr, _ => .reject
        | .any => if (DM.map es).noDupKeys then .ok (TL.ofDM (.map es)) else .reject
        | _ => .reject
      r.map (wrapPath path)
  | d => buildScalar e lvl nul d ty
/-- list elements, appended to what the slot held -/
def buildList (e : Engine) (lvl : Level) (ety : Ty) (enul : Bool) (acc : List TL) : DMs → Outcome (List TL)
  | .nil => .ok acc
  | .cons x xs =>
    match (match nilSlotAssign e lvl enul ety x with
           | some o => o
           | none => build e lvl ety enul none x) with
    | .ok v => buildList e lvl ety enul (acc ++ [v]) xs
    | .reject => .reject
    | .panic => .panic
/-- typed-map entries -/
def buildMap (e : Engine) (lvl : Level) (vty : Ty) (vnul : Bool) (acc : List (Bytes × TL)) : DMKVs → Outcome (List (Bytes × TL))
  | .nil => .ok acc
  | .cons k v es =>
    if acc.any (fun p => p.1 == k) && !e.dupMapKey && !(e.keyAsmDupMapKey && e.viaKeys) then .reject
    else
      match (match nilSlotAssign e lvl vnul vty v with
             | some o => o
             | none => build e lvl vty vnul none v) with
      | .ok tv => buildMap e lvl vty vnul (if e.dupMapKey then mapAppend acc k tv else acc ++ [(k, tv)]) es
      | .reject => .reject
      | .panic => .panic
/-- struct as a map: type level (keys = field names) or map representation (keys = representation keys) -/
def buildStruct (e : Engine) (lvl : Level) (fs : List Field) (st : SSt) : DMKVs → Outcome TL
  | .nil => st.finish fs
  | .cons k v es =>
    match fieldByKey e lvl fs k with
    | none => .reject
    | some (i, f) =>
      if st.isDone i && !e.dupStructField then .reject
      else
        match (match nilSlotAssign e lvl (f.opt || f.nullable) f.ty v with
               | some o => o
               | none => build e lvl f.ty f.nullable (st.curOf e i f) v) with
        | .ok tv => buildStruct e lvl fs (st.assign i tv) es
        | .reject => .reject
        | .panic => .panic
/-- tuple representation: the i-th element is the i-th field -/
def buildTuple (e : Engine) (fs : List Field) (st : SSt) (i : Nat) : DMs → Outcome TL
  | .nil => if e.tupleShortAccepted then st.finishZero fs else st.finish fs
  | .cons x xs =>
    match fs[i]? with
    | none => .reject     -- more elements than fields
    | some f =>
      match (match nilSlotAssign e .repr (f.opt || f.nullable) f.ty x with
             | some o => o
             | none => build e .repr f.ty f.nullable (st.curOf e i f) x) with
      | .ok tv => buildTuple e fs (st.assign i tv) (i + 1) xs
      | .reject => .reject
      | .panic => .panic
/-- listpairs representation: a list of `[name, value]` lists -/
def buildPairs (e : Engine) (fs : List Field) (st : SSt) : DMs → Outcome TL
  | .nil => st.finish fs
  | .cons p ps =>
    match p with
    | .list .nil => if e.lpShortPair then buildPairs e fs st ps else .reject
    | .list (.cons (.str _) .nil) => if e.lpShortPair then buildPairs e fs st ps else .reject
    | .list (.cons (.str k) (.cons v rest)) =>
      match findIdx (fun f => f.name == k) fs with
      | none => if e.lpUnknownKeyPanic then .panic else .reject
      | some (i, f) =>
        if st.isDone i && !e.dupStructField then .reject
        else
          match build e .repr f.ty f.nullable (st.curOf e i f) v with
          | .ok tv =>
            match rest with
            | .nil => buildPairs e fs (st.assign i tv) ps
            | .cons _ _ => .reject    -- a third element
          | .reject => .reject
          | .panic => .panic
    | _ => .reject          -- not a list, or a key that is not a string
/-- union as a map: type level (key = member type name) or keyed representation (key = discriminant);
    `cur` is the member set so far, `n` the number of entries already taken -/
def buildUnion (e : Engine) (lvl : Level) (ms : List Member) (cur : Option TL) (n : Nat) : DMKVs → Outcome TL
  | .nil => match cur with
    | some v => .ok v
    | none => .reject        -- no member set
  | .cons k v es =>
    if n ≥ 1 && !e.unionMulti then .reject
    else
      match memberByKey e lvl ms k with
      | none => .reject
      | some m =>
        match build e lvl m.ty false none v with
        | .ok tv => buildUnion e lvl ms (some (.map (.cons m.name tv .nil))) (n + 1) es
        | .reject => .reject
        | .panic => .panic
end

/-- The type-level builder (`TypedPrototype.NewBuilder()`), fed a whole data-model tree. -/
def ofType (e : Engine) (ty : Ty) (d : DM) : Outcome TL := build e .type ty false none d

/-- The representation-level builder (`TypedPrototype.Representation().NewBuilder()`). -/
def ofRepr (e : Engine) (ty : Ty) (d : DM) : Outcome TL := build e .repr ty false none d

/-- An accepted value that cannot be read back in full counts as a panic (`TL.unreadable`; only engines with
    `tupleShortAccepted` / `assignNodeSkipsBegin` ever produce it). -/
def Outcome.seal : Outcome TL → Outcome TL
  | .ok v => if v.broken then .panic else .ok v
  | o => o

/-- What feeding a whole tree into the builder at a level shows in the end. -/
def buildSealed (e : Engine) (lvl : Level) (ty : Ty) (d : DM) : Outcome TL := (build e lvl ty false none d).seal

/-! ## The representation of a typed value -/

def dropTrailingNone {α : Type} (l : List (Option α)) : List (Option α) :=
  (l.reverse.dropWhile Option.isNone).reverse

def allSome {α : Type} : List (Option α) → Option (List α)
  | [] => some []
  | some a :: r => (allSome r).map (a :: ·)
  | none :: _ => none

def allStr : List DM → Option (List Bytes)
  | [] => some []
  | .str s :: r => (allStr r).map (s :: ·)
  | _ :: _ => none

mutual
/-- Representation view of the canonical typed value `v` of type `ty` in a slot that is nullable iff
    `nul`.  `none`: `v` is not a canonical value of the type, or it has no representation in the
    data model (a tuple with an absent field before a present one). -/
def toRepr (ty : Ty) (nul : Bool) : TL → Option DM
  | .absent => none
  | .null => if nul then some .null else none
  | .bool b => match ty with
    | .bool => some (.bool b)
    | .any => some (.bool b)
    | _ => none
  | .int i => match ty with
    | .int => some (.int i)
    | .any => some (.int i)
    | _ => none
  | .float f => match ty with
    | .float => some (.float f)
    | .any => some (.float f)
    | _ => none
  | .bytes b => match ty with
    | .bytes => some (.bytes b)
    | .any => some (.bytes b)
    | _ => none
  | .link c => match ty with
    | .link => some (.link c)
    | .any => some (.link c)
    | _ => none
  | .str s => match ty with
    | .str => some (.str s)
    | .any => some (.str s)
    | .enum ms r =>
      match ms.find? (fun m => m.name == s) with
      | some m => (match r with | .str => some (.str m.rstr) | .int => some (.int m.rint))
      | none => none
    | _ => none
  | .list xs => match ty with
    | .list ety enul => (reprList ety enul xs).map fun ys => .list (DMs.ofList ys)
    | .any => TL.toDM? (.list xs)
    | _ => none
  | .map es => match ty with
    | .map vty vnul => (reprMap vty vnul es).map fun ys => .map (DMKVs.ofList ys)
    | .struct fs sr =>
      match reprFields fs.toList es with
      | none => none
      | some vals =>      -- per field, in order: its representation, `none` = absent
        match sr with
        | .map =>
          some (.map (DMKVs.ofList ((fs.toList.zip vals).filterMap fun (f, ov) => ov.map fun d => (f.rename, d))))
        | .listpairs =>
          some (.list (DMs.ofList ((fs.toList.zip vals).filterMap fun (f, ov) =>
            ov.map fun d => DM.list (.cons (.str f.name) (.cons d .nil)))))
        | .tuple => (allSome (dropTrailingNone vals)).map fun ds => .list (DMs.ofList ds)
        | .stringjoin delim =>
          match allSome vals with
          | none => none
          | some ds => (allStr ds).map fun ss => .str (joinBytes delim ss)
    | .union ms ur =>
      match es with
      | .cons k v .nil =>
        match ms.toList.find? (fun m => m.name == k) with
        | none => none
        | some m =>
          match toRepr m.ty false v with
          | none => none
          | some d =>
            match ur with
            | .keyed => some (.map (.cons m.disc d .nil))
            | .kinded => some d
            | .stringprefix delim =>
              match d with
              | .str s => some (.str (m.disc ++ delim ++ s))
              | _ => none
      | _ => none
    | .any => TL.toDM? (.map es)
    | _ => none
def reprList (ety : Ty) (enul : Bool) : TLs → Option (List DM)
  | .nil => some []
  | .cons x xs =>
    match toRepr ety enul x, reprList ety enul xs with
    | some d, some ds => some (d :: ds)
    | _, _ => none
def reprMap (vty : Ty) (vnul : Bool) : TLKVs → Option (List (Bytes × DM))
  | .nil => some []
  | .cons k v es =>
    match toRepr vty vnul v, reprMap vty vnul es with
    | some d, some ds => some ((k, d) :: ds)
    | _, _ => none
/-- the entries of a canonical struct value line up with the fields -/
def reprFields : List Field → TLKVs → Option (List (Option DM))
  | [], .nil => some []
  | f :: fs, .cons k v es =>
    if k != f.name then none
    else
      match v with
      | .absent => if f.opt then (reprFields fs es).map (none :: ·) else none
      | _ =>
        match toRepr f.ty f.nullable v, reprFields fs es with
        | some d, some r => some (some d :: r)
        | _, _ => none
  | _, _ => none
end

/-- `TypedNode.Representation()` of a root value. -/
def repr (ty : Ty) (v : TL) : Option DM := toRepr ty false v

/-! ## Conformance, stated independently of the builders -/

mutual
/-- Type-level conformance of a tree (with or without explicit `absent` entries): kinds right, null
    only where nullable, absent only as the value of an optional field, no unknown and no repeated
    field or key, every required field present, exactly one known union member, valid enum member.
    Entry order of structs is free (the builder takes fields in any order). -/
def conforms (ty : Ty) (nul : Bool) : TL → Bool
  | .absent => false
  | .null => nul
  | .bool _ => match ty with | .bool => true | .any => true | _ => false
  | .int _ => match ty with | .int => true | .any => true | _ => false
  | .float _ => match ty with | .float => true | .any => true | _ => false
  | .bytes _ => match ty with | .bytes => true | .any => true | _ => false
  | .link _ => match ty with | .link => true | .any => true | _ => false
  | .str s => match ty with
    | .str => true
    | .any => true
    | .enum ms _ => ms.any (fun m => m.name == s)
    | _ => false
  | .list xs => match ty with
    | .list ety enul => conformsList ety enul xs
    | .any => anyOK (.list xs)
    | _ => false
  | .map es => match ty with
    | .map vty vnul => conformsMap vty vnul [] es
    | .struct fs _ => conformsStruct fs.toList [] es
    | .union ms _ =>
      match es with
      | .cons k v .nil =>
        match ms.toList.find? (fun m => m.name == k) with
        | some m => conforms m.ty false v
        | none => false
      | _ => false
    | .any => anyOK (.map es)
    | _ => false
def conformsList (ety : Ty) (enul : Bool) : TLs → Bool
  | .nil => true
  | .cons x xs => conforms ety enul x && conformsList ety enul xs
def conformsMap (vty : Ty) (vnul : Bool) (seen : List Bytes) : TLKVs → Bool
  | .nil => true
  | .cons k v es => !seen.contains k && conforms vty vnul v && conformsMap vty vnul (k :: seen) es
def conformsStruct (fs : List Field) (seen : List Bytes) : TLKVs → Bool
  | .nil => fs.all fun f => f.opt || seen.contains f.name
  | .cons k v es =>
    match fs.find? (fun f => f.name == k) with
    | none => false
    | some f =>
      !seen.contains k
      && (match v with
          | .absent => f.opt
          | _ => conforms f.ty f.nullable v)
      && conformsStruct fs (k :: seen) es
/-- an `any` value: no `absent` and no repeated map key anywhere -/
def anyOK : TL → Bool
  | .absent => false
  | .list xs => anyOKs xs
  | .map es => anyOKkv [] es
  | _ => true
def anyOKs : TLs → Bool
  | .nil => true
  | .cons x xs => anyOK x && anyOKs xs
def anyOKkv (seen : List Bytes) : TLKVs → Bool
  | .nil => true
  | .cons k v es => !seen.contains k && anyOK v && anyOKkv (k :: seen) es
end

/-- The canonical order of a struct value: every field in declaration order, an unset one as `absent`. -/
def canonFields (fs : List Field) (es : List (Bytes × TL)) : List (Bytes × TL) :=
  fs.map fun f =>
    match es.find? (fun e => e.1 == f.name) with
    | some (_, v) => (f.name, v)
    | none => (f.name, .absent)

mutual
/-- The canonical typed value denoted by a conforming type-level tree: struct entries in declaration
    order with the unset optional fields made explicit - "the node built equals the input" for the
    type-level builder is `ofType ideal ty d = ok (normalize ty (TL.ofDM d))`. -/
def normalize (ty : Ty) : TL → TL
  | .list xs => match ty with
    | .list ety _ => .list (normalizeList ety xs)
    | _ => .list xs
  | .map es => match ty with
    | .map vty _ => .map (normalizeMap vty es)
    | .struct fs _ => .map (TLKVs.ofList (canonFields fs.toList (normalizeStruct fs.toList es).toList))
    | .union ms _ =>
      match es with
      | .cons k v .nil =>
        match ms.toList.find? (fun m => m.name == k) with
        | some m => .map (.cons k (normalize m.ty v) .nil)
        | none => .map es
      | _ => .map es
    | _ => .map es
  | v => v
def normalizeList (ety : Ty) : TLs → TLs
  | .nil => .nil
  | .cons x xs => .cons (normalize ety x) (normalizeList ety xs)
def normalizeMap (vty : Ty) : TLKVs → TLKVs
  | .nil => .nil
  | .cons k v es => .cons k (normalize vty v) (normalizeMap vty es)
def normalizeStruct (fs : List Field) : TLKVs → TLKVs
  | .nil => .nil
  | .cons k v es =>
    .cons k (match fs.find? (fun f => f.name == k) with
             | some f => normalize f.ty v
             | none => v) (normalizeStruct fs es)
end

mutual
/-- Representation-level conformance of a string to a type with a string representation
    (structural on the type). -/
def conformsStr (s : Bytes) : Ty → Bool
  | .str => true
  | .any => true
  | .enum ms .str => ms.any (fun m => m.rstr == s)
  | .struct fs (.stringjoin delim) => conformsJoin fs (splitAll delim s)
  | .union ms (.stringprefix delim) =>
    if delim.isEmpty then conformsPrefixNoDelim s ms
    else match splitFirst delim s with
      | some (p, rest) => conformsPrefix p rest ms
      | none => false
  | .union ms .kinded => conformsKindedStr s ms
  | _ => false
def conformsJoin : Fields → List Bytes → Bool
  | .nil, [] => true
  | .cons _ _ _ _ t rest, p :: ps => conformsStr p t && conformsJoin rest ps
  | _, _ => false
def conformsPrefix (p rest : Bytes) : Members → Bool
  | .nil => false
  | .cons _ disc _ t ms => if disc == p then conformsStr rest t else conformsPrefix p rest ms
def conformsPrefixNoDelim (s : Bytes) : Members → Bool
  | .nil => false
  | .cons _ disc _ t ms => if isPrefix disc s then conformsStr (s.drop disc.length) t else conformsPrefixNoDelim s ms
def conformsKindedStr (s : Bytes) : Members → Bool
  | .nil => false
  | .cons _ _ k t ms => if k == .str then conformsStr s t else conformsKindedStr s ms
end

mutual
/-- Representation-level conformance of a non-string scalar (structural on the type). -/
def conformsAtom (d : DM) : Ty → Bool
  | .bool => d.kind == .bool
  | .int => d.kind == .int
  | .float => d.kind == .float
  | .bytes => d.kind == .bytes
  | .link => d.kind == .link
  | .any => true
  | .enum ms .int => match d with
    | .int i => ms.any (fun m => m.rint == i)
    | _ => false
  | .union ms .kinded => conformsKindedAtom d ms
  | _ => false
def conformsKindedAtom (d : DM) : Members → Bool
  | .nil => false
  | .cons _ _ k t ms => if k == d.kind then conformsAtom d t else conformsKindedAtom d ms
end

/-- the member type a kinded union addresses for an input of recursive kind `k` (no engine involved) -/
def kindedTarget (k : Kind) (ty : Ty) : Option Ty :=
  match resolveKinded Engine.ideal false k ty with
  | .ok (t, _) => some t
  | _ => none

mutual
/-- Representation-level conformance, independent of the builders. -/
def conformsRepr (ty : Ty) (nul : Bool) : DM → Bool
  | .null => nul
  | .str s => conformsStr s ty
  | .list xs =>
    match kindedTarget .list ty with
    | some (.list ety enul) => conformsReprList ety enul xs
    | some (.struct fs .tuple) => conformsReprTuple fs.toList xs
    | some (.struct fs .listpairs) => conformsReprPairs fs.toList [] xs
    | some .any => (DM.list xs).noDupKeys
    | _ => false
  | .map es =>
    match kindedTarget .map ty with
    | some (.map vty vnul) => conformsReprMap vty vnul [] es
    | some (.struct fs .map) => conformsReprStruct fs.toList [] es
    | some (.union ms .keyed) =>
      match es with
      | .cons k v .nil =>
        match ms.toList.find? (fun m => m.disc == k) with
        | some m => conformsRepr m.ty false v
        | none => false
      | _ => false
    | some .any => (DM.map es).noDupKeys
    | _ => false
  | d => conformsAtom d ty
def conformsReprList (ety : Ty) (enul : Bool) : DMs → Bool
  | .nil => true
  | .cons x xs => conformsRepr ety enul x && conformsReprList ety enul xs
def conformsReprMap (vty : Ty) (vnul : Bool) (seen : List Bytes) : DMKVs → Bool
  | .nil => true
  | .cons k v es => !seen.contains k && conformsRepr vty vnul v && conformsReprMap vty vnul (k :: seen) es
def conformsReprStruct (fs : List Field) (seen : List Bytes) : DMKVs → Bool
  | .nil => fs.all fun f => f.opt || seen.contains f.rename
  | .cons k v es =>
    match fs.find? (fun f => f.rename == k) with
    | none => false
    | some f => !seen.contains k && conformsRepr f.ty f.nullable v && conformsReprStruct fs (k :: seen) es
/-- tuple: element i is field i; the fields past the end of the list are optional -/
def conformsReprTuple : List Field → DMs → Bool
  | fs, .nil => fs.all fun f => f.opt
  | [], .cons _ _ => false
  | f :: fs, .cons x xs => conformsRepr f.ty f.nullable x && conformsReprTuple fs xs
def conformsReprPairs (fs : List Field) (seen : List Bytes) : DMs → Bool
  | .nil => fs.all fun f => f.opt || seen.contains f.name
  | .cons p ps =>
    match p with
    | .list (.cons (.str k) (.cons v .nil)) =>
      match fs.find? (fun f => f.name == k) with
      | none => false
      | some f => !seen.contains k && conformsRepr f.ty f.nullable v && conformsReprPairs fs (k :: seen) ps
    | _ => false
end

/-! ## Well-formed types: the schema-level unambiguity the strategies need -/

def nodupBytes : List Bytes → Bool
  | [] => true
  | b :: bs => !bs.contains b && nodupBytes bs

/-- has a string representation (may sit in a stringjoin field / under a stringprefix) -/
def Ty.stringy : Ty → Bool
  | .str => true
  | .enum _ .str => true
  | .struct _ (.stringjoin _) => true
  | .union _ (.stringprefix _) => true
  | _ => false

mutual
def Ty.wf : Ty → Bool
  | .list t _ => t.wf
  | .map t _ => t.wf
  | .struct fs r =>
    fs.wf && nodupBytes (fs.toList.map (·.name)) && nodupBytes (fs.toList.map (·.rename))
    && (match r with
        | .stringjoin d => !d.isEmpty && fs.toList.all (fun f => !f.opt && !f.nullable && f.ty.stringy)
        | _ => true)
  | .union ms r =>
    ms.wf && nodupBytes (ms.toList.map (·.name))
    && (match r with
        | .keyed => nodupBytes (ms.toList.map (·.disc))
        | .kinded => (ms.toList.map (·.kind)).eraseDups.length == ms.toList.length
        | .stringprefix _ => nodupBytes (ms.toList.map (·.disc)) && ms.toList.all (fun m => m.ty.stringy))
  | .enum ms r =>
    nodupBytes (ms.map (·.name))
    && (match r with
        | .str => nodupBytes (ms.map (·.rstr))
        | .int => (ms.map (·.rint)).eraseDups.length == ms.length)
  | _ => true
def Fields.wf : Fields → Bool
  | .nil => true
  | .cons _ _ _ _ t rest => t.wf && rest.wf
def Members.wf : Members → Bool
  | .nil => true
  | .cons _ _ _ t rest => t.wf && rest.wf
end

end Schema
end Ipld
