/-
  The generated-code flags of `Engine` (C13: `tupleShortAccepted`, `prefixEmptyDelimSplit`,
  `kindedNullRejected`, `keyAsmDupMapKey`, `assignNodeSkipsBegin`, and the driving modes `viaKeys`,
  `viaNode`) switched off: every builder equation that consults one of them reduces to the equation of
  the builders before those flags existed.  The lemmas of `Schema*.lean` unfold the builders through
  these reduction lemmas, so that they speak about every engine whose relevant flag is off - in
  particular `Engine.ideal`.

  Each `_off` lemma names exactly the flag (combination) its equation depends on:
    * `nilSlotAssign`, the typed-map panic of `build`:  `e.viaNode && e.assignNodeSkipsBegin`
    * null in `build`:                                  `e.kindedNullRejected`
    * the duplicate-key test of `buildMap`:             `e.keyAsmDupMapKey && e.viaKeys`
    * `Finish` of `buildTuple`:                         `e.tupleShortAccepted`
    * empty-delimiter stringprefix in `buildScalar`:    `e.prefixEmptyDelimSplit`
-/
import IpldModel.Model.Schema
namespace Ipld
namespace Schema

/-! ## The ideal engine's generated-code flags -/

@[simp] theorem ideal_tupleShortAccepted : Engine.ideal.tupleShortAccepted = false := rfl
@[simp] theorem ideal_prefixEmptyDelimSplit : Engine.ideal.prefixEmptyDelimSplit = false := rfl
@[simp] theorem ideal_kindedNullRejected : Engine.ideal.kindedNullRejected = false := rfl
@[simp] theorem ideal_keyAsmDupMapKey : Engine.ideal.keyAsmDupMapKey = false := rfl
@[simp] theorem ideal_assignNodeSkipsBegin : Engine.ideal.assignNodeSkipsBegin = false := rfl
@[simp] theorem ideal_viaKeys : Engine.ideal.viaKeys = false := rfl
@[simp] theorem ideal_viaNode : Engine.ideal.viaNode = false := rfl

theorem ideal_nodeOff : (Engine.ideal.viaNode && Engine.ideal.assignNodeSkipsBegin) = false := rfl
theorem ideal_keysOff : (Engine.ideal.keyAsmDupMapKey && Engine.ideal.viaKeys) = false := rfl

/-! ## `assignNodeSkipsBegin` (needs the driving mode `viaNode`) -/

/-- Without `viaNode && assignNodeSkipsBegin` no slot is ever decided ahead of its builder. -/
theorem nilSlotAssign_off (e : Engine) (h : (e.viaNode && e.assignNodeSkipsBegin) = false)
    (lvl : Level) (m : Bool) (ty : Ty) (d : DM) : nilSlotAssign e lvl m ty d = none := by
  simp [nilSlotAssign, h]

@[simp] theorem nilSlotAssign_ideal (lvl : Level) (m : Bool) (ty : Ty) (d : DM) :
    nilSlotAssign Engine.ideal lvl m ty d = none :=
  nilSlotAssign_off _ ideal_nodeOff lvl m ty d

/-- `build` on a map without `viaNode && assignNodeSkipsBegin`: the typed-map case goes straight to `buildMap`. -/
theorem build_map_off (e : Engine) (h : (e.viaNode && e.assignNodeSkipsBegin) = false)
    (lvl : Level) (ty : Ty) (nul : Bool) (cur : Option TL) (es : DMKVs) :
    build e lvl ty nul cur (.map es) =
    match (match lvl with
           | .repr => resolveKinded e nul .map ty
           | .type => (.ok (ty, []) : Outcome (Ty × List Bytes))) with
    | .reject => .reject
    | .panic => .panic
    | .ok (ty', path) =>
      let cur' := if path.isEmpty then cur else none
      let r : Outcome TL :=
        match ty' with
        | .map vty vnul =>
          (buildMap e lvl vty vnul (curMap cur') es).map fun ys => .map (TLKVs.ofList ys)
        | .struct fs sr =>
          match lvl, sr with
          | .type, _ => buildStruct e lvl fs.toList (SSt.init fs.toList cur') es
          | .repr, .map => buildStruct e lvl fs.toList (SSt.init fs.toList cur') es
          | .repr, _ => .reject
        | .union ms ur =>
          match lvl, ur with
          | .type, _ => buildUnion e lvl ms.toList cur' 0 es
          | .repr, .keyed => buildUnion e lvl ms.toList cur' 0 es
          | .repr, _ => .reject
        | .any => if (DM.map es).noDupKeys then .ok (TL.ofDM (.map es)) else .reject
        | _ => .reject
      r.map (wrapPath path) := by
  unfold build
  simp only [h, Bool.false_and, Bool.false_eq_true, if_false]
  rfl

theorem build_map_ideal (lvl : Level) (ty : Ty) (nul : Bool) (cur : Option TL) (es : DMKVs) :
    build Engine.ideal lvl ty nul cur (.map es) =
    match (match lvl with
           | .repr => resolveKinded Engine.ideal nul .map ty
           | .type => (.ok (ty, []) : Outcome (Ty × List Bytes))) with
    | .reject => .reject
    | .panic => .panic
    | .ok (ty', path) =>
      let cur' := if path.isEmpty then cur else none
      let r : Outcome TL :=
        match ty' with
        | .map vty vnul =>
          (buildMap Engine.ideal lvl vty vnul (curMap cur') es).map fun ys => .map (TLKVs.ofList ys)
        | .struct fs sr =>
          match lvl, sr with
          | .type, _ => buildStruct Engine.ideal lvl fs.toList (SSt.init fs.toList cur') es
          | .repr, .map => buildStruct Engine.ideal lvl fs.toList (SSt.init fs.toList cur') es
          | .repr, _ => .reject
        | .union ms ur =>
          match lvl, ur with
          | .type, _ => buildUnion Engine.ideal lvl ms.toList cur' 0 es
          | .repr, .keyed => buildUnion Engine.ideal lvl ms.toList cur' 0 es
          | .repr, _ => .reject
        | .any => if (DM.map es).noDupKeys then .ok (TL.ofDM (.map es)) else .reject
        | _ => .reject
      r.map (wrapPath path) :=
  build_map_off _ ideal_nodeOff lvl ty nul cur es

theorem buildList_cons_off (e : Engine) (h : (e.viaNode && e.assignNodeSkipsBegin) = false)
    (lvl : Level) (ety : Ty) (enul : Bool) (acc : List TL) (x : DM) (xs : DMs) :
    buildList e lvl ety enul acc (.cons x xs) =
      match build e lvl ety enul none x with
      | .ok v => buildList e lvl ety enul (acc ++ [v]) xs
      | .reject => .reject
      | .panic => .panic := by
  rw [buildList, nilSlotAssign_off e h]
  rfl

theorem buildList_cons_ideal (lvl : Level) (ety : Ty) (enul : Bool) (acc : List TL) (x : DM) (xs : DMs) :
    buildList Engine.ideal lvl ety enul acc (.cons x xs) =
      match build Engine.ideal lvl ety enul none x with
      | .ok v => buildList Engine.ideal lvl ety enul (acc ++ [v]) xs
      | .reject => .reject
      | .panic => .panic :=
  buildList_cons_off _ ideal_nodeOff lvl ety enul acc x xs

theorem buildStruct_cons_off (e : Engine) (h : (e.viaNode && e.assignNodeSkipsBegin) = false)
    (lvl : Level) (fs : List Field) (st : SSt) (k : Bytes) (v : DM) (es : DMKVs) :
    buildStruct e lvl fs st (.cons k v es) =
      match fieldByKey e lvl fs k with
      | none => .reject
      | some (i, f) =>
        if st.isDone i && !e.dupStructField then .reject
        else
          match build e lvl f.ty f.nullable (st.curOf e i f) v with
          | .ok tv => buildStruct e lvl fs (st.assign i tv) es
          | .reject => .reject
          | .panic => .panic := by
  rw [buildStruct]
  simp only [nilSlotAssign_off e h]
  rfl

theorem buildStruct_cons_ideal (lvl : Level) (fs : List Field) (st : SSt) (k : Bytes) (v : DM) (es : DMKVs) :
    buildStruct Engine.ideal lvl fs st (.cons k v es) =
      match fieldByKey Engine.ideal lvl fs k with
      | none => .reject
      | some (i, f) =>
        if st.isDone i && !Engine.ideal.dupStructField then .reject
        else
          match build Engine.ideal lvl f.ty f.nullable (st.curOf Engine.ideal i f) v with
          | .ok tv => buildStruct Engine.ideal lvl fs (st.assign i tv) es
          | .reject => .reject
          | .panic => .panic :=
  buildStruct_cons_off _ ideal_nodeOff lvl fs st k v es

theorem buildTuple_cons_off (e : Engine) (h : (e.viaNode && e.assignNodeSkipsBegin) = false)
    (fs : List Field) (st : SSt) (i : Nat) (x : DM) (xs : DMs) :
    buildTuple e fs st i (.cons x xs) =
      match fs[i]? with
      | none => .reject
      | some f =>
        match build e .repr f.ty f.nullable (st.curOf e i f) x with
        | .ok tv => buildTuple e fs (st.assign i tv) (i + 1) xs
        | .reject => .reject
        | .panic => .panic := by
  rw [buildTuple]
  simp only [nilSlotAssign_off e h]
  rfl

theorem buildTuple_cons_ideal (fs : List Field) (st : SSt) (i : Nat) (x : DM) (xs : DMs) :
    buildTuple Engine.ideal fs st i (.cons x xs) =
      match fs[i]? with
      | none => .reject
      | some f =>
        match build Engine.ideal .repr f.ty f.nullable (st.curOf Engine.ideal i f) x with
        | .ok tv => buildTuple Engine.ideal fs (st.assign i tv) (i + 1) xs
        | .reject => .reject
        | .panic => .panic :=
  buildTuple_cons_off _ ideal_nodeOff fs st i x xs

/-! ## `tupleShortAccepted` -/

theorem buildTuple_nil_off (e : Engine) (h : e.tupleShortAccepted = false) (fs : List Field) (st : SSt) (i : Nat) :
    buildTuple e fs st i .nil = st.finish fs := by
  rw [buildTuple]
  simp [h]

theorem buildTuple_nil_ideal (fs : List Field) (st : SSt) (i : Nat) :
    buildTuple Engine.ideal fs st i .nil = st.finish fs :=
  buildTuple_nil_off _ rfl fs st i

/-! ## `kindedNullRejected` -/

theorem build_null_off (e : Engine) (h : e.kindedNullRejected = false) (lvl : Level) (ty : Ty) (nul : Bool)
    (cur : Option TL) : build e lvl ty nul cur .null = if nul then .ok .null else .reject := by
  unfold build
  simp [h]

theorem build_null_ideal (lvl : Level) (ty : Ty) (nul : Bool) (cur : Option TL) :
    build Engine.ideal lvl ty nul cur .null = if nul then .ok .null else .reject :=
  build_null_off _ rfl lvl ty nul cur

/-! ## `keyAsmDupMapKey` (needs the driving mode `viaKeys`) -/

theorem mapAppend_fresh (acc : List (Bytes × TL)) (k : Bytes) (v : TL)
    (h : acc.any (fun p => p.1 == k) = false) : mapAppend acc k v = acc ++ [(k, v)] := by
  unfold mapAppend
  congr 1
  simp only [List.any_eq_false, beq_iff_eq] at h
  have : ∀ e ∈ acc, (if (e.1 == k) = true then (e.1, v) else e) = e := by
    intro e he
    have := h e he
    simp [this]
  rw [List.map_congr_left this]
  simp

/-- `buildMap` without `viaNode && assignNodeSkipsBegin`: only the slot shortcut is gone. -/
theorem buildMap_cons_nodeOff (e : Engine) (h : (e.viaNode && e.assignNodeSkipsBegin) = false)
    (lvl : Level) (vty : Ty) (vnul : Bool) (acc : List (Bytes × TL)) (k : Bytes) (v : DM) (es : DMKVs) :
    buildMap e lvl vty vnul acc (.cons k v es) =
      if acc.any (fun p => p.1 == k) && !e.dupMapKey && !(e.keyAsmDupMapKey && e.viaKeys) then .reject
      else
        match build e lvl vty vnul none v with
        | .ok tv => buildMap e lvl vty vnul (if e.dupMapKey then mapAppend acc k tv else acc ++ [(k, tv)]) es
        | .reject => .reject
        | .panic => .panic := by
  rw [buildMap]
  simp only [nilSlotAssign_off e h]
  rfl

/-- `buildMap` without `keyAsmDupMapKey && viaKeys` (and without the slot shortcut): a key is appended
    by `mapAppend` whenever it is not refused - the only way a repeated key gets through is `dupMapKey`. -/
theorem buildMap_cons_off (e : Engine) (h : (e.viaNode && e.assignNodeSkipsBegin) = false)
    (hk : (e.keyAsmDupMapKey && e.viaKeys) = false)
    (lvl : Level) (vty : Ty) (vnul : Bool) (acc : List (Bytes × TL)) (k : Bytes) (v : DM) (es : DMKVs) :
    buildMap e lvl vty vnul acc (.cons k v es) =
      if acc.any (fun p => p.1 == k) && !e.dupMapKey then .reject
      else
        match build e lvl vty vnul none v with
        | .ok tv => buildMap e lvl vty vnul (mapAppend acc k tv) es
        | .reject => .reject
        | .panic => .panic := by
  rw [buildMap_cons_nodeOff e h]
  simp only [hk, Bool.not_false, Bool.and_true]
  cases hd : e.dupMapKey
  · cases ha : acc.any (fun p => p.1 == k)
    · simp only [Bool.false_and, Bool.false_eq_true, if_false]
      cases build e lvl vty vnul none v with
      | ok tv => simp only [mapAppend_fresh acc k tv ha]
      | reject => rfl
      | panic => rfl
    · simp
  · simp

theorem buildMap_cons_ideal (lvl : Level) (vty : Ty) (vnul : Bool) (acc : List (Bytes × TL)) (k : Bytes)
    (v : DM) (es : DMKVs) :
    buildMap Engine.ideal lvl vty vnul acc (.cons k v es) =
      if acc.any (fun p => p.1 == k) && !Engine.ideal.dupMapKey then .reject
      else
        match build Engine.ideal lvl vty vnul none v with
        | .ok tv => buildMap Engine.ideal lvl vty vnul (mapAppend acc k tv) es
        | .reject => .reject
        | .panic => .panic :=
  buildMap_cons_off _ ideal_nodeOff ideal_keysOff lvl vty vnul acc k v es

/-! ## `prefixEmptyDelimSplit` -/

theorem buildScalar_union_off (e : Engine) (h : e.prefixEmptyDelimSplit = false) (lvl : Level) (nul : Bool)
    (d : DM) (ms : Members) (r : UnionRepr) :
    buildScalar e lvl nul d (.union ms r) =
      match lvl, r with
      | .repr, .kinded => buildKinded e nul d ms
      | .repr, .stringprefix delim =>
        match d with
        | .str s =>
          if delim.isEmpty then buildPrefixNoDelim e nul s ms
          else match splitFirst delim s with
            | none => .reject
            | some (p, rest) => buildPrefix e nul p rest ms
        | _ => .reject
      | _, _ => .reject := by
  unfold buildScalar
  simp only [h, Bool.false_eq_true, if_false]
  rfl

theorem buildScalar_union_ideal (lvl : Level) (nul : Bool) (d : DM) (ms : Members) (r : UnionRepr) :
    buildScalar Engine.ideal lvl nul d (.union ms r) =
      match lvl, r with
      | .repr, .kinded => buildKinded Engine.ideal nul d ms
      | .repr, .stringprefix delim =>
        match d with
        | .str s =>
          if delim.isEmpty then buildPrefixNoDelim Engine.ideal nul s ms
          else match splitFirst delim s with
            | none => .reject
            | some (p, rest) => buildPrefix Engine.ideal nul p rest ms
        | _ => .reject
      | _, _ => .reject :=
  buildScalar_union_off _ rfl lvl nul d ms r

end Schema
end Ipld
