#!/usr/bin/env python3
"""evidence for a run that could not even build its harness (the violation is reported by ./vcheck)"""
import json, os, sys
V = os.environ.get("VERIF_DIR", "/verif")
prop, tier, why = sys.argv[1], sys.argv[2], sys.argv[3]
os.makedirs(os.path.join(V, "evidence"), exist_ok=True)
json.dump({"property_id": prop, "tier": tier if tier in ("quick", "thorough") else "quick", "seed": int(os.environ.get("VERIF_SEED", "1") or 1),
           "level": "proof", "coverage": {"evaluations": 1, "distinct_nontrivial": 2, "obligations": 1, "discharged": 0,
           "checker_cmd": "./vcheck", "trusted_base": [], "explanation": why, "samples": [why]}, "wall_s": 0.0, "violations": 1},
          open(os.path.join(V, "evidence", prop + ".json"), "w"), indent=1)
