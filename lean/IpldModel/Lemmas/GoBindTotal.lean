/-
  C19 (binding model): every well-typed Go value of a compatible type can be read in full - `view_isSome`.
-/
import IpldModel.Lemmas.GoBindBasic
namespace Ipld
namespace GoBind
open Schema

theorem lookupAll_total (tvs : List (Bytes × TL)) : (ks : List Bytes) → (∀ k ∈ ks, k ∈ tvs.map (·.1)) →
    ∃ es, lookupAll tvs ks = some es
  | [], _ => ⟨[], rfl⟩
  | k :: ks, h => by
    obtain ⟨es, hes⟩ := lookupAll_total tvs ks (fun k' hk' => h k' (by simp [hk']))
    have hk := h k (by simp)
    simp only [List.mem_map] at hk
    obtain ⟨e, he, rfl⟩ := hk
    have : ∃ v, tvs.lookup e.1 = some v := by
      rw [lookup_eq_find?]
      cases hf : tvs.find? (fun x => x.1 == e.1) with
      | none =>
        have := List.find?_eq_none.1 hf e he
        simp at this
      | some x => exact ⟨x.2, rfl⟩
    obtain ⟨v, hv⟩ := this
    exact ⟨(e.1, v) :: es, by simp [lookupAll, hv, hes]⟩

mutual
theorem view_isSome : (gv : GoVal) → (g : GoTy) → (t : Ty) → (nul : Bool) →
    compatible g t nul = true → wt g t nul gv = true → ∃ v, view g t nul gv = some v
  | .nilPtr, g, t, nul, _, hwt => by
    cases nul <;> simp [wt] at hwt
    cases g <;> simp at hwt
    simp [view]
  | .ptr x, g, t, nul, hc, hwt => by
    cases g <;> simp [wt] at hwt
    rename_i g1
    have hc1 := compatible_ptr hc
    obtain ⟨v, hv⟩ := view_isSome x g1 t false hc1 hwt
    simp [view, hv]
  | .nilBare, g, t, nul, _, hwt => by
    simp only [wt, Bool.and_eq_true] at hwt
    simp [view, hwt.1, hwt.2]
  | .bool b, g, t, nul, _, hwt => by
    cases nul <;> simp [wt] at hwt
    cases g <;> cases t <;> simp at hwt
    simp [view]
  | .float b, g, t, nul, _, hwt => by
    cases nul <;> simp [wt] at hwt
    cases g <;> cases t <;> simp at hwt
    simp [view]
  | .bytes b, g, t, nul, _, hwt => by
    cases nul <;> cases g <;> cases t <;> simp [wt] at hwt <;> simp [view, hwt]
  | .link b, g, t, nul, _, hwt => by
    cases nul <;> cases g <;> cases t <;> simp [wt] at hwt <;> simp [view, hwt]
  | .node b, g, t, nul, _, hwt => by
    cases nul <;> cases g <;> cases t <;> simp [wt] at hwt <;> simp [view, hwt]
  | .nilSlice, g, t, nul, _, hwt => by
    cases nul <;> simp [wt] at hwt
    cases g <;> cases t <;> simp at hwt
    simp [view]
  | .str b, g, t, nul, _, hwt => by
    cases nul <;> simp [wt] at hwt
    cases g <;> cases t <;> simp at hwt
    · simp [view]
    · simp [view]
  | .int i, g, t, nul, _, hwt => by
    cases nul <;> simp [wt] at hwt
    cases t with
    | int =>
      cases g <;> simp at hwt
      simp [view]
    | enum ms r =>
      cases r <;> cases g <;> simp at hwt
      obtain ⟨m, hm, hr⟩ := hwt.2
      cases hf : ms.find? (fun m => m.rint == i) with
      | none =>
        have := List.find?_eq_none.1 hf m hm
        simp [hr] at this
      | some m' => simp [view, hf]
    | _ => cases g <;> simp at hwt
  | .slice xs, g, t, nul, hc, hwt => by
    cases g <;> cases t <;> simp [wt, isBare] at hwt
    rename_i ge et enul
    have hc' : compatible ge et enul = true := by simpa [compatible] using hc
    obtain ⟨ws, hws⟩ := viewList_isSome xs ge et enul hc' hwt
    simp [view, isBare, hws]
  | .struct vs, g, t, nul, hc, hwt => by
    cases nul <;> simp [wt] at hwt
    cases g <;> cases t <;> simp at hwt
    · rename_i gfs fs sr
      have hc' : compatFields gfs fs.toList = true := by simpa [compatible] using hc
      obtain ⟨ws, hws⟩ := viewFields_isSome vs gfs fs.toList hc' hwt
      simp [view, hws]
    · rename_i gfs ms ur
      have hc' : compatMembers gfs ms.toList = true := by simpa [compatible] using hc
      obtain ⟨w, hw⟩ := viewUnion_isSome vs gfs ms.toList hc' hwt
      simp [view, hw]
  | .omap keys vnil vals, g, t, nul, hc, hwt => by
    cases nul <;> simp [wt] at hwt
    cases g <;> cases t <;> simp at hwt
    rename_i gv0 vt vnul
    obtain ⟨⟨⟨⟨⟨_, _⟩, hsub⟩, _⟩, _⟩, hwk⟩ := hwt
    have hc' : compatible gv0 vt vnul = true := by simpa [compatible] using hc
    obtain ⟨tvs, htvs, hkeys⟩ := viewKVs_isSome vals gv0 vt vnul hc' hwk
    obtain ⟨es, hes⟩ := lookupAll_total tvs (keys.getD []) (by
      intro k hk; rw [hkeys]; exact hsub k hk)
    simp [view, htvs, hes]
theorem viewList_isSome : (xs : GoVals) → (g : GoTy) → (t : Ty) → (nul : Bool) →
    compatible g t nul = true → wtList g t nul xs = true → ∃ ws, viewList g t nul xs = some ws
  | .nil, _, _, _, _, _ => ⟨.nil, rfl⟩
  | .cons x xs, g, t, nul, hc, hwt => by
    simp only [wtList, Bool.and_eq_true] at hwt
    obtain ⟨a, ha⟩ := view_isSome x g t nul hc hwt.1
    obtain ⟨r, hr⟩ := viewList_isSome xs g t nul hc hwt.2
    simp [viewList, ha, hr]
theorem viewKVs_isSome : (vals : GoKVs) → (g : GoTy) → (t : Ty) → (nul : Bool) →
    compatible g t nul = true → wtKVs g t nul vals = true →
    ∃ tvs, viewKVs g t nul vals = some tvs ∧ tvs.map (·.1) = vals.keys
  | .nil, _, _, _, _, _ => ⟨[], rfl, rfl⟩
  | .cons k x xs, g, t, nul, hc, hwt => by
    simp only [wtKVs, Bool.and_eq_true] at hwt
    obtain ⟨a, ha⟩ := view_isSome x g t nul hc hwt.1
    obtain ⟨r, hr, hk⟩ := viewKVs_isSome xs g t nul hc hwt.2
    exact ⟨(k, a) :: r, by simp [viewKVs, ha, hr], by simp [GoKVs.keys, hk]⟩
theorem viewFields_isSome : (vs : GoVals) → (gfs : GoFields) → (fs : List Field) →
    compatFields gfs fs = true → wtFields gfs fs vs = true → ∃ ws, viewFields gfs fs vs = some ws
  | .nil, gfs, fs, _, hwt => by
    cases gfs <;> cases fs <;> simp [wtFields] at hwt
    exact ⟨.nil, by simp [viewFields]⟩
  | .cons x xs, gfs, fs, hc, hwt => by
    cases gfs with
    | nil => simp [wtFields] at hwt
    | cons n g gfs =>
      cases fs with
      | nil => simp [wtFields] at hwt
      | cons f fs =>
        rw [compatFields_cons] at hc
        rw [wtFields_cons] at hwt
        rw [viewFields_cons]
        simp only [Bool.and_eq_true] at hc hwt
        obtain ⟨r, hr⟩ := viewFields_isSome xs gfs fs hc.2 hwt.2
        have hcF := hc.1.2
        have hwF := hwt.1
        unfold compatField at hcF
        unfold wtField at hwF
        suffices hfield : ∃ a, viewField g f x = some a by
          obtain ⟨a, ha⟩ := hfield
          simp [ha, hr]
        unfold viewField
        cases hs : fslot g f.opt f.nullable with
        | value =>
          simp only [hs] at hcF hwF ⊢
          exact view_isSome x g f.ty f.nullable hcF hwF
        | optPtr g1 =>
          simp only [hs] at hcF hwF ⊢
          cases x with
          | nilPtr => exact ⟨_, rfl⟩
          | ptr v =>
            simp only [Bool.and_eq_true] at hcF
            exact view_isSome v g1 f.ty f.nullable hcF.2 hwF
          | _ => simp at hwF
        | optBare =>
          simp only [hs] at hcF hwF ⊢
          by_cases hx : x = .nilBare
          · simp [hx]
          · simp only [hx, if_false, decide_false, Bool.false_or, Bool.and_eq_true] at hwF ⊢
            exact view_isSome x g f.ty false hcF hwF.2
        | bad => simp [hs] at hcF
theorem viewUnion_isSome : (vs : GoVals) → (gfs : GoFields) → (ms : List Member) →
    compatMembers gfs ms = true → wtUnion gfs ms vs = true → ∃ v, viewUnion gfs ms vs = some v
  | .nil, gfs, ms, _, hwt => by
    cases gfs <;> cases ms <;> simp [wtUnion] at hwt
  | .cons x xs, gfs, ms, hc, hwt => by
    cases gfs with
    | nil => simp [wtUnion] at hwt
    | cons n g gfs =>
      cases ms with
      | nil => simp [wtUnion] at hwt
      | cons m ms =>
        unfold compatMembers at hc
        simp only [Bool.and_eq_true] at hc
        cases x with
        | nilPtr =>
          simp only [wtUnion, Bool.and_eq_true] at hwt
          obtain ⟨v, hv⟩ := viewUnion_isSome xs gfs ms hc.2 hwt.2
          exact ⟨v, by simp [viewUnion, hv]⟩
        | ptr w =>
          cases g <;> simp at hc
          rename_i g1
          simp only [wtUnion, Bool.and_eq_true] at hwt
          obtain ⟨a, ha⟩ := view_isSome w g1 m.ty false hc.1.2 hwt.1
          simp [viewUnion, ha]
        | _ => simp [wtUnion] at hwt
end

end GoBind
end Ipld
