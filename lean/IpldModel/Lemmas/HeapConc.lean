/-
  Several builders on one heap (`Conc`, `cstep`, `crun`): the lifted invariant `CInv`, stability of
  shared finished nodes under any schedule, ownership of written locations, and the comparison of an
  interleaved run with the run of one thread alone through the abstraction `toPure`.
  Core Lean only.
-/
import IpldModel.Lemmas.HeapRefine
set_option linter.unusedSimpArgs false
set_option linter.unusedVariables false
namespace Ipld
namespace Heap
open Asm

/-! ### lists of threads -/

theorem lt_of_getElem?_some {l : List α} {i : Nat} {x : α} (h : l[i]? = some x) : i < l.length := by
  rcases Nat.lt_or_ge i l.length with h1 | h1
  · exact h1
  · rw [List.getElem?_eq_none h1] at h; cases h

theorem split_at {l : List α} {i : Nat} {x : α} (h : l[i]? = some x) :
    l = l.take i ++ x :: l.drop (i + 1) := by
  have hi := lt_of_getElem?_some h
  have hx : l[i] = x := by
    rw [List.getElem?_eq_getElem hi] at h; exact Option.some.inj h
  rw [← hx, ← List.drop_eq_getElem_cons hi, List.take_append_drop]

theorem setAt_split {l : List α} {i : Nat} {x : α} (y : α) (h : l[i]? = some x) :
    setAt l i y = l.take i ++ y :: l.drop (i + 1) := by
  have hi := lt_of_getElem?_some h
  apply List.ext_getElem?
  intro j
  rw [getElem?_setAt]
  have hl : (l.take i).length = i := by rw [List.length_take]; omega
  by_cases hj : j < i
  · rw [List.getElem?_append_left (by omega)]
    have : ¬ (j = i ∧ i < l.length) := by omega
    rw [if_neg this, List.getElem?_take, if_pos hj]
  · rw [List.getElem?_append_right (by omega), hl]
    by_cases e : j = i
    · subst e; simp [hi]
    · have : ¬ (j = i ∧ i < l.length) := by omega
      rw [if_neg this]
      obtain ⟨d, hd⟩ : ∃ d, j - i = d + 1 := ⟨j - i - 1, by omega⟩
      rw [hd, List.getElem?_cons_succ, List.getElem?_drop]
      congr 1; omega

/-- the objects under construction by all threads -/
def allIds (ths : List Thread) : List Nat := ths.flatMap fun th => frameIds th.frames

/-- the objects under construction by the threads other than `tid` -/
def othersOf (ths : List Thread) (tid : Nat) : List Nat :=
  allIds (ths.take tid) ++ allIds (ths.drop (tid + 1))

/-- thread `th` seen as a single builder on heap `h` -/
def thSt (h : H) (th : Thread) : HSt := { h := h, frames := th.frames, root := th.root, written := [] }

theorem allIds_split {ths : List Thread} {tid : Nat} {th : Thread} (h : ths[tid]? = some th) :
    allIds ths = allIds (ths.take tid) ++ (frameIds th.frames ++ allIds (ths.drop (tid + 1))) := by
  conv => lhs; rw [split_at h]
  simp only [allIds, List.flatMap_append, List.flatMap_cons]

theorem allIds_setAt {ths : List Thread} {tid : Nat} {th : Thread} (th' : Thread) (h : ths[tid]? = some th) :
    allIds (setAt ths tid th') =
      allIds (ths.take tid) ++ (frameIds th'.frames ++ allIds (ths.drop (tid + 1))) := by
  rw [setAt_split th' h]
  simp only [allIds, List.flatMap_append, List.flatMap_cons]

theorem mem_split_iff {A B C : List Nat} {x : Nat} : x ∈ B ++ (A ++ C) ↔ x ∈ A ++ (B ++ C) := by
  simp only [List.mem_append]
  constructor
  · rintro (h | h | h)
    · exact Or.inr (Or.inl h)
    · exact Or.inl h
    · exact Or.inr (Or.inr h)
  · rintro (h | h | h)
    · exact Or.inr (Or.inl h)
    · exact Or.inl h
    · exact Or.inr (Or.inr h)

theorem mem_allIds_of_mem {ths : List Thread} {th : Thread} {id : Nat} (h : th ∈ ths)
    (hid : id ∈ frameIds th.frames) : id ∈ allIds ths :=
  List.mem_flatMap.2 ⟨th, h, hid⟩

/-! ### the lifted invariant -/

/-- The invariant of several builders sharing a heap: the heap invariant, and the objects under
    construction by all threads together are in range, unfinished and pairwise distinct. -/
structure CInv (c : Conc) : Prop where
  heap : HeapInv c.h
  ids_lt : ∀ id ∈ allIds c.threads, id < c.h.objs.length
  ids_unfin : ∀ id ∈ allIds c.threads, id ∉ c.h.finished
  ids_nodup : (allIds c.threads).Nodup
  kinds : ∀ th ∈ c.threads, ∀ p ∈ th.frames.map HFrame.key, (objAt c.h p.1).isMap = p.2
  roots : ∀ th ∈ c.threads, ∀ v, th.root = some v → RefOk c.h.finished v

theorem mem_of_getElem?_some {l : List α} {i : Nat} {x : α} (h : l[i]? = some x) : x ∈ l :=
  List.mem_iff_getElem?.2 ⟨i, h⟩

/-- each thread, seen as a single builder, satisfies the builder invariant relative to the others -/
theorem CInv.thread {c : Conc} (hc : CInv c) {tid : Nat} {th : Thread} (h : c.threads[tid]? = some th) :
    HInvO (othersOf c.threads tid) (thSt c.h th) := by
  have hs := allIds_split h
  exact {
    heap := hc.heap
    ids_lt := by
      intro id hid; apply hc.ids_lt; rw [hs]; exact mem_split_iff.1 hid
    ids_unfin := by
      intro id hid; apply hc.ids_unfin; rw [hs]; exact mem_split_iff.1 hid
    ids_nodup := by
      have := hc.ids_nodup; rw [hs] at this
      exact (List.perm_append_comm_assoc _ _ _).nodup_iff.1 this
    kinds := hc.kinds th (mem_of_getElem?_some h)
    root := hc.roots th (mem_of_getElem?_some h) }

theorem cstep_none {c : Conc} {tid : Nat} (op : HOp) (h : c.threads[tid]? = none) : cstep c tid op = c := by
  simp [cstep, h]

theorem cstep_some {c : Conc} {tid : Nat} {th : Thread} (op : HOp) (h : c.threads[tid]? = some th) :
    cstep c tid op =
      { h := (hstep (thSt c.h th) op).h,
        threads := setAt c.threads tid { frames := (hstep (thSt c.h th) op).frames, root := (hstep (thSt c.h th) op).root },
        written := (hstep (thSt c.h th) op).written.map (fun l => (tid, l)) ++ c.written } := by
  simp [cstep, h, thSt]

theorem OpWf.congr {st st' : HSt} {op : HOp} (h : st'.h = st.h) (hw : OpWf st op) : OpWf st' op := by
  cases op with
  | assignNode r => cases r <;> simp only [OpWf, h] at hw ⊢ <;> exact hw
  | assignNodeShortcut src => simp only [OpWf, h] at hw ⊢; exact hw
  | _ => trivial

/-- an interleaved call keeps the lifted invariant -/
theorem CInv.step {c : Conc} (hc : CInv c) {tid : Nat} {op : HOp} (hw : OpWf { h := c.h } op) :
    CInv (cstep c tid op) := by
  cases hth : c.threads[tid]? with
  | none => rw [cstep_none op hth]; exact hc
  | some th =>
    rw [cstep_some op hth]
    have hi := hc.thread hth
    have hw' : OpWf (thSt c.h th) op := OpWf.congr rfl hw
    have hi' := hstep_inv hi hw'
    generalize hst : hstep (thSt c.h th) op = st' at hi'
    have hs := allIds_setAt { frames := st'.frames, root := st'.root } hth
    have hother : ∀ th'', th'' ∈ c.threads.take tid ∨ th'' ∈ c.threads.drop (tid + 1) →
        th'' ∈ c.threads ∧ ∀ id ∈ frameIds th''.frames,
          id < c.h.objs.length ∧ id ∉ frameIds th.frames := by
      intro th'' hm
      have hmem : th'' ∈ c.threads := by
        rcases hm with hm | hm
        · exact List.mem_of_mem_take hm
        · exact List.mem_of_mem_drop hm
      refine ⟨hmem, ?_⟩
      intro id hid
      have hio : id ∈ othersOf c.threads tid := by
        rcases hm with hm | hm
        · exact List.mem_append_left _ (mem_allIds_of_mem hm hid)
        · exact List.mem_append_right _ (mem_allIds_of_mem hm hid)
      refine ⟨hi.ids_lt id (List.mem_append_right _ hio), ?_⟩
      intro hin
      have := hi.ids_nodup
      rw [List.nodup_append] at this
      exact this.2.2 id hin id hio rfl
    exact {
      heap := hi'.heap
      ids_lt := by
        intro id hid; simp only [hs] at hid; exact hi'.ids_lt id (mem_split_iff.2 hid)
      ids_unfin := by
        intro id hid; simp only [hs] at hid; exact hi'.ids_unfin id (mem_split_iff.2 hid)
      ids_nodup := by
        simp only [hs]
        exact (List.perm_append_comm_assoc _ _ _).nodup_iff.1 hi'.ids_nodup
      kinds := by
        intro th'' hm p hp
        simp only [setAt_split _ hth, List.mem_append, List.mem_cons] at hm
        rcases hm with hm | rfl | hm
        · obtain ⟨hmem, hids⟩ := hother th'' (Or.inl hm)
          obtain ⟨f, hf, rfl⟩ := List.mem_map.1 hp
          obtain ⟨hlt, hnin⟩ := hids f.id (List.mem_map.2 ⟨f, hf, rfl⟩)
          have := hstep_same hi hw' hlt hnin
          rw [hst] at this
          show (objAt st'.h f.id).isMap = _
          rw [this.obj]; exact hc.kinds th'' hmem _ hp
        · exact hi'.kinds p hp
        · obtain ⟨hmem, hids⟩ := hother th'' (Or.inr hm)
          obtain ⟨f, hf, rfl⟩ := List.mem_map.1 hp
          obtain ⟨hlt, hnin⟩ := hids f.id (List.mem_map.2 ⟨f, hf, rfl⟩)
          have := hstep_same hi hw' hlt hnin
          rw [hst] at this
          show (objAt st'.h f.id).isMap = _
          rw [this.obj]; exact hc.kinds th'' hmem _ hp
      roots := by
        intro th'' hm v hv
        have hmono : ∀ x ∈ c.h.finished, x ∈ st'.h.finished := by
          intro x hx; rw [← hst]; exact finished_monotone (thSt c.h th) op hx
        simp only [setAt_split _ hth, List.mem_append, List.mem_cons] at hm
        rcases hm with hm | rfl | hm
        · exact (hc.roots th'' (hother th'' (Or.inl hm)).1 v hv).mono hmono
        · exact hi'.root v hv
        · exact (hc.roots th'' (hother th'' (Or.inr hm)).1 v hv).mono hmono }

/-- a schedule is well formed if every call is well formed in the heap it is applied to -/
def SchedWf : Conc → List (Nat × HOp) → Prop
  | _, [] => True
  | c, (tid, op) :: rest => OpWf { h := c.h } op ∧ SchedWf (cstep c tid op) rest

theorem crun_inv {c : Conc} {sched : List (Nat × HOp)} (hc : CInv c) (hw : SchedWf c sched) :
    CInv (crun c sched) := by
  induction sched generalizing c with
  | nil => exact hc
  | cons e rest ih =>
    obtain ⟨tid, op⟩ := e
    exact ih (hc.step hw.1) hw.2

/-! ### shared finished nodes under any schedule -/

theorem cstep_finished_mono (c : Conc) (tid : Nat) (op : HOp) {j : Nat} (hj : j ∈ c.h.finished) :
    j ∈ (cstep c tid op).h.finished := by
  cases hth : c.threads[tid]? with
  | none => rw [cstep_none op hth]; exact hj
  | some th => rw [cstep_some op hth]; exact finished_monotone (thSt c.h th) op hj

theorem cstep_same {c : Conc} (hc : CInv c) {tid : Nat} {op : HOp} (hw : OpWf { h := c.h } op) {j : Nat}
    (hj : j ∈ c.h.finished) : SameObj c.h (cstep c tid op).h j := by
  cases hth : c.threads[tid]? with
  | none => rw [cstep_none op hth]; exact SameObj.refl _ _
  | some th =>
    rw [cstep_some op hth]
    have hi := hc.thread hth
    exact hstep_same hi (OpWf.congr rfl hw) (hc.heap.fin_lt j hj)
      (fun hm => hi.ids_unfin j (List.mem_append_left _ hm) hj)

theorem crun_finished_mono {c : Conc} {sched : List (Nat × HOp)} {j : Nat} (hj : j ∈ c.h.finished) :
    j ∈ (crun c sched).h.finished := by
  induction sched generalizing c with
  | nil => exact hj
  | cons e rest ih => obtain ⟨tid, op⟩ := e; exact ih (cstep_finished_mono c tid op hj)

/-- a node finished in the shared heap looks the same after any well-formed schedule -/
theorem crun_same {c : Conc} {sched : List (Nat × HOp)} (hc : CInv c) (hw : SchedWf c sched) {j : Nat}
    (hj : j ∈ c.h.finished) : SameObj c.h (crun c sched).h j := by
  induction sched generalizing c with
  | nil => exact SameObj.refl _ _
  | cons e rest ih =>
    obtain ⟨tid, op⟩ := e
    exact (cstep_same hc hw.1 hj).trans (ih (hc.step hw.1) hw.2 (cstep_finished_mono c tid op hj))

/-- what one interleaved call writes: locations of objects the calling thread has under construction -/
theorem cstep_written (c : Conc) (tid : Nat) (op : HOp) :
    ∃ w : List Loc, (cstep c tid op).written = w.map (fun l => (tid, l)) ++ c.written ∧
      ∀ l ∈ w, ∃ th, c.threads[tid]? = some th ∧ ∃ id ∈ frameIds th.frames, LocOf c.h id l := by
  cases hth : c.threads[tid]? with
  | none => rw [cstep_none op hth]; exact ⟨[], rfl, by intro l hl; cases hl⟩
  | some th =>
    rw [cstep_some op hth]
    obtain ⟨w, h1, h2⟩ := hstep_written (thSt c.h th) op
    refine ⟨w, ?_, ?_⟩
    · have : (thSt c.h th).written = [] := rfl
      rw [this, List.append_nil] at h1
      simp only [h1]
    · intro l hl; exact ⟨th, rfl, h2 l hl⟩

/-- no call of any thread writes a location that a reader of a shared finished node touches -/
theorem crun_written_shared {c : Conc} {sched : List (Nat × HOp)} (hc : CInv c) (hw : SchedWf c sched) :
    ∃ w, (crun c sched).written = w ++ c.written ∧
      ∀ e ∈ w, ∀ id ∈ c.h.finished, ∀ F, e.2 ∉ readSet c.h F (.obj id) := by
  induction sched generalizing c with
  | nil => exact ⟨[], rfl, by intro l hl; cases hl⟩
  | cons e rest ih =>
    obtain ⟨tid, op⟩ := e
    obtain ⟨w1, e1, f1⟩ := cstep_written c tid op
    obtain ⟨w2, e2, f2⟩ := ih (hc.step hw.1) hw.2
    refine ⟨w2 ++ w1.map (fun l => (tid, l)), by simp only [crun, e2, e1, List.append_assoc], ?_⟩
    intro x hx id hid F hmem
    rcases List.mem_append.1 hx with hx | hx
    · apply f2 x hx id (cstep_finished_mono c tid op hid) F
      rw [readSet_congr (· ∈ c.h.finished) (fun j hj => cstep_same hc hw.1 hj) hc.heap.closed_fin F id hid]
      exact hmem
    · obtain ⟨l, hl, rfl⟩ := List.mem_map.1 hx
      obtain ⟨th, hth, fid, hfid, hloc⟩ := f1 l hl
      have hi := hc.thread hth
      obtain ⟨i, hif, hloc'⟩ := readSet_locs (· ∈ c.h.finished) hc.heap.closed_fin F id hid l hmem
      have hfl := hi.ids_lt fid (List.mem_append_left _ hfid)
      have hfu := hi.ids_unfin fid (List.mem_append_left _ hfid)
      exact hc.heap.loc_disjoint hfl (hc.heap.fin_lt i hif) hfu (fun e => hfu (e ▸ hif)) hloc hloc'


/-! ### how the objects under construction evolve in a step -/

/-- object `j` keeps its array or moves to a freshly allocated one, and keeps its lookup map -/
def ObjEvolves (h h' : H) (j : Nat) : Prop :=
  ((objAt h' j).slice.arr = (objAt h j).slice.arr ∨ h.arrs.length ≤ (objAt h' j).slice.arr) ∧
    (objAt h' j).gm = (objAt h j).gm

/-- object `j`, its array and its lookup map are freshly allocated -/
def ObjFresh (h h' : H) (j : Nat) : Prop :=
  h.objs.length ≤ j ∧ h.arrs.length ≤ (objAt h' j).slice.arr ∧
    ∀ m, (objAt h' j).gm = some m → h.gomaps.length ≤ m

theorem ObjEvolves.of_obj {h h' : H} {j : Nat} (e : objAt h' j = objAt h j) : ObjEvolves h h' j :=
  ⟨Or.inl (by rw [e]), by rw [e]⟩

theorem Mod.evolves {h h' : H} {id : Nat} (hm : Mod h h' id) {j : Nat} (hj : j < h.objs.length) :
    ObjEvolves h h' j := by
  by_cases e : j = id
  · subst e; exact ⟨hm.arr, hm.gm⟩
  · exact ObjEvolves.of_obj (hm.other j hj e).obj

/-- how much the heap grows -/
structure Grows (h h' : H) : Prop where
  objs : h.objs.length ≤ h'.objs.length
  arrs : h.arrs.length ≤ h'.arrs.length
  gms : h.gomaps.length ≤ h'.gomaps.length

theorem Grows.refl (h : H) : Grows h h := ⟨Nat.le_refl _, Nat.le_refl _, Nat.le_refl _⟩

theorem Mod.grows {h h' : H} {id : Nat} (hm : Mod h h' id) : Grows h h' :=
  ⟨Nat.le_of_eq hm.objs_len.symm, hm.arrs_len, Nat.le_of_eq hm.gms_len.symm⟩

theorem Ext.grows {h h' : H} {o : Obj} (he : Ext h h' o) : Grows h h' :=
  ⟨by rw [he.objs_len]; exact Nat.le_succ _, he.arrs_len, he.gms_len⟩

theorem hdeliver_evolves {others : List Nat} {st : HSt} {v : NRef} (hi : HInvO others st)
    (hv : RefOk st.h.finished v) :
    Grows st.h (hdeliver st v).h ∧ frameIds (hdeliver st v).frames = frameIds st.frames ∧
      ∀ j, j < st.h.objs.length → ObjEvolves st.h (hdeliver st v).h j := by
  have hr := hdeliver_rel st v
  generalize hdeliver st v = s' at hr ⊢
  cases hr with
  | noop => exact ⟨Grows.refl _, rfl, fun j _ => ObjEvolves.of_obj rfl⟩
  | root hf => exact ⟨Grows.refl _, rfl, fun j _ => ObjEvolves.of_obj rfl⟩
  | map id rest t m k o hf ho hc =>
    have hid : id ∈ frameIds st.frames := by simp [hf, frameIds, HFrame.id]
    have hlt := hi.ids_lt id (List.mem_append_left _ hid)
    have hnf := hi.ids_unfin id (List.mem_append_left _ hid)
    have hm := hSetLast_mod (k := k) hi.heap hlt hnf ho hv
    exact ⟨hm.grows, by simp [hf, frameIds, HFrame.id], fun j hj => hm.evolves hj⟩
  | list id rest x hf ho =>
    have hid : id ∈ frameIds st.frames := by simp [hf, frameIds, HFrame.id]
    have hlt := hi.ids_lt id (List.mem_append_left _ hid)
    have hnf := hi.ids_unfin id (List.mem_append_left _ hid)
    have hc : CellGood st.h.finished (objAt st.h id).isMap (.item v) := by
      rw [ho]; refine ⟨trivial, ?_⟩
      intro w hw; simp [Cell.ref] at hw; subst hw; exact hv
    have hm := hAppend_mod hi.heap hlt hnf hc
    exact ⟨hm.grows, by simp [hf, frameIds, HFrame.id], fun j hj => hm.evolves hj⟩

theorem addEntry_evolves {others : List Nat} {st : HSt} {id : Nat} {rest : List HFrame} {t : Slice}
    {m : Nat} {ph0 : MPhase} (k : Bytes) (ph : MPhase) (hi : HInvO others st)
    (hf : st.frames = .map id ph0 :: rest) (ho : objAt st.h id = .map t m) :
    Grows st.h (addEntry st id k ph rest).h ∧
      frameIds (addEntry st id k ph rest).frames = frameIds st.frames ∧
      ∀ j, j < st.h.objs.length → ObjEvolves st.h (addEntry st id k ph rest).h j := by
  have hid : id ∈ frameIds st.frames := by simp [hf, frameIds, HFrame.id]
  have hlt := hi.ids_lt id (List.mem_append_left _ hid)
  have hnf := hi.ids_unfin id (List.mem_append_left _ hid)
  have hc : CellGood st.h.finished (objAt st.h id).isMap (.entry k none) := by
    rw [ho]; exact ⟨trivial, by intro w hw; simp [Cell.ref] at hw⟩
  have hm := hAppend_mod hi.heap hlt hnf hc
  exact ⟨hm.grows, by simp [hf, addEntry, frameIds, HFrame.id], fun j hj => hm.evolves hj⟩

/-- In a step the heap only grows, and every object under construction afterwards either was under
    construction before (it keeps its array or gets a fresh one, and keeps its lookup map) or is
    freshly allocated together with its array and lookup map. -/
theorem hstep_evolves {others : List Nat} {st : HSt} {op : HOp} (hi : HInvO others st) (hw : OpWf st op) :
    Grows st.h (hstep st op).h ∧
      ∀ id ∈ frameIds (hstep st op).frames,
        (id ∈ frameIds st.frames ∧ ObjEvolves st.h (hstep st op).h id) ∨ ObjFresh st.h (hstep st op).h id := by
  have hr := hstep_rel st op
  generalize hstep st op = s' at hr ⊢
  have same : ∀ fr', frameIds fr' = frameIds st.frames →
      Grows st.h st.h ∧ ∀ id ∈ frameIds fr',
        (id ∈ frameIds st.frames ∧ ObjEvolves st.h st.h id) ∨ ObjFresh st.h st.h id := by
    intro fr' hfr
    exact ⟨Grows.refl _, fun id hid => Or.inl ⟨hfr ▸ hid, ObjEvolves.of_obj rfl⟩⟩
  have del : ∀ {v}, RefOk st.h.finished v → Grows st.h (hdeliver st v).h ∧
      ∀ id ∈ frameIds (hdeliver st v).frames,
        (id ∈ frameIds st.frames ∧ ObjEvolves st.h (hdeliver st v).h id) ∨ ObjFresh st.h (hdeliver st v).h id := by
    intro v hv
    obtain ⟨g, hfr, he⟩ := hdeliver_evolves hi hv
    refine ⟨g, fun id hid => Or.inl ?_⟩
    rw [hfr] at hid
    exact ⟨hid, he id (hi.ids_lt id (List.mem_append_left _ hid))⟩
  have add : ∀ {id rest t m ph0} (k ph), st.frames = .map id ph0 :: rest → objAt st.h id = .map t m →
      Grows st.h (addEntry st id k ph rest).h ∧
      ∀ j ∈ frameIds (addEntry st id k ph rest).frames,
        (j ∈ frameIds st.frames ∧ ObjEvolves st.h (addEntry st id k ph rest).h j) ∨
          ObjFresh st.h (addEntry st id k ph rest).h j := by
    intro id rest t m ph0 k ph hf ho
    obtain ⟨g, hfr, he⟩ := addEntry_evolves k ph hi hf ho
    refine ⟨g, fun j hj => Or.inl ?_⟩
    rw [hfr] at hj
    exact ⟨hj, he j (hi.ids_lt j (List.mem_append_left _ hj))⟩
  have fin : ∀ {id rest f}, st.frames = f :: rest → f.id = id →
      Grows st.h (hdeliver (markFin st id rest) (.obj id)).h ∧
      ∀ j ∈ frameIds (hdeliver (markFin st id rest) (.obj id)).frames,
        (j ∈ frameIds st.frames ∧ ObjEvolves st.h (hdeliver (markFin st id rest) (.obj id)).h j) ∨
          ObjFresh st.h (hdeliver (markFin st id rest) (.obj id)).h j := by
    intro id rest f hf hfi
    have hi' := markFin_inv hi hf hfi
    obtain ⟨g, hfr, he⟩ := hdeliver_evolves (v := .obj id) hi' (List.mem_cons_self ..)
    refine ⟨⟨g.objs, g.arrs, g.gms⟩, fun j hj => Or.inl ?_⟩
    rw [hfr] at hj
    have hj' : j ∈ frameIds st.frames := by
      simp only [markFin] at hj; simp only [hf, frameIds, List.map_cons]; exact List.mem_cons_of_mem _ hj
    exact ⟨hj', he j (hi.ids_lt j (List.mem_append_left _ hj'))⟩
  cases hr with
  | noop => exact same _ rfl
  | reset => exact ⟨Grows.refl _, by intro id hid; simp [frameIds] at hid⟩
  | beginMap hint hv =>
    have he := hNewMap_ext st.h (hintCap hint)
    refine ⟨he.grows, ?_⟩
    intro id hid
    simp only [pushMap, frameIds, List.map_cons, List.mem_cons, HFrame.id] at hid
    rcases hid with rfl | hid
    · right
      refine ⟨Nat.le_refl _, ?_, ?_⟩
      · show st.h.arrs.length ≤ (objAt (hNewMap st.h (hintCap hint)) st.h.objs.length).slice.arr
        rw [he.objAt_new]; exact Nat.le_refl _
      · intro m hm
        have : (objAt (hNewMap st.h (hintCap hint)) st.h.objs.length).gm = some m := hm
        rw [he.objAt_new] at this
        simp only [Obj.gm, Option.some.injEq] at this; omega
    · left
      exact ⟨hid, ObjEvolves.of_obj (he.objAt_old (hi.ids_lt id (List.mem_append_left _ hid)))⟩
  | beginList hint hv =>
    have he := hNewList_ext st.h (hintCap hint)
    refine ⟨he.grows, ?_⟩
    intro id hid
    simp only [pushList, frameIds, List.map_cons, List.mem_cons, HFrame.id] at hid
    rcases hid with rfl | hid
    · right
      refine ⟨Nat.le_refl _, ?_, ?_⟩
      · show st.h.arrs.length ≤ (objAt (hNewList st.h (hintCap hint)) st.h.objs.length).slice.arr
        rw [he.objAt_new]; exact Nat.le_refl _
      · intro m hm
        have : (objAt (hNewList st.h (hintCap hint)) st.h.objs.length).gm = some m := hm
        rw [he.objAt_new] at this
        simp [Obj.gm] at this
    · left
      exact ⟨hid, ObjEvolves.of_obj (he.objAt_old (hi.ids_lt id (List.mem_append_left _ hid)))⟩
  | assignScalar d hv => exact del (v := .scalar d) trivial
  | assignNode r hv =>
    apply del
    cases r with
    | scalar d => trivial
    | obj id => exact hw
  | shortcut src hf hr =>
    have he := hCopy_ext st.h src
    refine ⟨he.grows, ?_⟩
    intro id hid
    simp only [doShortcut] at hid
    left
    exact ⟨hid, ObjEvolves.of_obj (he.objAt_old (hi.ids_lt id (List.mem_append_left _ hid)))⟩
  | assembleKey id rest hf => exact same _ (by simp [hf, frameIds, HFrame.id])
  | assembleEntry id rest t m k hf ho hg => exact add k _ hf ho
  | keyDup id rest t m k hf ho hg => exact same _ (by simp [hf, frameIds, HFrame.id])
  | keyString id rest t m k hf ho hg => exact add k _ hf ho
  | mapValue id rest hf => exact same _ (by simp [hf, frameIds, HFrame.id])
  | listValue id rest hf => exact same _ (by simp [hf, frameIds, HFrame.id])
  | finishMap id rest hf => exact fin hf rfl
  | finishList id rest hf => exact fin hf rfl


/-! ### who owns what: ghost ownership of objects, arrays and lookup maps allocated after the start -/

/-- the thread that allocated an object / array / lookup map -/
structure Owner where
  o : Nat → Nat
  a : Nat → Nat
  g : Nat → Nat

/-- the start of the run: the sizes of the initial heap -/
structure Start where
  n : Nat
  a : Nat
  g : Nat

/-- object `id`, its array and its lookup map were allocated after the start by thread `t` -/
def OwnedObj (h : H) (s0 : Start) (ow : Owner) (t id : Nat) : Prop :=
  s0.n ≤ id ∧ ow.o id = t ∧ s0.a ≤ (objAt h id).slice.arr ∧ ow.a (objAt h id).slice.arr = t ∧
    ∀ m, (objAt h id).gm = some m → s0.g ≤ m ∧ ow.g m = t

/-- location `l` exists, was allocated after the start, and by thread `t` -/
def OwnedLoc (h : H) (s0 : Start) (ow : Owner) (t : Nat) : Loc → Prop
  | .objHdr i => s0.n ≤ i ∧ i < h.objs.length ∧ ow.o i = t
  | .arrCell a _ => s0.a ≤ a ∧ a < h.arrs.length ∧ ow.a a = t
  | .gomap m => s0.g ≤ m ∧ m < h.gomaps.length ∧ ow.g m = t

structure Own (c : Conc) (s0 : Start) (w : List (Nat × Loc)) (ow : Owner) : Prop where
  start : s0.n ≤ c.h.objs.length ∧ s0.a ≤ c.h.arrs.length ∧ s0.g ≤ c.h.gomaps.length
  frames : ∀ tid th, c.threads[tid]? = some th → ∀ id ∈ frameIds th.frames, OwnedObj c.h s0 ow tid id
  writes : ∀ e ∈ w, OwnedLoc c.h s0 ow e.1 e.2

theorem own_init (c : Conc) (hf : ∀ th ∈ c.threads, th.frames = []) :
    Own c ⟨c.h.objs.length, c.h.arrs.length, c.h.gomaps.length⟩ [] ⟨fun _ => 0, fun _ => 0, fun _ => 0⟩ where
  start := ⟨Nat.le_refl _, Nat.le_refl _, Nat.le_refl _⟩
  frames := by
    intro tid th hth id hid
    rw [hf th (mem_of_getElem?_some hth)] at hid
    simp [frameIds] at hid
  writes := by intro e he; cases he

theorem getElem?_setAt_threads {ths : List Thread} {tid tid' : Nat} {th th' th'' : Thread}
    (h : ths[tid]? = some th) (h' : (setAt ths tid th')[tid']? = some th'') :
    (tid' = tid ∧ th'' = th') ∨ (tid' ≠ tid ∧ ths[tid']? = some th'') := by
  rw [getElem?_setAt] at h'
  by_cases e : tid' = tid
  · left
    rw [if_pos ⟨e, lt_of_getElem?_some h⟩] at h'
    exact ⟨e, (Option.some.inj h').symm⟩
  · right
    rw [if_neg (fun hh => e hh.1)] at h'
    exact ⟨e, h'⟩

/-- one interleaved call keeps the ownership discipline (for a suitably extended ownership map) -/
theorem Own.step {c : Conc} {s0 : Start} {w : List (Nat × Loc)} {ow : Owner} (ho : Own c s0 w ow)
    (hc : CInv c) {tid : Nat} {op : HOp} (hw : OpWf { h := c.h } op) :
    ∃ w1 ow', (cstep c tid op).written = w1 ++ c.written ∧ (∀ e ∈ w1, e.1 = tid) ∧
      Own (cstep c tid op) s0 (w1 ++ w) ow' := by
  cases hth : c.threads[tid]? with
  | none =>
    rw [cstep_none op hth]
    exact ⟨[], ow, rfl, (by intro e he; cases he), ho⟩
  | some th =>
    obtain ⟨wl, hwl, hlocs⟩ := cstep_written c tid op
    rw [cstep_some op hth] at hwl ⊢
    have hi := hc.thread hth
    have hw' : OpWf (thSt c.h th) op := OpWf.congr rfl hw
    obtain ⟨hg0, hev0⟩ := hstep_evolves hi hw'
    have hg : Grows c.h (hstep (thSt c.h th) op).h := hg0
    have hev : ∀ id ∈ frameIds (hstep (thSt c.h th) op).frames,
        (id ∈ frameIds th.frames ∧ ObjEvolves c.h (hstep (thSt c.h th) op).h id) ∨
          ObjFresh c.h (hstep (thSt c.h th) op).h id := hev0
    clear hg0 hev0
    have hsame : ∀ j, j < c.h.objs.length → j ∉ frameIds th.frames →
        SameObj c.h (hstep (thSt c.h th) op).h j := fun j hj hn => hstep_same hi hw' hj hn
    generalize hstep (thSt c.h th) op = st' at hwl hg hev hsame ⊢
    have hg1 : c.h.objs.length ≤ st'.h.objs.length := hg.objs
    have hg2 : c.h.arrs.length ≤ st'.h.arrs.length := hg.arrs
    have hg3 : c.h.gomaps.length ≤ st'.h.gomaps.length := hg.gms
    let ow' : Owner :=
      { o := fun i => if c.h.objs.length ≤ i then tid else ow.o i,
        a := fun i => if c.h.arrs.length ≤ i then tid else ow.a i,
        g := fun i => if c.h.gomaps.length ≤ i then tid else ow.g i }
    have ho_o : ∀ i, i < c.h.objs.length → ow'.o i = ow.o i := by
      intro i hi; show (if _ then _ else _) = _; rw [if_neg (by omega)]
    have ho_a : ∀ i, i < c.h.arrs.length → ow'.a i = ow.a i := by
      intro i hi; show (if _ then _ else _) = _; rw [if_neg (by omega)]
    have ho_g : ∀ i, i < c.h.gomaps.length → ow'.g i = ow.g i := by
      intro i hi; show (if _ then _ else _) = _; rw [if_neg (by omega)]
    have hn_o : ∀ i, c.h.objs.length ≤ i → ow'.o i = tid := by
      intro i hi; show (if _ then _ else _) = _; rw [if_pos hi]
    have hn_a : ∀ i, c.h.arrs.length ≤ i → ow'.a i = tid := by
      intro i hi; show (if _ then _ else _) = _; rw [if_pos hi]
    have hn_g : ∀ i, c.h.gomaps.length ≤ i → ow'.g i = tid := by
      intro i hi; show (if _ then _ else _) = _; rw [if_pos hi]
    -- an object owned before, whose header is unchanged, is owned after
    have keepObj : ∀ t id, id < c.h.objs.length → OwnedObj c.h s0 ow t id →
        objAt st'.h id = objAt c.h id → OwnedObj st'.h s0 ow' t id := by
      intro t id hlt ⟨h1, h2, h3, h4, h5⟩ he
      have hwf := hc.heap.wf id hlt
      refine ⟨h1, by rw [ho_o id hlt]; exact h2, by rw [he]; exact h3,
        by rw [he, ho_a _ hwf.1]; exact h4, ?_⟩
      intro m hm; rw [he] at hm
      obtain ⟨h6, h7⟩ := h5 m hm
      exact ⟨h6, by rw [ho_g m (hc.heap.gm_lt id m hlt hm)]; exact h7⟩
    refine ⟨wl.map (fun l => (tid, l)), ow', hwl, ?_, ?_⟩
    · intro e he; obtain ⟨l, _, rfl⟩ := List.mem_map.1 he; rfl
    · exact {
        start := ⟨Nat.le_trans ho.start.1 hg1, Nat.le_trans ho.start.2.1 hg2, Nat.le_trans ho.start.2.2 hg3⟩
        frames := by
          intro tid' th'' hth'' id hid
          rcases getElem?_setAt_threads hth hth'' with ⟨rfl, rfl⟩ | ⟨hne, hold⟩
          · -- the stepping thread
            rcases hev id hid with ⟨hin, harr, hgm⟩ | ⟨hf1, hf2, hf3⟩
            · have hlt := hi.ids_lt id (List.mem_append_left _ hin)
              obtain ⟨h1, h2, h3, h4, h5⟩ := ho.frames tid' th hth id hin
              have hwf := hc.heap.wf id hlt
              refine ⟨h1, by rw [ho_o id hlt]; exact h2, ?_, ?_, ?_⟩
              · rcases harr with e | e
                · rw [e]; exact h3
                · exact Nat.le_trans ho.start.2.1 e
              · rcases harr with e | e
                · rw [e, ho_a _ hwf.1]; exact h4
                · exact hn_a _ e
              · intro m hm; rw [hgm] at hm
                obtain ⟨h6, h7⟩ := h5 m hm
                exact ⟨h6, by rw [ho_g m (hc.heap.gm_lt id m hlt hm)]; exact h7⟩
            · refine ⟨Nat.le_trans ho.start.1 hf1, hn_o id hf1, Nat.le_trans ho.start.2.1 hf2,
                hn_a _ hf2, ?_⟩
              intro m hm
              exact ⟨Nat.le_trans ho.start.2.2 (hf3 m hm), hn_g m (hf3 m hm)⟩
          · -- another thread: its objects are untouched
            have hio : id ∈ othersOf c.threads tid := by
              have hmem := mem_of_getElem?_some hold
              rcases Nat.lt_or_gt_of_ne hne with hlt | hgt
              · apply List.mem_append_left
                apply mem_allIds_of_mem (th := th'') _ hid
                rw [List.mem_iff_getElem?]
                exact ⟨tid', by rw [List.getElem?_take, if_pos hlt]; exact hold⟩
              · apply List.mem_append_right
                apply mem_allIds_of_mem (th := th'') _ hid
                rw [List.mem_iff_getElem?]
                refine ⟨tid' - (tid + 1), ?_⟩
                rw [List.getElem?_drop]
                have : tid + 1 + (tid' - (tid + 1)) = tid' := by omega
                rw [this]; exact hold
            have hlt := hi.ids_lt id (List.mem_append_right _ hio)
            have hnin : id ∉ frameIds th.frames := by
              intro hin
              have := hi.ids_nodup
              rw [List.nodup_append] at this
              exact this.2.2 id hin id hio rfl
            exact keepObj tid' id hlt (ho.frames tid' th'' hold id hid) (hsame id hlt hnin).obj
        writes := by
          intro e he
          rcases List.mem_append.1 he with he | he
          · obtain ⟨l, hl, rfl⟩ := List.mem_map.1 he
            obtain ⟨th1, hth1, fid, hfid, hloc⟩ := hlocs l hl
            rw [hth] at hth1; cases hth1
            have hlt := hi.ids_lt fid (List.mem_append_left _ hfid)
            obtain ⟨h1, h2, h3, h4, h5⟩ := ho.frames tid th hth fid hfid
            have hwf := hc.heap.wf fid hlt
            cases l with
            | objHdr i =>
              simp only [LocOf] at hloc; subst hloc
              exact ⟨h1, Nat.lt_of_lt_of_le hlt hg1, by rw [ho_o i hlt]; exact h2⟩
            | arrCell a k =>
              simp only [LocOf] at hloc; subst hloc
              exact ⟨h3, Nat.lt_of_lt_of_le hwf.1 hg2, by rw [ho_a _ hwf.1]; exact h4⟩
            | gomap m =>
              simp only [LocOf] at hloc
              obtain ⟨h6, h7⟩ := h5 m hloc
              have hml := hc.heap.gm_lt fid m hlt hloc
              exact ⟨h6, Nat.lt_of_lt_of_le hml hg3, by rw [ho_g m hml]; exact h7⟩
          · have := ho.writes e he
            cases hl : e.2 with
            | objHdr i =>
              rw [hl] at this; obtain ⟨h1, h2, h3⟩ := this
              exact ⟨h1, Nat.lt_of_lt_of_le h2 hg1, by rw [ho_o i h2]; exact h3⟩
            | arrCell a k =>
              rw [hl] at this; obtain ⟨h1, h2, h3⟩ := this
              exact ⟨h1, Nat.lt_of_lt_of_le h2 hg2, by rw [ho_a a h2]; exact h3⟩
            | gomap m =>
              rw [hl] at this; obtain ⟨h1, h2, h3⟩ := this
              exact ⟨h1, Nat.lt_of_lt_of_le h2 hg3, by rw [ho_g m h2]; exact h3⟩ }


theorem crun_own {c : Conc} {s0 : Start} {w : List (Nat × Loc)} {ow : Owner} {sched : List (Nat × HOp)}
    (ho : Own c s0 w ow) (hc : CInv c) (hw : SchedWf c sched) :
    ∃ w1 ow', (crun c sched).written = w1 ++ c.written ∧ Own (crun c sched) s0 (w1 ++ w) ow' := by
  induction sched generalizing c w ow with
  | nil => exact ⟨[], ow, rfl, ho⟩
  | cons e rest ih =>
    obtain ⟨tid, op⟩ := e
    obtain ⟨w1, ow1, e1, _, ho1⟩ := ho.step hc (tid := tid) hw.1
    obtain ⟨w2, ow2, e2, ho2⟩ := ih ho1 (hc.step hw.1) hw.2
    refine ⟨w2 ++ w1, ow2, by simp only [crun, e2, e1, List.append_assoc], ?_⟩
    rw [List.append_assoc]; exact ho2

/-- a location allocated after the start -/
def FreshLoc (h0 : H) : Loc → Prop
  | .objHdr i => h0.objs.length ≤ i
  | .arrCell a _ => h0.arrs.length ≤ a
  | .gomap m => h0.gomaps.length ≤ m

theorem OwnedLoc.fresh {h h0 : H} {ow : Owner} {t : Nat} {l : Loc}
    (ho : OwnedLoc h ⟨h0.objs.length, h0.arrs.length, h0.gomaps.length⟩ ow t l) : FreshLoc h0 l := by
  cases l <;> exact ho.1

theorem OwnedLoc.unique {h : H} {s0 : Start} {ow : Owner} {t t' : Nat} {l : Loc}
    (h1 : OwnedLoc h s0 ow t l) (h2 : OwnedLoc h s0 ow t' l) : t = t' := by
  cases l <;> exact h1.2.2.symm.trans h2.2.2

/-! ### an interleaved run and a run alone, through the abstraction -/

def thPure (F : Nat) (h : H) (th : Thread) : St := toPure F (thSt h th)

/-- the nodes a call hands in by reference are among `fin0` -/
def Refs0 (fin0 : List Nat) : HOp → Prop
  | .assignNode (.obj id) => id ∈ fin0
  | .assignNodeShortcut src => src ∈ fin0
  | _ => True

def arun (p : St) (val : NRef → DM) (ops : List HOp) : St := ops.foldl (fun p op => astep p val op) p

theorem astep_val_congr {p : St} {val val' : NRef → DM} {fin0 : List Nat} {op : HOp}
    (ho : ∀ id ∈ fin0, val (.obj id) = val' (.obj id)) (hs : ∀ d, val (.scalar d) = val' (.scalar d))
    (hr : Refs0 fin0 op) : astep p val op = astep p val' op := by
  cases op with
  | assignNode r =>
    cases r with
    | scalar d => simp only [astep, hs]
    | obj id => simp only [astep, ho id hr]
  | assignNodeShortcut src => simp only [astep, ho src hr]
  | _ => rfl

theorem Refs0.opWf {fin0 : List Nat} {st : HSt} {op : HOp} (hsub : ∀ id ∈ fin0, id ∈ st.h.finished)
    (hr : Refs0 fin0 op) : OpWf st op := by
  cases op with
  | assignNode r =>
    cases r with
    | scalar d => trivial
    | obj id => exact hsub id hr
  | assignNodeShortcut src => exact hsub src hr
  | _ => trivial

/-- a finished node reads the same after a step -/
theorem hstep_absRef {others : List Nat} {s : HSt} {op : HOp} (hi : HInvO others s) (hw : OpWf s op)
    {id : Nat} (hid : id ∈ s.h.finished) (F : Nat) :
    absRef (hstep s op).h F (.obj id) = absRef s.h F (.obj id) :=
  absRef_congr (· ∈ s.h.finished)
    (fun j hj => hstep_same hi hw (hi.heap.fin_lt j hj)
      (fun hm => hi.ids_unfin j (List.mem_append_left _ hm) hj))
    hi.heap.closed_fin F id hid

/-- a run of one builder alone, through the abstraction: the abstract run with the shared nodes
    read in the initial heap -/
theorem solo_arun {others : List Nat} {s : HSt} {ops : List HOp} (F : Nat) (val : NRef → DM)
    (fin0 : List Nat) (hi : HInvO others s) (hp : PInv (toPure F s))
    (hsub : ∀ id ∈ fin0, id ∈ s.h.finished)
    (hval : ∀ id ∈ fin0, val (.obj id) = absRef s.h F (.obj id)) (hvs : ∀ d, val (.scalar d) = d)
    (hops : ∀ op ∈ ops, Refs0 fin0 op) (hF : (hrun s ops).h.finished.length < F) :
    toPure F (hrun s ops) = arun (toPure F s) val ops := by
  induction ops generalizing s with
  | nil => rfl
  | cons op ops ih =>
    have hr := hops op (List.mem_cons_self ..)
    have hw : OpWf s op := hr.opWf hsub
    have hF1 : s.h.finished.length < F :=
      Nat.lt_of_le_of_lt (hrun_finished_length_mono s (op :: ops)) hF
    have h1 := toPure_hstep F hi hw hp hF1
    have hcong : astep (toPure F s) (absRef s.h F) op = astep (toPure F s) val op :=
      astep_val_congr (fin0 := fin0) (fun id hid => (hval id hid).symm)
        (fun d => by rw [absRef_scalar, hvs]) hr
    simp only [hrun, arun, List.foldl_cons]
    rw [← hcong, ← h1]
    exact ih (hstep_inv hi hw) (pinv_hstep F hi hw hp hF1)
      (fun id hid => finished_monotone s op (hsub id hid))
      (fun id hid => by rw [hstep_absRef hi hw (hsub id hid)]; exact hval id hid)
      (fun o ho => hops o (List.mem_cons_of_mem _ ho)) hF

theorem cstep_finished_length_mono (c : Conc) (tid : Nat) (op : HOp) :
    c.h.finished.length ≤ (cstep c tid op).h.finished.length := by
  cases hth : c.threads[tid]? with
  | none => rw [cstep_none op hth]; exact Nat.le_refl _
  | some th => rw [cstep_some op hth]; exact finished_length_mono (thSt c.h th) op

theorem crun_finished_length_mono (c : Conc) (sched : List (Nat × HOp)) :
    c.h.finished.length ≤ (crun c sched).h.finished.length := by
  induction sched generalizing c with
  | nil => exact Nat.le_refl _
  | cons e rest ih =>
    obtain ⟨tid, op⟩ := e
    exact Nat.le_trans (cstep_finished_length_mono c tid op) (ih _)

theorem projection_cons (tid t : Nat) (op : HOp) (rest : List (Nat × HOp)) :
    projection ((t, op) :: rest) tid = if t = tid then op :: projection rest tid else projection rest tid := by
  simp only [projection, List.filterMap_cons]
  by_cases e : t = tid <;> simp [e]

/-- a step of another thread does not change what this thread's builder state stands for -/
theorem thPure_other {c : Conc} (hc : CInv c) {t tid : Nat} {op : HOp} (hw : OpWf { h := c.h } op)
    (hne : t ≠ tid) {th : Thread} (hth : c.threads[tid]? = some th) (F : Nat) :
    (cstep c t op).threads[tid]? = some th ∧ thPure F (cstep c t op).h th = thPure F c.h th := by
  cases htt : c.threads[t]? with
  | none => rw [cstep_none op htt]; exact ⟨hth, rfl⟩
  | some tht =>
    rw [cstep_some op htt]
    have hi := hc.thread htt
    have hw' : OpWf (thSt c.h tht) op := OpWf.congr rfl hw
    refine ⟨?_, ?_⟩
    · show (setAt c.threads t _)[tid]? = some th
      rw [getElem?_setAt, if_neg (fun hh => hne hh.1.symm)]; exact hth
    · have hsame : ∀ j, j < c.h.objs.length → j ∉ frameIds tht.frames →
          SameObj c.h (hstep (thSt c.h tht) op).h j := fun j hj hn => hstep_same hi hw' hj hn
      generalize (hstep (thSt c.h tht) op).h = h' at hsame ⊢
      have hst : AbsStable c.h h' F := by
        apply absStable_of_same hc.heap
        intro j hj
        exact hsame j (hc.heap.fin_lt j hj) (fun hm => hi.ids_unfin j (List.mem_append_left _ hm) hj)
      have hfr : th.frames.map (absFrame h' F) = th.frames.map (absFrame c.h F) := by
        apply absFrames_same hc.heap hst
        intro f hf
        have hid : f.id ∈ frameIds th.frames := List.mem_map.2 ⟨f, hf, rfl⟩
        have hio : f.id ∈ othersOf c.threads t := by
          rcases Nat.lt_or_gt_of_ne hne with hlt | hgt
          · apply List.mem_append_right
            apply mem_allIds_of_mem (th := th) _ hid
            rw [List.mem_iff_getElem?]
            refine ⟨tid - (t + 1), ?_⟩
            rw [List.getElem?_drop]
            have : t + 1 + (tid - (t + 1)) = tid := by omega
            rw [this]; exact hth
          · apply List.mem_append_left
            apply mem_allIds_of_mem (th := th) _ hid
            rw [List.mem_iff_getElem?]
            exact ⟨tid, by rw [List.getElem?_take, if_pos hgt]; exact hth⟩
        have hlt := hi.ids_lt f.id (List.mem_append_right _ hio)
        refine ⟨hlt, hsame f.id hlt ?_⟩
        intro hin
        have := hi.ids_nodup
        rw [List.nodup_append] at this
        exact this.2.2 f.id hin f.id hio rfl
      have hrt := absRoot_same hst (hc.roots th (mem_of_getElem?_some hth))
      simp only [thPure, toPure, thSt, hfr, hrt]

/-- a step of this thread is the abstract step -/
theorem thPure_self {c : Conc} (hc : CInv c) {tid : Nat} {op : HOp} (hw : OpWf { h := c.h } op)
    {th : Thread} (hth : c.threads[tid]? = some th) (F : Nat) (hp : PInv (thPure F c.h th))
    (hF : c.h.finished.length < F) :
    ∃ th', (cstep c tid op).threads[tid]? = some th' ∧
      thPure F (cstep c tid op).h th' = astep (thPure F c.h th) (absRef c.h F) op := by
  rw [cstep_some op hth]
  have hi := hc.thread hth
  have hw' : OpWf (thSt c.h th) op := OpWf.congr rfl hw
  refine ⟨{ frames := (hstep (thSt c.h th) op).frames, root := (hstep (thSt c.h th) op).root }, ?_, ?_⟩
  · show (setAt c.threads tid _)[tid]? = some _
    rw [getElem?_setAt, if_pos ⟨rfl, lt_of_getElem?_some hth⟩]
  · have := toPure_hstep F hi hw' hp hF
    exact this

theorem conc_arun {c : Conc} {sched : List (Nat × HOp)} {tid : Nat} (F : Nat) (val : NRef → DM)
    (fin0 : List Nat) (hc : CInv c) (hsub : ∀ id ∈ fin0, id ∈ c.h.finished)
    (hval : ∀ id ∈ fin0, val (.obj id) = absRef c.h F (.obj id)) (hvs : ∀ d, val (.scalar d) = d)
    (hops : ∀ e ∈ sched, Refs0 fin0 e.2) (hF : (crun c sched).h.finished.length < F)
    {th : Thread} (hth : c.threads[tid]? = some th) (hp : PInv (thPure F c.h th)) :
    ∃ th', (crun c sched).threads[tid]? = some th' ∧
      thPure F (crun c sched).h th' = arun (thPure F c.h th) val (projection sched tid) := by
  induction sched generalizing c th with
  | nil => exact ⟨th, hth, rfl⟩
  | cons e rest ih =>
    obtain ⟨t, op⟩ := e
    have hr : Refs0 fin0 op := hops (t, op) (List.mem_cons_self ..)
    have hw : OpWf { h := c.h } op := hr.opWf hsub
    have hF1 : c.h.finished.length < F :=
      Nat.lt_of_le_of_lt (crun_finished_length_mono c ((t, op) :: rest)) hF
    have hc1 := hc.step (tid := t) hw
    have hsub1 : ∀ id ∈ fin0, id ∈ (cstep c t op).h.finished :=
      fun id hid => cstep_finished_mono c t op (hsub id hid)
    have hval1 : ∀ id ∈ fin0, val (.obj id) = absRef (cstep c t op).h F (.obj id) := by
      intro id hid
      rw [hval id hid]
      exact (absRef_congr (· ∈ c.h.finished) (fun j hj => cstep_same hc hw hj) hc.heap.closed_fin F id
        (hsub id hid)).symm
    have hops1 : ∀ e ∈ rest, Refs0 fin0 e.2 := fun e he => hops e (List.mem_cons_of_mem _ he)
    rw [projection_cons]
    by_cases e : t = tid
    · subst e
      obtain ⟨th1, hth1, hp1⟩ := thPure_self hc hw hth F hp hF1
      have hcong : astep (thPure F c.h th) (absRef c.h F) op = astep (thPure F c.h th) val op :=
        astep_val_congr (fin0 := fin0) (fun id hid => (hval id hid).symm)
          (fun d => by rw [absRef_scalar, hvs]) hr
      have hpinv : PInv (thPure F (cstep c t op).h th1) := by
        rw [hp1]; exact astep_pinv _ _ hp
      obtain ⟨th', hth', hfin⟩ := ih hc1 hsub1 hval1 hops1 hF hth1 hpinv
      refine ⟨th', hth', ?_⟩
      rw [if_pos rfl]
      simp only [crun, arun, List.foldl_cons] at hfin ⊢
      rw [hfin, hp1, hcong]
    · obtain ⟨hth1, hp1⟩ := thPure_other hc hw e hth F
      obtain ⟨th', hth', hfin⟩ := ih hc1 hsub1 hval1 hops1 hF hth1 (by rw [hp1]; exact hp)
      refine ⟨th', hth', ?_⟩
      rw [if_neg e]
      simp only [crun] at hfin ⊢
      rw [hfin, hp1]


/-- threads that have not started yet, on a heap satisfying the heap invariant -/
theorem cinv_fresh {h : H} {ths : List Thread} {w : List (Nat × Loc)} (hh : HeapInv h)
    (hf : ∀ th ∈ ths, th.frames = [] ∧ th.root = none) :
    CInv { h := h, threads := ths, written := w } := by
  have hall : allIds ths = [] := by
    unfold allIds
    rw [List.flatMap_eq_nil_iff]
    intro th hth; rw [(hf th hth).1]; rfl
  exact {
    heap := hh
    ids_lt := by intro id hid; simp only [hall] at hid; cases hid
    ids_unfin := by intro id hid; simp only [hall] at hid; cases hid
    ids_nodup := by simp only [hall]; exact List.nodup_nil
    kinds := by intro th hth p hp; simp only [(hf th hth).1] at hp; cases hp
    roots := by intro th hth v hv; simp only [(hf th hth).2] at hv; cases hv }

theorem finished_length_step_le (st : HSt) (op : HOp) :
    (hstep st op).h.finished.length ≤ st.h.finished.length + 1 := by
  have hr := hstep_rel st op
  generalize hstep st op = s' at hr ⊢
  cases hr with
  | noop => exact Nat.le_succ _
  | reset => exact Nat.le_succ _
  | beginMap hint hv => exact Nat.le_succ _
  | beginList hint hv => exact Nat.le_succ _
  | assignScalar d hv => rw [hdeliver_finished]; exact Nat.le_succ _
  | assignNode r hv => rw [hdeliver_finished]; exact Nat.le_succ _
  | shortcut src hf hr => simp [doShortcut, hCopy]
  | assembleKey id rest hf => exact Nat.le_succ _
  | assembleEntry id rest t m k hf ho hg => simp [addEntry, hAppend, appendSlice_finished]
  | keyDup id rest t m k hf ho hg => exact Nat.le_succ _
  | keyString id rest t m k hf ho hg => simp [addEntry, hAppend, appendSlice_finished]
  | mapValue id rest hf => exact Nat.le_succ _
  | listValue id rest hf => exact Nat.le_succ _
  | finishMap id rest hf => rw [hdeliver_finished]; simp [markFin, hFinish]
  | finishList id rest hf => rw [hdeliver_finished]; simp [markFin, hFinish]

theorem hrun_finished_length_le (st : HSt) (ops : List HOp) :
    (hrun st ops).h.finished.length ≤ st.h.finished.length + ops.length := by
  induction ops generalizing st with
  | nil => exact Nat.le_refl _
  | cons op ops ih =>
    have h1 := ih (hstep st op)
    have h2 := finished_length_step_le st op
    simp only [hrun, List.length_cons]; omega

theorem cstep_finished_length_le (c : Conc) (tid : Nat) (op : HOp) :
    (cstep c tid op).h.finished.length ≤ c.h.finished.length + 1 := by
  cases hth : c.threads[tid]? with
  | none => rw [cstep_none op hth]; exact Nat.le_succ _
  | some th => rw [cstep_some op hth]; exact finished_length_step_le (thSt c.h th) op

theorem crun_finished_length_le (c : Conc) (sched : List (Nat × HOp)) :
    (crun c sched).h.finished.length ≤ c.h.finished.length + sched.length := by
  induction sched generalizing c with
  | nil => exact Nat.le_refl _
  | cons e rest ih =>
    obtain ⟨tid, op⟩ := e
    have h1 := ih (cstep c tid op)
    have h2 := cstep_finished_length_le c tid op
    simp only [crun, List.length_cons]; omega

theorem projection_length_le (sched : List (Nat × HOp)) (tid : Nat) :
    (projection sched tid).length ≤ sched.length := by
  unfold projection; exact List.length_filterMap_le _ _

theorem schedWf_of_refs0 {c : Conc} {sched : List (Nat × HOp)} {fin0 : List Nat}
    (hsub : ∀ id ∈ fin0, id ∈ c.h.finished) (hops : ∀ e ∈ sched, Refs0 fin0 e.2) : SchedWf c sched := by
  induction sched generalizing c with
  | nil => trivial
  | cons e rest ih =>
    obtain ⟨tid, op⟩ := e
    refine ⟨(hops (tid, op) (List.mem_cons_self ..)).opWf hsub, ?_⟩
    exact ih (fun id hid => cstep_finished_mono c tid op (hsub id hid))
      (fun e he => hops e (List.mem_cons_of_mem _ he))

instance (fin0 : List Nat) (op : HOp) : Decidable (Refs0 fin0 op) := by
  cases op with
  | assignNode r => cases r <;> simp only [Refs0] <;> exact inferInstance
  | assignNodeShortcut src => simp only [Refs0]; exact inferInstance
  | _ => simp only [Refs0]; exact inferInstance

end Heap
end Ipld
