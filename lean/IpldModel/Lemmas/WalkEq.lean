/-
  Normal-form unfolding equations for the mutual walk (`walkAdv` / `walkChildren` / `exploreChild`):
  the non-recursive parts of each function are named (`visitSt`, `childList`, `loopStep`, `linkStep`,
  `enterChild`) so that later proofs case-split on small pieces.
-/
import IpldModel.Model.Walk
namespace Ipld
namespace Walk
open Sel

/-- is the selector an `interpretAs` clause (the reify step of `walkAdv` fails on those) -/
def isInterp : S → Bool
  | .interpretAs _ _ => true
  | _ => false

/-- the event of visiting `n` at `path` with selector `s` -/
def visitEvent (path : Path) (n : DM) (s : S) : Event :=
  match matchNode s n with
  | some m => .visit path m .matched
  | none => .visit path n .candidate

/-- the visit step of `walkAdv` -/
def visitSt (cfg : Cfg) (past : Bool) (path : Path) (n : DM) (s : S) (st1 : St) : St :=
  if !past && path.length < cfg.startAt.length then st1
  else { st1 with events := visitEvent path n s :: st1.events }

/-- the children `walkAdv` loops over -/
def childList (n : DM) (s : S) : List (Seg × DM) :=
  match interests s with
  | none => children n
  | some segs => segs.filterMap fun ps => (lookupBySegment n ps).map fun v => (ps, v)

/-- start-at bookkeeping of one loop iteration -/
def loopStep (cfg : Cfg) (path : Path) (lp : Loop) (ps : Seg) : Bool × Loop :=
  if cfg.startAt.length > 0 then
    if lp.reached then (false, { lp with past := true })
    else if !lp.past && path.length < cfg.startAt.length then
      if ps.equals (cfg.startAt.getD path.length (.str [])) then (false, { lp with reached := true })
      else (true, lp)
    else (false, lp)
  else (false, lp)

/-- the link-loading part of `exploreChild`: new state, and an error, or `none` (do not descend) or the block -/
def linkStep (cfg : Cfg) (c : Bytes) (st : St) : St × Except Err (Option DM) :=
  if cfg.linkOnce && st.seen.contains c then (st, .ok none) else
  let st1 := if cfg.linkOnce then { st with seen := c :: st.seen } else st
  match checkLink st1 with
  | .error e => (st1, .error e)
  | .ok st2 =>
    let st3 := { st2 with events := .load c :: st2.events }
    if cfg.skip.contains c then (st3, .ok none) else
    match storeGet cfg.store c with
    | none => (st3, .error .load)
    | some blk => (st3, .ok (some blk))

/-- descend into child value `v` (loading it first if it is a link) -/
def enterChild (cfg : Cfg) (fuel : Nat) (past : Bool) (path' : Path) (v : DM) (sNext : S) (st : St) : WR :=
  match v with
  | .link c =>
    match linkStep cfg c st with
    | (st', .error e) => (st', .error e)
    | (st', .ok none) => (st', .ok ())
    | (st', .ok (some blk)) => walkAdv cfg fuel past path' blk sNext st'
  | _ => walkAdv cfg fuel past path' v sNext st

/-- continue with `f` from the state reached, unless an error stopped the walk -/
def andThen (r : WR) (f : St → WR) : WR :=
  match r with
  | (st', .error e) => (st', .error e)
  | (st', .ok ()) => f st'

@[simp] theorem andThen_error (st : St) (e : Err) (f : St → WR) : andThen (st, .error e) f = (st, .error e) := rfl
@[simp] theorem andThen_ok (st : St) (f : St → WR) : andThen (st, .ok ()) f = f st := rfl

theorem walkAdv_zero (cfg : Cfg) (past : Bool) (path : Path) (n : DM) (s : S) (st : St) :
    walkAdv cfg 0 past path n s st = (st, .error .fuel) := by rw [walkAdv]

theorem walkAdv_succ (cfg : Cfg) (fuel : Nat) (past : Bool) (path : Path) (n : DM) (s : S) (st : St) :
    walkAdv cfg (fuel + 1) past path n s st =
      match checkNode st with
      | .error e => (st, .error e)
      | .ok st1 =>
        if isInterp s then (st1, .error .reify) else
        if !isRecursive n then (visitSt cfg past path n s st1, .ok ()) else
        walkChildren cfg fuel path n s (childList n s) { past := past } (visitSt cfg past path n s st1) := by
  rw [walkAdv]
  cases checkNode st with
  | error e => rfl
  | ok st1 =>
    simp only
    by_cases hi : isInterp s = true
    · cases s <;> simp [isInterp] at hi
      simp [isInterp]
    · have hs : ∀ a b, s ≠ .interpretAs a b := by
        intro a b h; subst h; simp [isInterp] at hi
      rw [if_neg hi]
      simp only [visitSt, visitEvent, childList]
      cases matchNode s n <;> cases interests s <;> cases (!isRecursive n) <;>
        cases (!past && decide (path.length < cfg.startAt.length)) <;> rfl

theorem walkChildren_zero (cfg : Cfg) (path : Path) (n : DM) (s : S) (l : List (Seg × DM)) (lp : Loop)
    (st : St) : walkChildren cfg 0 path n s l lp st = (st, .error .fuel) := by rw [walkChildren]

theorem walkChildren_nil (cfg : Cfg) (fuel : Nat) (path : Path) (n : DM) (s : S) (lp : Loop)
    (st : St) : walkChildren cfg (fuel + 1) path n s [] lp st = (st, .ok ()) := by rw [walkChildren]

theorem walkChildren_cons (cfg : Cfg) (fuel : Nat) (path : Path) (n : DM) (s : S) (ps : Seg) (v : DM)
    (rest : List (Seg × DM)) (lp : Loop) (st : St) :
    walkChildren cfg (fuel + 1) path n s ((ps, v) :: rest) lp st =
      if (loopStep cfg path lp ps).1 then walkChildren cfg fuel path n s rest (loopStep cfg path lp ps).2 st
      else andThen (exploreChild cfg fuel (loopStep cfg path lp ps).2.past path n s ps v st)
        fun st' => walkChildren cfg fuel path n s rest (loopStep cfg path lp ps).2 st' := by
  rw [walkChildren]
  rfl

theorem exploreChild_zero (cfg : Cfg) (past : Bool) (path : Path) (n : DM) (s : S) (ps : Seg) (v : DM)
    (st : St) : exploreChild cfg 0 past path n s ps v st = (st, .error .fuel) := by rw [exploreChild]

theorem exploreChild_succ (cfg : Cfg) (fuel : Nat) (past : Bool) (path : Path) (n : DM) (s : S) (ps : Seg)
    (v : DM) (st : St) :
    exploreChild cfg (fuel + 1) past path n s ps v st =
      match explore s n ps with
      | .error .panic => (st, .error .panic)
      | .error .error => (st, .error .selector)
      | .ok none => (st, .ok ())
      | .ok (some sNext) => enterChild cfg fuel past (path ++ [ps]) v sNext st := by
  rw [exploreChild]
  cases explore s n ps with
  | error e => cases e <;> rfl
  | ok o =>
    cases o with
    | none => rfl
    | some sNext =>
      simp only [enterChild, linkStep]
      cases v with
      | link c =>
        simp only
        split
        · rfl
        · cases checkLink (if cfg.linkOnce = true then { st with seen := c :: st.seen } else st) with
          | error e => rfl
          | ok st2 =>
            simp only
            cases cfg.skip.contains c with
            | true => rfl
            | false =>
              simp only [Bool.false_eq_true, if_false]
              cases storeGet cfg.store c <;> rfl
      | _ => rfl

end Walk
end Ipld
