/-
  C06 (companion) — Load and LoadPlusRaw: every loading entry point goes through Fill or LoadRaw, which check the hash.
  Recorded by tools/pin_skeletons.py from the source the models were transcribed from; property-tie theorems only.
-/
import IpldModel.Generated.LoadSkeletons
namespace Ipld.Props.C06

/-- (T) statement skeleton of `LinkSystem.Load` (linking/functions.go) — Fill into a fresh builder, then the reifier (model: `Link.load`): the statements on this run are the recorded ones. -/
theorem load_is_transcribed : Ipld.Generated.load_skel_src = [
  "nb := np.NewBuilder()",
  "if err := lsys.Fill(lnkCtx, lnk, nb); err != nil",
  ". return nil, err",
  "nd := nb.Build()",
  "if lsys.NodeReifier == nil",
  ". return nd, nil",
  "return lsys.NodeReifier(lnkCtx, nd, lsys)"
] := rfl

/-- (T) statement skeleton of `LinkSystem.LoadPlusRaw` (linking/functions.go) — LoadRaw (hash checked) first, decode of the checked bytes second (model: `Link.loadPlusRaw` in Lemmas/LinkMore.lean): the statements on this run are the recorded ones. -/
theorem loadPlusRaw_is_transcribed : Ipld.Generated.loadPlusRaw_skel_src = [
  "decoder, err := lsys.DecoderChooser(lnk)",
  "if err != nil",
  ". return nil, nil, ErrLinkingSetup{\"could not choose a decoder\", err}",
  "block, err := lsys.LoadRaw(lnkCtx, lnk)",
  "if err != nil",
  ". return nil, block, err",
  "nb := np.NewBuilder()",
  "if err := decoder(nb, bytes.NewBuffer(block)); err != nil",
  ". return nil, block, err",
  "nd := nb.Build()",
  "if lsys.NodeReifier == nil",
  ". return nd, block, nil",
  "nd, err = lsys.NodeReifier(lnkCtx, nd, lsys)",
  "return nd, block, err"
] := rfl

end Ipld.Props.C06
