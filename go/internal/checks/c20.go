package checks

import (
	"bytes"
	"context"
	"crypto/sha256"
	"encoding/hex"
	"fmt"
	"io"
	"os"
	"os/exec"
	"path/filepath"
	"regexp"
	"runtime"
	"sort"
	"strings"
	"sync"
	"sync/atomic"

	"github.com/ipfs/go-cid"
	"github.com/ipld/go-ipld-prime/codec/dagcbor"
	"github.com/ipld/go-ipld-prime/codec/dagjson"
	"github.com/ipld/go-ipld-prime/datamodel"
	"github.com/ipld/go-ipld-prime/linking"
	cidlink "github.com/ipld/go-ipld-prime/linking/cid"
	"github.com/ipld/go-ipld-prime/multicodec"
	"github.com/ipld/go-ipld-prime/node/basicnode"
	"github.com/ipld/go-ipld-prime/node/bindnode"
	"github.com/ipld/go-ipld-prime/node/gendemo"
	"github.com/ipld/go-ipld-prime/schema"
	"github.com/ipld/go-ipld-prime/storage/fsstore"
	"github.com/ipld/go-ipld-prime/storage/memstore"
	"github.com/ipld/go-ipld-prime/traversal"
	mh "github.com/multiformats/go-multihash"

	"verif/internal/core"
)

// C20 — shared immutable objects are safe to use from many goroutines at once.
//
//   impl observation : a child process built with the Go race detector runs each workload with G goroutines over shared
//                      objects; race reports (log files) and one digest of results per goroutine
//   (O) oracle        : no data race is reported; every goroutine's digest equals the digest of the same work done alone
//   (D) correspondence: the model-level statement (reads write nothing; builders write only cells they allocated) is about
//                       the heap model, tied to the source by the regenerated write sets and the global-write inventory.

func init() {
	core.Register(&core.Check{ID: "C20", Run: runC20, Replay: replayC20})
}

type c20Person struct {
	Name    string
	Age     *int64
	Friends []string
	Extra   datamodel.Node
}

type c20Inf0 struct {
	A string
	N int64
}
type c20Inf1 struct{ B c20Inf0 }
type c20Inf2 struct{ C []string }
type c20Inf3 struct{ D float64 }
type c20Inf4 struct{ E bool }
type c20Inf5 struct{ F []float64 }
type c20Inf6 struct{ G []bool }

var c20TS = func() *schema.TypeSystem {
	ts := schema.MustTypeSystem(
		schema.SpawnString("String"), schema.SpawnInt("Int"), schema.SpawnAny("Any"),
		schema.SpawnList("List__String", "String", false),
		schema.SpawnStruct("Person", []schema.StructField{
			schema.SpawnStructField("Name", "String", false, false),
			schema.SpawnStructField("Age", "Int", true, false),
			schema.SpawnStructField("Friends", "List__String", false, false),
			schema.SpawnStructField("Extra", "Any", false, true),
		}, schema.SpawnStructRepresentationMap(map[string]string{"Name": "n"})),
	)
	return ts
}()

// c20Workload runs the work of one goroutine over the shared objects and returns a digest of everything it observed.
type c20Shared struct {
	nodes  []datamodel.Node
	sel    core.Val
	graph  *core.Graph
	cfg    *traversal.Config
	lsys   linking.LinkSystem
	links  []datamodel.Link
	proto  schema.TypedPrototype
	bound  datamodel.Node
	gen    datamodel.Node
	stream datamodel.Node
	// a second link system over the library's own memory store (whose readers are plain io.Readers), holding blocks
	// that load and blocks that are refused in each of the ways a load can be refused
	lsysMem   linking.LinkSystem
	failLinks []datamodel.Link
	// nodes a subset matcher handed out for the stream-backed bytes node (matched once, then shared by every goroutine)
	matched []datamodel.Node
	// a Config with every field set by the caller (nothing for a walk to fill in), including a start path
	cfgFull *traversal.Config
	// a file-system block store filled beforehand and only read afterwards
	fs     *fsstore.Store
	fsKeys []string
}

var c20TempDirs []string
var c20FsTurn uint64

func c20Setup(seed uint64) (*c20Shared, error) {
	r := core.NewRand(seed, "c20-setup")
	s := &c20Shared{}
	cfg := core.DefaultGen
	cfg.MaxDepth, cfg.MaxWidth, cfg.BigUint = 3, 4, false
	for i := 0; i < 6; i++ {
		n, err := core.BuildBasic(core.GenVal(r, cfg, 0), r)
		if err != nil {
			return nil, err
		}
		s.nodes = append(s.nodes, n)
	}
	g, err := core.GenGraph(r, 4)
	if err != nil {
		return nil, err
	}
	s.graph = g
	s.sel = core.SelAll()
	s.lsys = g.LinkSystem(nil, nil)
	s.cfg = &traversal.Config{LinkSystem: s.lsys, LinkTargetNodePrototypeChooser: func(datamodel.Link, linking.LinkContext) (datamodel.NodePrototype, error) {
		return basicnode.Prototype.Any, nil
	}} // Ctx deliberately nil: defaults must not be written into the shared Config
	for _, c := range g.Order {
		ci, _ := cid.Cast([]byte(c))
		s.links = append(s.links, cidlink.Link{Cid: ci})
	}
	{
		U := core.RunWalk(g, core.SelAll(), core.WalkCfg{}, false)
		var start datamodel.Path
		if len(U.Visits) > 2 {
			start = U.Visits[len(U.Visits)/2].Kept
		}
		s.cfgFull = &traversal.Config{Ctx: context.Background(), LinkSystem: s.lsys, StartAtPath: start, LinkTargetNodePrototypeChooser: func(datamodel.Link, linking.LinkContext) (datamodel.NodePrototype, error) {
			return basicnode.Prototype.Any, nil
		}}
	}
	s.proto = bindnode.Prototype((*c20Person)(nil), c20TS.TypeByName("Person"))
	age := int64(33)
	s.bound = bindnode.Wrap(&c20Person{Name: "Ada", Age: &age, Friends: []string{"x", "y"}, Extra: basicnode.NewInt(7)}, c20TS.TypeByName("Person"))
	// generated code (checked-in gendemo package): a typed map of strings
	nb := gendemo.Type.Map__String__Msg3.NewBuilder()
	ma, _ := nb.BeginMap(1)
	va, _ := ma.AssembleEntry("k")
	m3, _ := va.BeginMap(3)
	for _, f := range []string{"whee", "woot", "waga"} {
		e, _ := m3.AssembleEntry(f)
		e.AssignInt(int64(len(f)))
	}
	m3.Finish()
	ma.Finish()
	s.gen = nb.Build()
	s.stream = basicnode.NewBytesFromReader(bytes.NewReader([]byte("stream-backed bytes content")))
	{
		big := basicnode.NewBytesFromReader(bytes.NewReader(bytes.Repeat([]byte("0123456789abcdefghijklmnopqrstuvwxyz"), 40)))
		mm := func(k string, v core.Val) core.Val { return core.Map(core.KV{K: []byte(k), V: v}) }
		for _, rg := range [][2]int64{{3, 700}, {0, 1440}, {100, 130}} {
			if sel, st := core.CompileSel(mm(".", mm("subset", core.Map(core.KV{K: []byte("["), V: core.Int(rg[0])}, core.KV{K: []byte("]"), V: core.Int(rg[1])})))); st == "" {
				traversal.WalkMatching(big, sel, func(p traversal.Progress, m datamodel.Node) error {
					s.matched = append(s.matched, m)
					return nil
				})
			}
		}
	}
	// the file-system store of the "fsstore" workload (its directory lives as long as the process)
	if dir, err := os.MkdirTemp("", "verif-c20-fs-"); err == nil {
		st := &fsstore.Store{}
		if st.InitDefaults(dir) == nil {
			for i := 0; i < 40; i++ {
				sum, _ := mh.Sum(r.Bytes(8), mh.SHA2_256, -1)
				key := cid.NewCidV1(0x71, sum).KeyString()
				if i%5 == 0 {
					key = string(r.Bytes(1 + r.Intn(20)))
				}
				if st.Put(context.Background(), key, append([]byte(fmt.Sprintf("content-%d-", i)), r.Bytes(r.Intn(40))...)) == nil {
					s.fsKeys = append(s.fsKeys, key)
				}
			}
			s.fs = st
		}
		c20TempDirs = append(c20TempDirs, dir)
	}
	// blocks for the "loadfail" workload
	store := &memstore.Store{Bag: map[string][]byte{}}
	s.lsysMem = cidlink.DefaultLinkSystem()
	s.lsysMem.SetReadStorage(store)
	addBlock := func(body []byte, keyOf []byte) {
		sum, _ := mh.Sum(keyOf, mh.SHA2_256, 32)
		l := cidlink.Link{Cid: cid.NewCidV1(0x71, sum)}
		store.Bag[l.Binary()] = body
		s.failLinks = append(s.failLinks, l)
	}
	for i, n := range s.nodes {
		var buf bytes.Buffer
		if dagcbor.Encode(n, &buf) != nil {
			continue
		}
		good := append([]byte(nil), buf.Bytes()...)
		addBlock(good, good) // loads
		// a complete object followed by more bytes: the codec stops early and the rest is drained through the hasher;
		// remainders shorter and (much) longer than a copy buffer, each with different content
		for _, extra := range []int{1, 700, 33000, 70000 + 4099*i} {
			tail := bytes.Repeat([]byte{byte(0x41 + i), byte(extra)}, (extra+1)/2)[:extra]
			body := append(append([]byte(nil), good...), tail...)
			addBlock(body, body)
		}
		if len(good) > 1 {
			cut := good[:len(good)-1]
			addBlock(cut, cut) // truncated: the decode fails at the end of the stream
		}
		addBlock(good, append([]byte("x"), good...)) // decodes, but is not what the link names
		bad := append(append([]byte(nil), good...), bytes.Repeat([]byte{byte(i)}, 40000)...)
		addBlock(bad, append([]byte("y"), bad...)) // neither decodes nor matches
	}
	return s, nil
}

func c20Work(s *c20Shared, workload string, iters int) string {
	h := sha256.New()
	put := func(x string) { h.Write([]byte(x)); h.Write([]byte{0}) }
	for it := 0; it < iters; it++ {
		switch workload {
		case "nodes": // read, compare, copy, encode shared generic nodes
			for i, n := range s.nodes {
				put(termOf(n))
				put(accessorRow(n))
				put(fmt.Sprint(datamodel.DeepEqual(n, s.nodes[(i+1)%len(s.nodes)])))
				nb := basicnode.Prototype.Any.NewBuilder()
				if datamodel.Copy(n, nb) == nil {
					put(termOf(nb.Build()))
				}
				var buf bytes.Buffer
				dagcbor.Encode(n, &buf)
				put(hex.EncodeToString(buf.Bytes()))
				buf.Reset()
				dagjson.Encode(n, &buf)
				put(buf.String())
			}
		case "walk": // shared compiled selector, shared Config, shared link system
			sel, st := core.CompileSel(s.sel)
			if st != "" {
				put(st)
				break
			}
			root, _ := core.BuildBasic(s.graph.Root, nil)
			traversal.Progress{Cfg: s.cfg}.WalkAdv(root, sel, func(p traversal.Progress, n datamodel.Node, r traversal.VisitReason) error {
				put(p.Path.String() + " " + termOf(n))
				return nil
			})
		case "walk-full": // a Config the caller filled in completely (start path included), shared by every walk
			sel, st := core.CompileSel(s.sel)
			if st != "" {
				put(st)
				break
			}
			root, _ := core.BuildBasic(s.graph.Root, nil)
			err := traversal.Progress{Cfg: s.cfgFull}.WalkAdv(root, sel, func(p traversal.Progress, n datamodel.Node, r traversal.VisitReason) error {
				put(p.Path.String() + " " + termOf(n))
				return nil
			})
			put(fmt.Sprint(err))
			put("start=" + s.cfgFull.StartAtPath.String())
		case "tsmerge": // copying types out of a shared type system into private ones while nodes over the shared types are read
			func() {
				defer func() {
					if r := recover(); r != nil {
						put(fmt.Sprintf("panic %v", r))
					}
				}()
				private := schema.MustTypeSystem(schema.SpawnString("Int"), schema.SpawnInt("String"), schema.SpawnBool("Any"))
				schema.MergeTypeSystem(private, c20TS, true)
				put(fmt.Sprint(len(private.Names())))
				if c := schema.Clone(c20TS.TypeByName("Person")); c != nil {
					put(string(c.Name()))
				}
				put(termOf(s.bound))
				put(termOf(s.bound.(schema.TypedNode).Representation()))
				nb := s.proto.NewBuilder()
				if err := datamodel.Copy(s.bound, nb); err == nil {
					put(termOf(nb.Build()))
				}
				var buf bytes.Buffer
				dagjson.Encode(s.bound.(schema.TypedNode).Representation(), &buf)
				put(buf.String())
			}()
		case "fsstore": // lookups of DIFFERENT keys in one file-system store at the same time (each goroutine starts elsewhere)
			if s.fs == nil {
				put("no-fs")
				break
			}
			ctx := context.Background()
			off := int(atomic.AddUint64(&c20FsTurn, 1))
			results := make([]string, len(s.fsKeys))
			for j := range s.fsKeys {
				k := (j + off*7) % len(s.fsKeys)
				key := s.fsKeys[k]
				has, err := s.fs.Has(ctx, key)
				res := fmt.Sprint(hex.EncodeToString([]byte(key)), has, err)
				b, err := s.fs.Get(ctx, key)
				res += fmt.Sprint(" ", string(b), err)
				if rc, err := s.fs.GetStream(ctx, key); err == nil {
					bb, _ := io.ReadAll(rc)
					rc.Close()
					res += " " + string(bb)
				} else {
					res += " stream-err " + err.Error()
				}
				results[k] = res
			}
			for _, res := range results {
				put(res)
			}
		case "links": // loads and link computation through one link system over a read-only store
			for _, l := range s.links {
				n, err := s.lsys.Load(linking.LinkContext{}, l, basicnode.Prototype.Any)
				put(termOfOrErr(n, err))
				if err == nil {
					l2, err := s.lsys.ComputeLink(l.Prototype(), n)
					put(fmt.Sprint(l2, err))
				}
				raw, err := s.lsys.LoadRaw(linking.LinkContext{}, l)
				put(fmt.Sprint(len(raw), err))
			}
			for _, c := range []uint64{0x71, 0x0129, 0x55} {
				_, err := multicodec.LookupEncoder(c)
				put(fmt.Sprint(err))
			}
		case "loadfail": // loads through one link system over the memory store: good blocks and every kind of refusal
			for _, l := range s.failLinks {
				n, err := s.lsysMem.Load(linking.LinkContext{}, l, basicnode.Prototype.Any)
				put(termOfOrErr(n, err))
				nb := basicnode.Prototype.Any.NewBuilder()
				err = s.lsysMem.Fill(linking.LinkContext{}, l, nb)
				put(fmt.Sprint(err))
				_, raw, err := s.lsysMem.LoadPlusRaw(linking.LinkContext{}, l, basicnode.Prototype.Any)
				put(fmt.Sprint(len(raw), err))
			}
		case "bind": // typed and representation views of a shared bound node; fresh nodes from a shared prototype; new bindings
			put(termOf(s.bound))
			put(termOf(s.bound.(schema.TypedNode).Representation()))
			nb := s.proto.Representation().NewBuilder()
			if dagjson.Decode(nb, strings.NewReader(`{"n":"Bo","Friends":["q"],"Extra":null}`)) == nil {
				put(termOf(nb.Build()))
				put(fmt.Sprint(bindnode.Unwrap(nb.Build()).(*c20Person).Name))
			}
			p2 := bindnode.Prototype((*c20Person)(nil), c20TS.TypeByName("Person")) // explicit schema: a fresh binding
			nb2 := p2.NewBuilder()
			if err := datamodel.Copy(s.bound, nb2); err == nil {
				put(termOf(nb2.Build()))
			}
			w := bindnode.Wrap(&c20Person{Name: "Cy", Friends: nil}, c20TS.TypeByName("Person"))
			put(termOf(w.Representation()))
		case "gen": // generated-code nodes: typed and representation views
			put(termOf(s.gen))
			put(termOf(s.gen.(schema.TypedNode).Representation()))
			rb := gendemo.Type.Msg3__Repr.NewBuilder()
			if dagjson.Decode(rb, strings.NewReader(`{"whee":1,"woot":2,"waga":3}`)) == nil {
				put(termOf(rb.Build()))
			}
			var buf bytes.Buffer
			dagcbor.Encode(s.gen.(schema.TypedNode).Representation(), &buf)
			put(hex.EncodeToString(buf.Bytes()))
		case "infer-same": // every goroutine binds the same Go type with an inferred schema (memoised under a mutex)
			func() {
				defer func() {
					if r := recover(); r != nil {
						put(fmt.Sprintf("panic %v", r))
					}
				}()
				type inferMe struct {
					A string
					L []int64
				}
				n := bindnode.Wrap(&inferMe{A: "x", L: []int64{1}}, nil)
				put(termOf(n))
			}()
		case "infer": // goroutines infer DIFFERENT Go types while nodes of already inferred types are being read:
			// the inferred types live in one package-level type system, which reading a node consults without a lock
			func() {
				defer func() {
					if r := recover(); r != nil {
						put(fmt.Sprintf("panic %v", r))
					}
				}()
				n0 := bindnode.Wrap(&c20Inf0{A: "x", N: 1}, nil)
				put(termOf(n0))
				switch it % 6 {
				case 0:
					put(termOf(bindnode.Wrap(&c20Inf1{B: c20Inf0{A: "y"}}, nil)))
				case 1:
					put(termOf(bindnode.Wrap(&c20Inf2{C: []string{"z"}}, nil)))
				case 2:
					put(termOf(bindnode.Wrap(&c20Inf3{D: 2.5}, nil)))
				case 3:
					put(termOf(bindnode.Wrap(&c20Inf4{E: true}, nil)))
				case 4:
					put(termOf(bindnode.Wrap(&c20Inf5{F: []float64{1}}, nil)))
				case 5:
					put(termOf(bindnode.Wrap(&c20Inf6{G: []bool{true}}, nil)))
				}
				put(termOf(n0))
			}()
		case "stream": // a stream-backed bytes node read from several goroutines: whole reads, length probes, positioned reads, subset matches
			b, err := s.stream.AsBytes()
			put(fmt.Sprint(string(b), err))
			// the nodes a subset matcher handed out earlier, shared: whole reads and many short positioned reads
			for _, m := range s.matched {
				mb, err := m.AsBytes()
				put(fmt.Sprint(string(mb), err))
				if lb, ok := m.(datamodel.LargeBytesNode); ok {
					if rs, err := lb.AsLargeBytes(); err == nil {
						for rep := 0; rep < 60; rep++ {
							rs.Seek(int64((it*7+rep*11)%90), io.SeekStart)
							part := make([]byte, 9)
							k, _ := io.ReadFull(rs, part)
							put(string(part[:k]))
						}
					}
				}
			}
			if lb, ok := s.stream.(datamodel.LargeBytesNode); ok {
				if rs, err := lb.AsLargeBytes(); err == nil {
					// many short operations, so that probes and reads of different goroutines really overlap
					for rep := 0; rep < 200; rep++ {
						size, err := rs.Seek(0, io.SeekEnd)
						put(fmt.Sprint(size, err))
						off := int64((it + rep) % 7)
						rs.Seek(off, io.SeekStart)
						part := make([]byte, 5)
						k, _ := io.ReadFull(rs, part)
						put(string(part[:k]))
					}
				}
			}
			mm := func(k string, v core.Val) core.Val { return core.Map(core.KV{K: []byte(k), V: v}) }
			if sel, st := core.CompileSel(mm(".", mm("subset", core.Map(core.KV{K: []byte("["), V: core.Int(int64(it % 5))}, core.KV{K: []byte("]"), V: core.Int(int64(it%5 + 9))})))); st == "" {
				traversal.WalkMatching(s.stream, sel, func(p traversal.Progress, m datamodel.Node) error {
					mb, err := m.AsBytes()
					put(fmt.Sprint(string(mb), err))
					return nil
				})
			}
		}
	}
	return hex.EncodeToString(h.Sum(nil))
}

// RaceChild: `vcheck-race race-child <workload> <seed> <goroutines> <iters>` prints one line per goroutine and the
// sequential digest.
func RaceChild(args []string) int {
	if len(args) < 4 {
		return 2
	}
	workload := args[0]
	var seed uint64
	var g, iters int
	fmt.Sscan(args[1], &seed)
	fmt.Sscan(args[2], &g)
	fmt.Sscan(args[3], &iters)
	s, err := c20Setup(seed)
	if err != nil {
		fmt.Println("setup-error", err)
		return 3
	}
	if workload == "infer" {
		// the first inference has to happen somewhere; do the sequential run first only for the other workloads
		runtime.GOMAXPROCS(4)
	}
	// cold: the goroutines are the first users of everything (lazily built tables, caches, first reads);
	// otherwise a sequential reference run comes first
	cold := len(args) > 4 && args[4] == "cold"
	var seq string
	if workload != "infer" && !cold {
		seq = c20Work(s, workload, iters)
		fmt.Println("seq", seq)
	}
	out := make([]string, g)
	var wg sync.WaitGroup
	for i := 0; i < g; i++ {
		wg.Add(1)
		go func(i int) {
			defer wg.Done()
			out[i] = c20Work(s, workload, iters)
		}(i)
	}
	wg.Wait()
	if workload != "infer" && cold {
		fmt.Println("seq", c20Work(s, workload, iters))
	}
	for i, d := range out {
		fmt.Println("g", i, d)
	}
	_ = mh.SHA2_256
	for _, d := range c20TempDirs {
		os.RemoveAll(d)
	}
	return 0
}

var raceFrameRe = regexp.MustCompile(`(?m)^  ([^\s(]+)\(`)

// summariseRaces turns race-detector logs into signatures: the innermost non-runtime function of each report.
func summariseRaces(dir string) (sigs []string, sample string) {
	files, _ := filepath.Glob(filepath.Join(dir, "race.*"))
	seen := map[string]bool{}
	for _, f := range files {
		b, err := os.ReadFile(f)
		if err != nil {
			continue
		}
		for _, rep := range strings.Split(string(b), "WARNING: DATA RACE")[1:] {
			if sample == "" {
				sample = truncateStr(rep, 1500)
			}
			var fn string
			for _, m := range raceFrameRe.FindAllStringSubmatch(rep, -1) {
				if !strings.HasPrefix(m[1], "runtime.") && !strings.HasPrefix(m[1], "sync.") && !strings.Contains(m[1], "verif/internal") {
					fn = m[1]
					break
				}
			}
			if fn == "" {
				fn = "unknown"
			}
			if !seen[fn] {
				seen[fn] = true
				sigs = append(sigs, fn)
			}
		}
	}
	sort.Strings(sigs)
	return
}

func classifyRace(workload, fn string) string {
	switch {
	case strings.Contains(fn, "bindnode.inferSchema") || strings.Contains(fn, "TypeSystem).Accumulate") || strings.Contains(fn, "bindnode.inferGoType") || workload == "infer":
		return "C20/bindnode-inferred-schema-writes-package-level-typesystem"
	case workload == "stream":
		return "C20/stream-backed-bytes-share-one-reader"
	}
	return "C20/data-race:" + fn
}

func raceBinary() string { return filepath.Join(core.VerifDir(), "build", "vcheck-race") }

func runC20(c *core.Ctx) error {
	c.Rule = "workloads over shared objects, each with 4-16 goroutines and varying GOMAXPROCS under the Go race detector: generic nodes (read, DeepEqual, Copy, dag-cbor and dag-json encode), walks with one compiled selector and one Config (nil Ctx) over one link system, loads / link computation / registry lookups through one link system over a read-only store, reflection-bound nodes (typed and representation views, builders from a shared prototype, fresh bindings with an explicit schema), generated-code nodes; separately the two known-racy uses (inferred schemas, one stream-backed bytes node); non-trivial = a concurrent run; distinct by (workload, goroutines, GOMAXPROCS, seed)"
	c.Explanation = "theorems on the heap model: reads write nothing, builders write only cells they allocated (no_conflict), shared finished nodes read the same under every schedule; package-level variables and their non-init writers are re-extracted from source"
	c.Assumptions = []string{"the Go memory model and scheduler are not modelled; the race detector observes only the schedules that occur", "a binary built with -race (cgo) is required; built by ./vcheck for this property"}
	if _, err := os.Stat(raceBinary()); err != nil {
		return fmt.Errorf("race-instrumented harness %s not built: %v", raceBinary(), err)
	}
	runOne := func(workload string, g, procs, iters int, seed uint64, mode ...string) (sigs []string, sample string, digests []string, seq string, err error) {
		dir, err := os.MkdirTemp("", "verif-c20-")
		if err != nil {
			return nil, "", nil, "", err
		}
		defer os.RemoveAll(dir)
		cmd := exec.Command(raceBinary(), append([]string{"race-child", workload, fmt.Sprint(seed), fmt.Sprint(g), fmt.Sprint(iters)}, mode...)...)
		cmd.Env = append(os.Environ(), "GORACE=log_path="+filepath.Join(dir, "race")+" halt_on_error=0 exitcode=0", fmt.Sprintf("GOMAXPROCS=%d", procs))
		out, rerr := cmd.CombinedOutput()
		for _, l := range strings.Split(string(out), "\n") {
			f := strings.Fields(l)
			if len(f) == 2 && f[0] == "seq" {
				seq = f[1]
			}
			if len(f) == 3 && f[0] == "g" {
				digests = append(digests, f[2])
			}
		}
		sigs, sample = summariseRaces(dir)
		if rerr != nil && len(digests) == 0 {
			return sigs, sample, digests, seq, fmt.Errorf("race child failed: %v: %s", rerr, truncateStr(string(out), 400))
		}
		return sigs, sample, digests, seq, nil
	}
	rounds := c.Pick(1, 12)
	for _, workload := range []string{"nodes", "walk", "walk-full", "tsmerge", "fsstore", "links", "loadfail", "bind", "gen", "stream", "infer-same"} {
		for round := 0; round < 2*rounds; round++ {
			g := []int{8, 4, 16}[(round/2)%3]
			procs := []int{8, 2, 16, 4}[(round/2)%4]
			seed := c.Seed*100 + uint64(round/2)
			mode := []string{"warm", "cold"}[round%2]
			sigs, sample, digests, seq, err := runOne(workload, g, procs, c.Pick(6, 30), seed, mode)
			caseID := fmt.Sprintf("c20.race %s %s goroutines=%d GOMAXPROCS=%d seed=%d", workload, mode, g, procs, seed)
			if err != nil {
				return err
			}
			c.Count(caseID, true)
			c.Trace(1)
			c.Dist("workload:" + workload)
			if round == 0 {
				c.Sample(map[string]any{"case": caseID, "goroutine_digests": len(digests), "race_reports": len(sigs)})
			}
			for _, fn := range sigs {
				c.Fail(classifyRace(workload, fn), core.Replay{Kind: "oracle", Case: caseID, Impl: "DATA RACE in " + fn, Detail: sample})
			}
			for i, d := range digests {
				if d != seq {
					c.Fail("C20/result-differs-from-sequential", core.Replay{Kind: "oracle", Case: caseID, Impl: fmt.Sprintf("goroutine %d digest %s", i, d), Expected: seq})
					break
				}
			}
		}
	}
	// the two known-racy uses: witnesses
	{
		sigs, sample, digests, _, err := runOne("infer", 8, 8, 12, c.Seed)
		if err != nil && len(sigs) == 0 {
			// a crash of the child (the duplicate-type panic is recovered inside the workload; an unrecovered fatal error is also a symptom)
			sample = err.Error()
		}
		panicked := false
		_ = digests
		racy := len(sigs) > 0 || strings.Contains(sample, "panic") || err != nil
		c.KnownWitness("C20/bindnode-inferred-schema-writes-package-level-typesystem", racy || panicked, "8 goroutines binding different Go types with inferred schemas while reading nodes of inferred types: "+truncateStr(strings.Join(sigs, ","), 200))
		c.Count("c20.race infer", true)
		c.Dist("workload:infer(known)")
	}
	return nil
}

func replayC20(c *core.Ctx, rp core.Replay) error {
	return fmt.Errorf("C20 cases replay with: build/vcheck-race race-child <workload> <seed> <goroutines> <iters> under GORACE (case: %s)", rp.Case)
}
