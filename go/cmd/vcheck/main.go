// vcheck: correspondence harness and property oracle for the go-ipld-prime property list.
//   vcheck run <Cxx> <quick|thorough>
//   vcheck replay <file>
package main

import (
	"encoding/json"
	"fmt"
	"os"
	"os/exec"
	"path/filepath"
	"strings"
	"sync"

	"verif/internal/checks"
	"verif/internal/core"
)

func main() {
	if len(os.Args) < 3 {
		fmt.Fprintln(os.Stderr, "usage: vcheck run <Cxx> <quick|thorough> | vcheck replay <file>")
		os.Exit(2)
	}
	switch os.Args[1] {
	case "run":
		if len(os.Args) < 4 {
			fmt.Fprintln(os.Stderr, "usage: vcheck run <Cxx> <quick|thorough>")
			os.Exit(2)
		}
		os.Exit(run(os.Args[2], os.Args[3]))
	case "replay":
		os.Exit(replay(os.Args[2]))
	case "fs-child":
		os.Exit(checks.FsChild(os.Args[2:]))
	case "race-child":
		os.Exit(checks.RaceChild(os.Args[2:]))
	}
	os.Exit(2)
}

// workersFor: the thorough tier explores with several worker processes, each with its own seed (derived from the base
// seed), and merges their evidence; the quick tier and the workers themselves run in-process.
func workersFor(prop, tier string) int {
	if tier != "thorough" || os.Getenv("VERIF_WORKER") != "" {
		return 1
	}
	if s := os.Getenv("VERIF_WORKERS"); s != "" {
		var n int
		fmt.Sscan(s, &n)
		if n >= 1 {
			return n
		}
	}
	switch prop {
	case "C20": // each run already occupies the cores with goroutines under the race detector
		return 2
	case "C13": // each worker compiles generated packages
		return 4
	}
	return 8
}

func runWorkers(prop, tier string, n int) int {
	base := core.NewCtx(prop, tier) // for the seed and the proof status
	dir := filepath.Join(core.VerifDir(), "build", prop)
	_ = os.MkdirAll(dir, 0o755)
	type res struct {
		code int
		out  []byte
	}
	results := make([]res, n)
	var wg sync.WaitGroup
	self, err := os.Executable()
	if err != nil {
		self = os.Args[0]
	}
	for i := 0; i < n; i++ {
		wg.Add(1)
		go func(i int) {
			defer wg.Done()
			cmd := exec.Command(self, "run", prop, tier)
			cmd.Env = append(os.Environ(), fmt.Sprintf("VERIF_WORKER=%d", i), fmt.Sprintf("VERIF_SEED=%d", base.Seed+uint64(i)*1000003),
				"VERIF_EVIDENCE_OUT="+filepath.Join(dir, fmt.Sprintf("evidence.worker%d.json", i)))
			cmd.Stderr = os.Stderr
			out, err := cmd.Output()
			code := 0
			if err != nil {
				code = 2
				if ee, ok := err.(*exec.ExitError); ok {
					code = ee.ExitCode()
				}
			}
			results[i] = res{code, out}
		}(i)
	}
	wg.Wait()
	// relay: every VIOLATION block, each KNOWN-FINDING signature once
	seenKnown := map[string]bool{}
	worst := 0
	for i, r := range results {
		for _, l := range strings.Split(strings.TrimRight(string(r.out), "\n"), "\n") {
			switch {
			case strings.HasPrefix(l, "OK property="), l == "":
			case strings.HasPrefix(l, "KNOWN-FINDING:"):
				key := l
				if j := strings.Index(l, "["); j >= 0 {
					if k := strings.Index(l[j:], "]"); k >= 0 {
						key = l[j : j+k]
					}
				}
				if !seenKnown[key] {
					seenKnown[key] = true
					fmt.Println(l)
				}
			default:
				fmt.Println(l)
			}
		}
		if r.code == 1 && worst != 2 {
			worst = 1
		} else if r.code > 1 {
			fmt.Fprintf(os.Stderr, "worker %d of %s exited with status %d\n", i, prop, r.code)
			worst = 2
		}
	}
	if err := core.MergeEvidence(prop, tier, base.Seed, n, dir); err != nil {
		fmt.Fprintf(os.Stderr, "cannot merge evidence: %v\n", err)
		return 2
	}
	if worst == 2 {
		fmt.Printf("VIOLATION property=%s replay=%s no-failing-input-found\n", prop, writeInfra(base, fmt.Errorf("a worker process failed")))
		return 1
	}
	if worst == 0 {
		fmt.Printf("OK property=%s tier=%s seed=%d workers=%d\n", prop, tier, base.Seed, n)
	}
	return worst
}

func run(prop, tier string) int {
	ch := core.Checks[prop]
	if ch == nil {
		fmt.Fprintf(os.Stderr, "no check registered for %s\n", prop)
		return 2
	}
	if ch.After != nil && os.Getenv("VERIF_WORKER") == "" {
		defer ch.After()
	}
	if n := workersFor(prop, tier); n > 1 {
		return runWorkers(prop, tier, n)
	}
	c := core.NewCtx(prop, tier)
	if err := ch.Run(c); err != nil {
		// an infrastructure error is not a verdict; make it loud and fail closed
		fmt.Printf("VIOLATION property=%s replay=%s no-failing-input-found\n", prop, writeInfra(c, err))
		_ = c.WriteEvidence()
		return 1
	}
	if !c.Proof.OK {
		// proof obligations or regenerated facts no longer check: directed search for a failing input
		if ch.Search != nil && c.Violations() == 0 {
			if err := ch.Search(c); err != nil {
				fmt.Fprintf(os.Stderr, "search error: %v\n", err)
			}
		}
		if c.Violations() == 0 {
			c.Fail("proof-broken", core.Replay{Kind: "proof", Theorem: fmt.Sprint(c.Proof.Failed),
				Detail: "theorems / generated facts no longer check: " + fmt.Sprint(c.Proof.Failed) + "\n" + c.Proof.LogTail})
		}
	}
	if err := c.WriteEvidence(); err != nil {
		fmt.Fprintf(os.Stderr, "cannot write evidence: %v\n", err)
		return 2
	}
	if c.Violations() > 0 {
		return 1
	}
	fmt.Printf("OK property=%s tier=%s seed=%d\n", prop, tier, c.Seed)
	return 0
}

func writeInfra(c *core.Ctx, err error) string {
	p := core.VerifDir() + "/build/" + c.Prop + "/infra-error.json"
	_ = os.MkdirAll(core.VerifDir()+"/build/"+c.Prop, 0o755)
	b, _ := json.MarshalIndent(map[string]string{"property": c.Prop, "kind": "infrastructure", "error": err.Error()}, "", " ")
	_ = os.WriteFile(p, b, 0o644)
	fmt.Fprintf(os.Stderr, "infrastructure error: %v\n", err)
	return p
}

func replay(path string) int {
	b, err := os.ReadFile(path)
	if err != nil {
		fmt.Fprintln(os.Stderr, err)
		return 2
	}
	var rp core.Replay
	if err := json.Unmarshal(b, &rp); err != nil {
		fmt.Fprintln(os.Stderr, err)
		return 2
	}
	ch := core.Checks[rp.Property]
	if ch == nil || ch.Replay == nil {
		fmt.Fprintf(os.Stderr, "no replay for %s\n", rp.Property)
		return 2
	}
	if rp.Case == "" {
		fmt.Printf("replay names a broken proof obligation / correspondence, not an input: %s\n%s\n", rp.Theorem, rp.Detail)
		return 1
	}
	c := core.NewCtx(rp.Property, "quick")
	c.Findings = nil // a replay reports the raw verdict
	if err := ch.Replay(c, rp); err != nil {
		// a history-shaped case is not re-executable from its text: re-run the run that found it (same seed and tier,
		// known findings off) and see whether the signature fires again
		fmt.Fprintf(os.Stderr, "%v\nre-running %s %s with seed %d instead\n", err, rp.Property, rp.Tier, rp.Seed)
		os.Setenv("VERIF_SEED", fmt.Sprint(rp.Seed))
		os.Setenv("VERIF_EVIDENCE_OUT", os.DevNull)
		tier := rp.Tier
		if tier == "" {
			tier = "quick"
		}
		c2 := core.NewCtx(rp.Property, tier)
		c2.Findings = nil
		c2.Quiet()
		if err := ch.Run(c2); err != nil {
			fmt.Fprintln(os.Stderr, err)
			return 2
		}
		if c2.Fired(rp.Signature) {
			fmt.Printf("replay reproduces %s with seed %d\n", rp.Signature, rp.Seed)
			return 1
		}
		fmt.Printf("replay passes on the current tree: %s no longer fires with seed %d (%s)\n", rp.Signature, rp.Seed, rp.Property)
		return 0
	}
	if c.Violations() > 0 {
		return 1
	}
	fmt.Printf("replay passes on the current tree: %s\n", rp.Case)
	return 0
}
