/-
  C04 — DAG-JSON: the decoder's fixed token window is sound, marshal/unmarshal round-trips on the
  expressible values, marshalling is order-independent, and the text terminals (strings, base64,
  integers) round-trip.  Property theorems only (helper lemmas live in `Lemmas/`).  See DESIGN §5 C04.
-/
import IpldModel.Lemmas.JsonWin
import IpldModel.Lemmas.JsonRound
import IpldModel.Lemmas.JsonEmit
import IpldModel.Lemmas.JsonText
import IpldModel.Lemmas.JsonInt
namespace Ipld.Props.C04
open Ipld Ipld.Json Ipld.Spec

/-! ## (1) the token window -/

/-- The decoder's fixed 7-slot token window (the mechanism: `step`, `ensure`, the two lookaheads, the list
    loop that reads the source directly, the window dropped after a recognised form) computes, on every
    token stream and under every option set, exactly what plain recursive descent over the token list
    computes (the meaning) — same value or same error.  So the window never over- or under-consumes, and
    neither of its `unreachable` branches changes a result. -/
theorem lookahead_total (cfg : DecCfg) (toks : List JTok) :
    decodeToksWin cfg toks = decodeToks cfg toks :=
  decodeToksWin_eq cfg toks

/-- The same, one value at a time and in the middle of a stream: started on token `cur` with window
    contents `w.buf` that are `safe` (an `arrOpen` only in the last slot; a `mapOpen` that is not last is
    followed by something other than `"/"`, or by the last slot) and at most 6 long, the mechanism and the
    meaning agree on the value (or the error), on what is left of the stream, and the window afterwards
    is empty or a suffix of what it was with the source untouched. -/
theorem window_agrees (cfg : DecCfg) (fuel depth : Nat) (cur : JTok) (w : Win)
    (hs : safe (cur :: w.buf) = true) (hl : w.buf.length ≤ 6) :
    RelG w (Win.un cfg fuel depth cur w) (unTok cfg fuel depth (cur :: (w.buf ++ w.src))) :=
  un_rel cfg fuel depth cur w hs hl

/-! ## (2) marshal / unmarshal round trip at token level -/

/-- Decoding what the marshaller writes, mid-stream: for a value that is expressible (no map of a
    reserved shape), has no repeated keys, stays in the JSON domain (int64, finite floats, valid CIDs) and
    whose links survive the CID text codec, the marshaller succeeds and the decoder — with links and
    bytes parsing on, at any nesting `depth` that leaves room for the value, followed by any `rest` —
    reads back exactly the value with every map in bytewise key order, and leaves `rest`. -/
theorem tok_roundtrip_rest (cfg : DecCfg) (hl : cfg.parseLinks = true) (hb : cfg.parseBytes = true)
    (v : DM) (he : Expressible v) (hn : v.NoDup) (hd : JsonDomain v) (hc : CidTextOK v) :
    ∃ ts, marshalTok dagjsonEnc v = some ts ∧
      ∀ (depth fuel : Nat) (rest : List JTok), jsonDepth v + depth ≤ cfg.maxDepth → v.depth < fuel →
        unTok cfg fuel depth (ts ++ rest) = .ok (canonLex v, rest) := by
  refine ⟨_, marshalTok_eq v hd hn, ?_⟩
  intro depth fuel rest h1 h2
  exact unTok_ordToks cfg hl hb (canonLex v) (canonLex_Expressible v he) (canonLex_NoDup v hn)
    ((canonLex_CidTextOK v).mpr hc) depth fuel rest (by rw [canonLex_jsonDepth]; exact h1)
    (by rw [canonLex_depth]; exact h2)

/-- Whole-document round trip: marshal, then decode (meaning decoder), gives the lexically canonical
    form of the value.  The depth hypothesis counts bytes and links as one level (`jsonDepth`), because
    they are written as maps and the decoder checks its depth limit before it recognises them. -/
theorem tok_roundtrip (cfg : DecCfg) (hl : cfg.parseLinks = true) (hb : cfg.parseBytes = true)
    (v : DM) (he : Expressible v) (hn : v.NoDup) (hd : JsonDomain v) (hc : CidTextOK v)
    (hdep : jsonDepth v ≤ cfg.maxDepth) :
    (marshalTok dagjsonEnc v).bind (fun ts => (decodeToks cfg ts).toOption) = some (canonLex v) := by
  rw [marshalTok_eq v hd hn]
  have := decodeToks_ordToks cfg hl hb (canonLex v) (canonLex_Expressible v he) (canonLex_NoDup v hn)
    ((canonLex_CidTextOK v).mpr hc) (by rw [canonLex_jsonDepth]; exact hdep)
  simp [this, Except.toOption]

/-- …and the same through the code's token window (by `lookahead_total`), for the registered codec's
    options. -/
theorem tok_roundtrip_win (v : DM) (he : Expressible v) (hn : v.NoDup) (hd : JsonDomain v)
    (hc : CidTextOK v) (hdep : jsonDepth v ≤ 1024) :
    (marshalTok dagjsonEnc v).bind (fun ts => (decodeToksWin dagjsonDec ts).toOption) = some (canonLex v) := by
  simp only [lookahead_total]
  exact tok_roundtrip dagjsonDec rfl rfl v he hn hd hc hdep

/-- In terms of the data-model depth: strictly below the limit is enough. -/
theorem tok_roundtrip_depth (cfg : DecCfg) (hl : cfg.parseLinks = true) (hb : cfg.parseBytes = true)
    (v : DM) (he : Expressible v) (hn : v.NoDup) (hd : JsonDomain v) (hc : CidTextOK v)
    (hdep : v.depth < cfg.maxDepth) :
    (marshalTok dagjsonEnc v).bind (fun ts => (decodeToks cfg ts).toOption) = some (canonLex v) :=
  tok_roundtrip cfg hl hb v he hn hd hc (by have := jsonDepth_le v; omega)

/-- `v.depth ≤ maxDepth` is not enough: `[bytes]` has data-model depth 1, but its bytes are a map one
    level further down for the decoder, which then refuses it with limit 1. -/
example :
    let v : DM := .list (.cons (.bytes []) .nil)
    let cfg : DecCfg := { maxDepth := 1 }
    v.depth ≤ cfg.maxDepth ∧ Expressible v ∧ v.NoDup ∧ JsonDomain v ∧ CidTextOK v ∧
    (marshalTok dagjsonEnc v).bind (fun ts => (decodeToks cfg ts).toOption) = none := by
  refine ⟨by decide, ?_, ?_, ?_, ?_, by decide⟩ <;>
    simp [Expressible, ExpressibleList, DM.NoDup, DMs.NoDup, JsonDomain, JsonDomainList, CidTextOK, CidTextOKList]

/-! ## (3) order independence -/

/-- Order independence at every depth: two values (no repeated keys) with the same lexically canonical
    form marshal to the same token stream — or both fail to marshal. -/
theorem marshalTok_perm (v v' : DM) (h : v.NoDup) (h' : v'.NoDup) (e : canonLex v = canonLex v') :
    marshalTok dagjsonEnc v = marshalTok dagjsonEnc v' := by
  by_cases hd : JsonDomain v
  · have hd' : JsonDomain v' := (canonLex_JsonDomain v').mp (e ▸ (canonLex_JsonDomain v).mpr hd)
    rw [marshalTok_eq v hd h, marshalTok_eq v' hd' h', e]
  · have hd' : ¬ JsonDomain v' := fun x => hd ((canonLex_JsonDomain v).mp (e ▸ (canonLex_JsonDomain v').mpr x))
    rw [marshalTok_none v hd, marshalTok_none v' hd']

/-- …and permuting the entries of a map (distinct keys) does not change its canonical form, so
    `marshalTok_perm` applies to every permutation at every depth (`canonLex` being compositional). -/
theorem canonLex_perm_top (es es' : DMKVs) (nd : es.keys.Nodup) (p : es.toList.Perm es'.toList) :
    canonLex (.map es) = canonLex (.map es') :=
  Json.canonLex_perm_top es es' nd p

/-- What the marshaller writes is the token stream of the canonical form, in order: keys bytewise sorted
    at every level. -/
theorem marshalTok_canonical (v : DM) (hd : JsonDomain v) (hn : v.NoDup) :
    marshalTok dagjsonEnc v = some (ordToks (canonLex v)) :=
  marshalTok_eq v hd hn

/-! ## (4) strings -/

/-- The bytes refmt writes between the quotes for a valid UTF-8 string, read back by refmt's
    `parseString`, are the string.  (Invalid UTF-8 does not round-trip: each bad byte becomes U+FFFD.) -/
theorem string_roundtrip (s : Bytes) (h : isValidUtf8 s = true) :
    parseString (emitStringBody (s.length + 1) s) = s :=
  parseString_emitStringBody s h

/-- `emitString` is that body between two quotes. -/
theorem emitString_body (s : Bytes) : emitString s = 0x22 :: (emitStringBody (s.length + 1) s ++ [0x22]) := rfl

/-- The hypothesis is needed: the lone byte 0xFF comes back as U+FFFD. -/
example : isValidUtf8 [0xff] = false ∧ parseString (emitStringBody 2 [0xff]) = [0xef, 0xbf, 0xbd] := by
  decide

/-! ## (5) base64 -/

/-- Unpadded standard base64 round-trips on every byte string… -/
theorem base64_roundtrip (b : Bytes) : unbase64Raw (base64Raw b) = some b :=
  unbase64Raw_base64Raw b

/-- …and so does the decoder's two-step attempt (unpadded first, padded as the fallback). -/
theorem base64_roundtrip_dec (b : Bytes) : decodeB64 (base64Raw b) = some b :=
  decodeB64_base64Raw b

/-! ## (6) integers -/

/-- Decimal integers round-trip for every integer. -/
theorem int_roundtrip (i : Int) : parseInt (emitInt i) = some i :=
  parseInt_emitInt i

/-! ## (7) the encoder state machine accepts the marshaller's output -/

/-- Whatever the marshaller hands over (any options), the JSON encoder's state machine accepts, under
    any layout, provided the float formatter is defined on every float token in the stream. -/
theorem emit_total (cfg : EncCfg) (lay : Layout) (fmtF : UInt64 → Option Bytes) (v : DM) (ts : List JTok)
    (h : marshalTok cfg v = some ts) (hf : ∀ f, JTok.float f ∈ ts → (fmtF f).isSome = true) :
    (emitToks lay fmtF ts).isSome = true :=
  emitToks_VTok lay fmtF (marshalTok_VTok fmtF cfg v ts h hf)

/-- Those float tokens are exactly finite floats, so a formatter defined on the finite floats is enough:
    encoding fails only where marshalling does. -/
theorem emit_total_finite (cfg : EncCfg) (lay : Layout) (fmtF : UInt64 → Option Bytes)
    (hF : ∀ f, finiteBits f = true → (fmtF f).isSome = true) (v : DM) :
    (encodeJson cfg lay fmtF v).isSome = (marshalTok cfg v).isSome := by
  unfold encodeJson
  cases h : marshalTok cfg v with
  | none => rfl
  | some ts =>
    simp only [Option.bind_some, Option.isSome_some]
    exact emit_total cfg lay fmtF v ts h (fun f hm => hF f (marshalTok_floats cfg v ts h f hm))

/-! ## Non-vacuity: a concrete value

  `{"b": bytes 01 02 03, "a": <link>, "m": {"/": "x", "k": 1}, "l": [true, null]}` in that (non-canonical)
  entry order; the nested map starts with key `"/"` and a string value but has two entries, so it is not a
  link. -/

def exCid : Bytes := [0x01, 0x55, 0x00, 0x00]     -- CIDv1, raw, identity multihash of the empty string

def ex : DM :=
  .map (.cons [0x62] (.bytes [1, 2, 3])
       (.cons [0x61] (.link exCid)
       (.cons [0x6d] (.map (.cons slash (.str [0x78]) (.cons [0x6b] (.int 1) .nil)))
       (.cons [0x6c] (.list (.cons (.bool true) (.cons .null .nil))) .nil))))

def ex' : DM :=
  .map (.cons [0x61] (.link exCid)
       (.cons [0x62] (.bytes [1, 2, 3])
       (.cons [0x6c] (.list (.cons (.bool true) (.cons .null .nil)))
       (.cons [0x6d] (.map (.cons slash (.str [0x78]) (.cons [0x6b] (.int 1) .nil))) .nil))))

def exToks : List JTok :=
  [.mapOpen,
   .str [0x61], .mapOpen, .str slash, .str [98, 97, 102, 107, 113, 97, 97, 97], .mapClose,
   .str [0x62], .mapOpen, .str slash, .mapOpen, .str bytesWord, .str [65, 81, 73, 68], .mapClose, .mapClose,
   .str [0x6c], .arrOpen, .bool true, .null, .arrClose,
   .str [0x6d], .mapOpen, .str slash, .str [0x78], .str [0x6b], .int 1, .mapClose,
   .mapClose]

theorem ex_nodup : ex.NoDup := by
  simp [ex, DM.NoDup, DMKVs.NoDupVals, DMKVs.keys, DMKVs.toList, DMs.NoDup, slash]
theorem ex_expressible : Expressible ex := by
  simp [ex, Expressible, ExpressibleKVs, ExpressibleList, Reserved]
theorem ex_domain : JsonDomain ex := by
  simp [ex, JsonDomain, JsonDomainKVs, JsonDomainList]
  decide
theorem ex_cid : CidTextOK ex := by
  simp [ex, CidTextOK, CidTextOKKVs, CidTextOKList]
  decide

example : ex.NoDup ∧ Expressible ex ∧ JsonDomain ex ∧ CidTextOK ex ∧ jsonDepth ex ≤ dagjsonDec.maxDepth :=
  ⟨ex_nodup, ex_expressible, ex_domain, ex_cid, by decide⟩
example : canonLex ex = ex' := by decide
example : marshalTok dagjsonEnc ex = some exToks := by
  rw [marshalTok_canonical ex ex_domain ex_nodup, show canonLex ex = ex' by decide]
  simp [ordToks, ordToksKVs, ordToksList, ex', exToks]
  decide
example : decodeToks dagjsonDec exToks = .ok ex' := by rfl
example : decodeToksWin dagjsonDec exToks = .ok ex' := by rfl
example : (marshalTok dagjsonEnc ex).bind (fun ts => (decodeToks dagjsonDec ts).toOption) = some ex' := by
  rw [tok_roundtrip dagjsonDec rfl rfl ex ex_expressible ex_nodup ex_domain ex_cid (by decide)]; decide
example : marshalTok dagjsonEnc ex = marshalTok dagjsonEnc ex' :=
  marshalTok_perm ex ex' ex_nodup (by simp [ex', DM.NoDup, DMKVs.NoDupVals, DMKVs.keys, DMKVs.toList, DMs.NoDup, slash])
    (by decide)
/-- the compact JSON text of the example (no floats in it, so any formatter does):
    `{"a":{"/":"bafkqaaa"},"b":{"/":{"bytes":"AQID"}},"l":[true,null],"m":{"/":"x","k":1}}` -/
example : emitToks compact (fun _ => none) exToks = some
    [123, 34, 97, 34, 58, 123, 34, 47, 34, 58, 34, 98, 97, 102, 107, 113, 97, 97, 97, 34, 125, 44, 34, 98, 34, 58, 123,
     34, 47, 34, 58, 123, 34, 98, 121, 116, 101, 115, 34, 58, 34, 65, 81, 73, 68, 34, 125, 125, 44, 34, 108, 34, 58, 91,
     116, 114, 117, 101, 44, 110, 117, 108, 108, 93, 44, 34, 109, 34, 58, 123, 34, 47, 34, 58, 34, 120, 34, 44, 34, 107, 34,
     58, 49, 125, 125] := by
  rfl
/-- a one-entry map `{"/": "x"}` is not expressible: it reads back as a link (here: a CID error) -/
example : ¬ Expressible (.map (.cons slash (.str [0x78]) .nil)) := by
  simp [Expressible, Reserved]
example :
    let m : DM := .map (.cons slash (.str [0x78]) .nil)
    marshalTok dagjsonEnc m = some (ordToks m) ∧ decodeToks dagjsonDec (ordToks m) = .error .badCid := by
  refine ⟨?_, by rfl⟩
  exact marshalTok_canonical _ (by simp [JsonDomain, JsonDomainKVs])
    (by simp [DM.NoDup, DMKVs.NoDupVals, DMKVs.keys, DMKVs.toList])
/-- string, base64 and integer terminals on concrete inputs -/
example : emitStringBody 6 [0x61, 0x22, 0x0a, 0xc3, 0xa9] = [0x61, 0x5c, 0x22, 0x5c, 0x6e, 0xc3, 0xa9]
    ∧ isValidUtf8 [0x61, 0x22, 0x0a, 0xc3, 0xa9] = true := by decide
example : base64Raw [1, 2, 3, 4] = [65, 81, 73, 68, 66, 65] ∧ emitInt (-120) = [0x2d, 0x31, 0x32, 0x30] := by decide

end Ipld.Props.C04
