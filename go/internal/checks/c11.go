package checks

import (
	"bytes"
	"fmt"
	"io"
	"strings"

	"github.com/ipld/go-ipld-prime/codec/dagcbor"
	"github.com/ipld/go-ipld-prime/codec/dagjson"
	"github.com/ipld/go-ipld-prime/datamodel"
	"github.com/ipld/go-ipld-prime/node/basicnode"
	"github.com/ipld/go-ipld-prime/schema"
	"github.com/ipld/go-ipld-prime/traversal"

	"verif/internal/core"
)

// C11 — a finished node never changes, and reading it is repeatable.
//
//   impl observation : a pool of finished nodes (built by builders of every basicnode prototype with random plans, decoded
//                      from dag-cbor / dag-json, stream-backed bytes, subset-matcher results, transform results); after every
//                      operation of a random history every node of the pool is snapshotted again through every accessor
//   (O) oracle        : each snapshot equals the node's first snapshot; two consecutive reads of the same accessor agree
//   (D) correspondence: the heap-level model (slices with capacity, the table/map pair, assembler back-pointers) is tied to the
//                       source by the regenerated per-method write sets (C12's `maFacts_src`/`laFacts_src`) and to behaviour
//                       by the pure assembler model's correspondence (C01/C12); there is no observable beyond the snapshots.

func init() {
	core.Register(&core.Check{ID: "C11", Run: runC11, Replay: replayC11})
}

// fullSnapshot reads a node through every accessor, twice where reads could interfere.
func fullSnapshot(n datamodel.Node) (snap string) {
	defer func() {
		if r := recover(); r != nil {
			snap = fmt.Sprintf("panic %v", r)
		}
	}()
	var sb strings.Builder
	sb.WriteString(termOf(n))
	sb.WriteString(" | ")
	sb.WriteString(accessorRow(n))
	if n.Kind() == datamodel.Kind_Bytes {
		b1, e1 := n.AsBytes()
		b2, e2 := n.AsBytes()
		fmt.Fprintf(&sb, " | bytes %x %v / %x %v", b1, e1, b2, e2)
		if lb, ok := n.(datamodel.LargeBytesNode); ok {
			r1, err1 := lb.AsLargeBytes()
			r2, err2 := lb.AsLargeBytes()
			if err1 == nil && err2 == nil {
				// interleave reads of the two readers: they must be independent
				h1 := make([]byte, 2)
				k1, _ := io.ReadFull(r1, h1)
				all2, _ := io.ReadAll(r2)
				rest1, _ := io.ReadAll(r1)
				fmt.Fprintf(&sb, " | large %x+%x / %x", h1[:k1], rest1, all2)
			}
		}
	}
	if n.Kind() == datamodel.Kind_Map || n.Kind() == datamodel.Kind_List {
		if p := consistency(n, ""); p != "" {
			sb.WriteString(" | inconsistent: " + p)
		}
	}
	return sb.String()
}

// streamViewsOracle drives two read views of one stream-backed bytes node (content b) in an interleaved way — partial
// read on one, then a length probe / positioned read / subset match / AsBytes through the other — and compares
// everything delivered with b.  Returns "" when all is right.
func streamViewsOracle(n datamodel.Node, b []byte, r *core.Rand) (msg string) {
	defer func() {
		if x := recover(); x != nil {
			msg = fmt.Sprintf("panic %v", x)
		}
	}()
	lb, ok := n.(datamodel.LargeBytesNode)
	if !ok {
		return ""
	}
	r1, err1 := lb.AsLargeBytes()
	r2, err2 := lb.AsLargeBytes()
	if err1 != nil || err2 != nil {
		return fmt.Sprintf("AsLargeBytes: %v %v", err1, err2)
	}
	k := r.Intn(len(b) + 1)
	got1 := make([]byte, k)
	if _, err := io.ReadFull(r1, got1); err != nil {
		return fmt.Sprintf("first %d bytes: %v", k, err)
	}
	what := ""
	switch r.Intn(5) {
	case 0:
		what = "Seek(0,End) on the other view"
		if size, err := r2.Seek(0, io.SeekEnd); err != nil || size != int64(len(b)) {
			return fmt.Sprintf("%s = %d, %v", what, size, err)
		}
	case 1:
		off := r.Intn(len(b) + 1)
		what = fmt.Sprintf("positioned read at %d on the other view", off)
		if _, err := r2.Seek(int64(off), io.SeekStart); err != nil {
			return what + ": " + err.Error()
		}
		part := make([]byte, r.Intn(len(b)-off+1))
		if _, err := io.ReadFull(r2, part); err != nil || !bytes.Equal(part, b[off:off+len(part)]) {
			return fmt.Sprintf("%s: %x %v", what, part, err)
		}
	case 2, 3:
		from, to := k, k+r.Intn(len(b)-k+1)
		if r.Bool() {
			from = r.Intn(len(b) + 1)
			to = from + r.Intn(len(b)-from+1)
		}
		what = fmt.Sprintf("subset match [%d,%d)", from, to)
		mm := func(k string, v core.Val) core.Val { return core.Map(core.KV{K: []byte(k), V: v}) }
		spec := mm(".", mm("subset", core.Map(core.KV{K: []byte("["), V: core.Int(int64(from))}, core.KV{K: []byte("]"), V: core.Int(int64(to))})))
		s, st := core.CompileSel(spec)
		if st != "" {
			return "subset selector does not compile: " + st
		}
		var sub []byte
		seen := false
		err := traversal.WalkMatching(n, s, func(p traversal.Progress, m datamodel.Node) error {
			seen = true
			var e error
			sub, e = m.AsBytes()
			return e
		})
		if from == to && !seen && err == nil {
			// an empty range matches nothing (C07's model: sliceBounds / matchNode)
		} else if err != nil || !seen || !bytes.Equal(sub, b[from:to]) {
			return fmt.Sprintf("%s: %x seen=%v %v", what, sub, seen, err)
		}
	default:
		what = "AsBytes"
		if all, err := n.AsBytes(); err != nil || !bytes.Equal(all, b) {
			return fmt.Sprintf("AsBytes: %x %v", all, err)
		}
	}
	rest, err := io.ReadAll(r1)
	if err != nil || !bytes.Equal(append(got1, rest...), b) {
		return fmt.Sprintf("reader interrupted after %d bytes by %s delivered %x+%x %v", k, what, got1, rest, err)
	}
	if _, err := r2.Seek(0, io.SeekStart); err != nil {
		return "rewind: " + err.Error()
	}
	if all2, err := io.ReadAll(r2); err != nil || !bytes.Equal(all2, b) {
		return fmt.Sprintf("second view from the start after %s: %x %v", what, all2, err)
	}
	return ""
}

// streamModelCorr: random interleavings of reads, seeks and AsBytes over several views of one stream-backed bytes node,
// call by call against the Lean model (`stream.run`).
func streamModelCorr(c *core.Ctx, r *core.Rand, n int) error {
	var lines, impls []string
	for i := 0; i < n; i++ {
		content := r.Bytes(r.Intn(24))
		node := basicnode.NewBytesFromReader(core.StreamSource(r, content))
		lb := node.(datamodel.LargeBytesNode)
		nv := 1 + r.Intn(3)
		views := make([]io.ReadSeeker, nv)
		for k := range views {
			views[k], _ = lb.AsLargeBytes()
		}
		var toks, outs []string
		for k := 3 + r.Intn(14); k > 0; k-- {
			v := r.Intn(nv)
			switch r.Intn(6) {
			case 0:
				toks = append(toks, fmt.Sprintf("%d:a", v))
				b, err := node.AsBytes()
				if err != nil {
					outs = append(outs, "err")
				} else {
					outs = append(outs, "b"+hexArg(b))
				}
			case 1, 2:
				off := int64(r.Intn(2*len(content)+4)) - int64(len(content)/2) - 2
				wh := r.Intn(3)
				if wh == 2 {
					off = -int64(r.Intn(len(content) + 3))
					if r.Chance(1, 4) {
						off = int64(r.Intn(3))
					}
				}
				toks = append(toks, fmt.Sprintf("%d:s:%d:%d", v, off, wh))
				p, err := views[v].Seek(off, wh)
				if err != nil {
					outs = append(outs, "err")
				} else {
					outs = append(outs, fmt.Sprintf("p%d", p))
				}
			default:
				k := 1 + r.Intn(9)
				toks = append(toks, fmt.Sprintf("%d:r:%d", v, k))
				buf := make([]byte, k)
				// a Read may deliver fewer bytes than asked for, and may report the end of the stream together with the
				// last bytes: what counts is the bytes a reader gets by reading on (as io.ReadFull does)
				got := 0
				var err error
				for got < k && err == nil {
					var n int
					n, err = views[v].Read(buf[got:])
					got += n
					if n == 0 && err == nil {
						break
					}
				}
				o := "b" + hexArg(buf[:got])
				if err == io.EOF && got == 0 {
					o += "E"
				} else if err != nil && err != io.EOF {
					o = "err"
				}
				outs = append(outs, o)
			}
		}
		line := fmt.Sprintf("stream.run %s %d %s", hexArg(content), nv, strings.Join(toks, " "))
		lines = append(lines, line)
		impls = append(impls, strings.Join(outs, " "))
		c.Count(line, nv >= 2)
		c.Dist("stream-model")
	}
	mouts, err := core.RunDriver(lines)
	if err != nil {
		return err
	}
	for i := range lines {
		c.Trace(1)
		if mouts[i] != impls[i] {
			c.Fail("C11/corr-stream-views", core.Replay{Kind: "correspondence", Case: lines[i], Impl: impls[i], Model: mouts[i]})
		}
	}
	return nil
}

type pooled struct {
	n     datamodel.Node
	first string
	how   string
}

func c11Typed(c *core.Ctx, r *core.Rand, n int) error {
	cfg := core.DefaultSchemaCfg
	for i := 0; i < n; i++ {
		sc, err := genSchemaCase(r, cfg)
		if err != nil {
			continue
		}
		tv := core.GenInhabitant(sc.T, r, cfg, false)
		input := core.TypeInput(tv)
		nb, err := sc.Eng.NewTypeBuilder(sc.T.Name)
		if err != nil {
			continue
		}
		var src datamodel.Node
		if berr, panicked, _ := core.Catch(func() error {
			if err := core.Assemble(nb, input, r); err != nil {
				return err
			}
			src = nb.Build()
			return nil
		}); berr != nil || panicked || src == nil {
			continue // acceptance is C09's business
		}
		caseID := "c11.typed " + sc.Eng.Name() + " " + sc.Ty + " VAL " + input.Term()
		c.Count(caseID, input.Size() > 3)
		// schema management next to finished nodes: the node's type system is copied, type by type, into a private one that
		// defines every one of its type names differently (so nothing is taken over) - the finished node reads as before
		if tn, ok := src.(schema.TypedNode); ok && tn.Type() != nil && tn.Type().TypeSystem() != nil {
			before := termOfOrErrSafe(src, nil) + " | " + termOfOrErrSafe(tn.Representation(), nil)
			ts := tn.Type().TypeSystem()
			_, panicked, pv := core.Catch(func() error {
				private := &schema.TypeSystem{}
				private.Init()
				for _, name := range ts.Names() {
					if _, isBool := ts.TypeByName(string(name)).(*schema.TypeBool); isBool {
						private.Accumulate(schema.SpawnInt(name))
					} else {
						private.Accumulate(schema.SpawnBool(name))
					}
				}
				schema.MergeTypeSystem(private, ts, true)
				for _, name := range ts.Names() {
					schema.Clone(ts.TypeByName(string(name)))
				}
				return nil
			})
			after := "panic"
			core.Catch(func() error {
				after = termOfOrErrSafe(src, nil) + " | " + termOfOrErrSafe(tn.Representation(), nil)
				return nil
			})
			if panicked || after != before {
				c.Fail("C11/finished-node-changed", core.Replay{Kind: "oracle", Case: caseID, Impl: truncateStr(after, 500) + fmt.Sprint(" ", pv), Expected: truncateStr(before, 500),
					Detail: "after schema.MergeTypeSystem / schema.Clone of the node's type system into a private type system"})
				continue
			}
			c.Dist("typed:type-system-merged-next-to-node")
		}
		typedAliasing(c, "C11", caseID, src.Prototype(), src)
	}
	return nil
}

func runC11(c *core.Ctx) error {
	c.Rule = "histories of 8-25 operations over a growing pool of finished nodes: build (every basicnode prototype, random plans incl. AssignNode of pooled nodes), decode (dag-cbor, dag-json), stream-backed bytes, subset matches, then reads of every accessor, encodes, Copy, AssignNode into other builders that are then extended, walks, focused and walking transforms, builder Reset and reuse; after each operation every pooled node is snapshotted again; non-trivial = history with at least one sharing operation (AssignNode of a pooled container, Reset/reuse, transform); distinct by seed fork and history"
	c.Explanation = "theorem on the heap-level model of basicnode's builders: no step writes a cell reachable from a finished node (frozen_inv), lifted to every history; reads are functions of the frozen cells (read_stable); stream-backed bytes read through a private cursor"
	c.Assumptions = []string{"callers writing into byte slices they passed in or were handed back are excluded by the property", "bindnode / generated nodes are covered by their own correspondence (C08/C13); here they take part only through Copy/AssignNode"}
	// schema-bound nodes (reflection binding, inferred and caller-supplied Go types): a finished typed node handed to
	// another builder of its prototype with AssignNode stays what it is whatever happens to that builder or to the copy
	if err := c11Typed(c, c.Rand.Fork(), c.Pick(250, 20000)); err != nil {
		return err
	}
	nh := c.Pick(300, 20000)
	for h := 0; h < nh; h++ {
		r := c.Rand.Fork()
		var pool []pooled
		var hist []string
		sharing := false
		add := func(n datamodel.Node, how string) {
			if n == nil {
				return
			}
			pool = append(pool, pooled{n: n, first: fullSnapshot(n), how: how})
		}
		corrupt := false
		checkAll := func(after string) {
			for i := range pool {
				if s := fullSnapshot(pool[i].n); s != pool[i].first {
					// a finished node has changed: from here on the pool may hold anything (a node that contains itself, say):
					// the history ends here
					corrupt = true
					c.Fail("C11/finished-node-changed", core.Replay{Kind: "oracle", Case: fmt.Sprintf("c11.history #%d: %s", h, strings.Join(hist, " ; ")),
						Impl: truncateStr(s, 500), Expected: truncateStr(pool[i].first, 500), Detail: fmt.Sprintf("node %d (%s) reads differently after: %s", i, pool[i].how, after)})
					pool[i].first = s
				}
			}
		}
		cfg := core.DefaultGen
		cfg.MaxDepth, cfg.MaxWidth = 3, 4
		nops := 8 + r.Intn(18)
		var reusable datamodel.NodeBuilder
		for op := 0; op < nops; op++ {
			var what string
			switch r.Intn(14) {
			case 0, 1: // build with a random plan, possibly assigning pooled nodes
				v := core.GenVal(r, cfg, 0)
				ops := core.GenHistory(v, r, false, true)
				nb := protoBuilder([]string{"any", kindToken(v)}[r.Intn(2)])
				if nb == nil || (v.K == 'i' && containsBigUint(v)) {
					nb = basicnode.Prototype.Any.NewBuilder()
				}
				outs, fin := core.RunOps(nb, ops, func(x core.Val) (datamodel.Node, error) { return core.BuildBasic(x, r) })
				_ = outs
				if strings.HasPrefix(fin, "built") {
					add(nb.Build(), "builder")
				}
				what = "build " + kindToken(v)
			case 2: // AssignNode of a pooled node into a fresh builder that is then extended
				if len(pool) == 0 {
					continue
				}
				src := pool[r.Intn(len(pool))].n
				nb := basicnode.Prototype.Any.NewBuilder()
				la, _ := nb.BeginList(int64(r.Intn(4)))
				la.AssembleValue().AssignNode(src)
				la.AssembleValue().AssignInt(int64(op))
				if src.Kind() == datamodel.Kind_Map || src.Kind() == datamodel.Kind_List {
					// same-implementation shortcut: header copy into a typed builder, then keep building elsewhere
					var nb2 datamodel.NodeBuilder
					if src.Kind() == datamodel.Kind_Map {
						nb2 = basicnode.Prototype.Map.NewBuilder()
					} else {
						nb2 = basicnode.Prototype.List.NewBuilder()
					}
					if err := nb2.AssignNode(src); err == nil {
						add(nb2.Build(), "assignnode-shortcut")
					}
					sharing = true
				}
				la.Finish()
				add(nb.Build(), "list-holding-pooled")
				what = "assignnode"
			case 3: // builder Reset and reuse
				if reusable == nil {
					reusable = []datamodel.NodeBuilder{basicnode.Prototype.Map.NewBuilder(), basicnode.Prototype.List.NewBuilder(), basicnode.Prototype.Any.NewBuilder()}[r.Intn(3)]
				} else {
					reusable.Reset()
				}
				v := core.GenVal(r, cfg, 0)
				var err error
				switch reusable.Prototype().(type) {
				case basicnode.Prototype__Map:
					v = core.Map(core.KV{K: []byte("k"), V: v})
				case basicnode.Prototype__List:
					v = core.List(v, core.Int(1))
				}
				if containsBigUint(v) {
					v = core.List()
					if _, ok := reusable.Prototype().(basicnode.Prototype__Map); ok {
						v = core.Map()
					}
				}
				// sometimes the builder first takes a pooled container by AssignNode and is then Reset WITHOUT Build (or is left
				// half-assembled and Reset): whatever it held must not be written by what it assembles next
				if len(pool) > 0 && r.Chance(1, 3) {
					src := pool[r.Intn(len(pool))].n
					func() {
						defer func() { recover() }()
						if r.Bool() {
							_ = reusable.AssignNode(src)
						} else if src.Kind() == datamodel.Kind_List {
							if la, err := reusable.BeginList(src.Length()); err == nil {
								_ = la.AssembleValue().AssignNode(src)
							}
						}
					}()
					reusable.Reset()
					what = "assign-then-reset-without-build"
				}
				err = core.Assemble(reusable, v, r)
				if err == nil {
					add(reusable.Build(), "reused-builder")
				} else {
					reusable = nil
				}
				sharing = true
				if what != "assign-then-reset-without-build" {
					what = "reset-reuse"
				}
			case 4: // decode
				v := genForCodec(r, []uint64{0x71, 0x0129}[r.Intn(2)])
				n, _ := core.BuildBasic(v, nil)
				var buf bytes.Buffer
				nb := basicnode.Prototype.Any.NewBuilder()
				if r.Bool() {
					if dagcbor.Encode(n, &buf) == nil && dagcbor.Decode(nb, &buf) == nil {
						add(nb.Build(), "dag-cbor decoder")
					}
				} else {
					if dagjson.Encode(n, &buf) == nil && dagjson.Decode(nb, &buf) == nil {
						add(nb.Build(), "dag-json decoder")
					}
				}
				what = "decode"
			case 5: // stream-backed bytes
				b := r.Bytes(r.Intn(12))
				if r.Chance(1, 4) {
					b = r.Bytes(20 + r.Intn(60))
				}
				sn := basicnode.NewBytesFromReader(core.StreamSource(r, b))
				add(sn, "NewBytesFromReader")
				for k := 0; k < 3; k++ {
					if msg := streamViewsOracle(sn, b, r); msg != "" {
						c.Fail("C11/stream-view-wrong", core.Replay{Kind: "oracle", Case: fmt.Sprintf("c11.stream %x seed-fork h%d", b, h), Impl: msg, Expected: fmt.Sprintf("%x", b),
							Detail: "views of one stream-backed bytes node are not independent cursors over the same content"})
					}
				}
				nb := basicnode.Prototype.Bytes.NewBuilder()
				if nb.AssignNode(basicnode.NewBytes(b)) == nil {
					add(nb.Build(), "bytes builder AssignNode")
				}
				what = "stream-bytes"
			case 6: // subset matcher over strings / bytes / large bytes
				if len(pool) == 0 {
					continue
				}
				src := pool[r.Intn(len(pool))].n
				mm := func(k string, v core.Val) core.Val { return core.Map(core.KV{K: []byte(k), V: v}) }
				subset := mm(".", mm("subset", core.Map(core.KV{K: []byte("["), V: core.Int(int64(r.Intn(3)))}, core.KV{K: []byte("]"), V: core.Int(int64(r.Intn(6)) - 1)})))
				spec := mm("R", core.Map(core.KV{K: []byte("l"), V: mm("none", core.Map())},
					core.KV{K: []byte(":>"), V: mm("|", core.List(subset, mm("a", mm(">", mm("@", core.Map())))))}))
				if s, st := core.CompileSel(spec); st == "" {
					traversal.WalkMatching(src, s, func(p traversal.Progress, m datamodel.Node) error {
						if len(pool) < 60 {
							add(m, "subset match")
						}
						return nil
					})
				}
				what = "walk-matching"
			case 7: // encode every pooled node (both codecs)
				for _, p := range pool {
					var buf bytes.Buffer
					dagcbor.Encode(p.n, &buf)
					buf.Reset()
					dagjson.Encode(p.n, &buf)
				}
				what = "encode-all"
			case 8: // Copy into builders
				if len(pool) == 0 {
					continue
				}
				src := pool[r.Intn(len(pool))].n
				nb := basicnode.Prototype.Any.NewBuilder()
				func() {
					defer func() { recover() }()
					if datamodel.Copy(src, nb) == nil {
						add(nb.Build(), "copy")
					}
				}()
				what = "copy"
			case 9: // DeepEqual pairs
				if len(pool) >= 2 {
					a, b := pool[r.Intn(len(pool))].n, pool[r.Intn(len(pool))].n
					func() { defer func() { recover() }(); datamodel.DeepEqual(a, b) }()
				}
				what = "deepequal"
			case 10, 11: // focused transform on a pooled container
				if len(pool) == 0 {
					continue
				}
				src := pool[r.Intn(len(pool))].n
				var path []string
				switch src.Kind() {
				case datamodel.Kind_Map:
					path = []string{"newkey"}
					if it := src.MapIterator(); !it.Done() && r.Bool() {
						k, _, _ := it.Next()
						ks, _ := k.AsString()
						path = []string{ks}
					}
				case datamodel.Kind_List:
					path = []string{[]string{"0", "-"}[r.Intn(2)]}
				default:
					continue
				}
				kind := r.Intn(3)
				func() {
					defer func() { recover() }()
					res, err := traversal.FocusedTransform(src, mkPath(path), func(traversal.Progress, datamodel.Node) (datamodel.Node, error) {
						switch kind {
						case 0:
							return nil, nil
						case 1:
							return basicnode.NewString("replaced"), nil
						}
						return pool[r.Intn(len(pool))].n, nil
					}, false)
					if err == nil && res != nil {
						if _, rerr := readNodeSafe(res); rerr == nil {
							add(res, "focused transform")
						}
					}
				}()
				sharing = true
				what = "focused-transform"
			case 12: // walking transform (identity and replacement)
				if len(pool) == 0 {
					continue
				}
				src := pool[r.Intn(len(pool))].n
				if s, st := core.CompileSel(core.SelAll()); st == "" {
					func() {
						defer func() { recover() }()
						res, err := traversal.WalkTransforming(src, s, func(p traversal.Progress, m datamodel.Node) (datamodel.Node, error) {
							if m.Kind() == datamodel.Kind_String && r.Bool() {
								return basicnode.NewString("T"), nil
							}
							return m, nil
						})
						if err == nil && res != nil && src.Kind() != datamodel.Kind_Link {
							if _, rerr := readNodeSafe(res); rerr == nil {
								add(res, "walking transform")
							}
						}
					}()
				}
				sharing = true
				what = "walk-transform"
			default: // plain reads, several times, in varying order
				for k := 0; k < 3 && len(pool) > 0; k++ {
					p := pool[r.Intn(len(pool))]
					fullSnapshot(p.n)
				}
				what = "reads"
			}
			hist = append(hist, what)
			checkAll(what)
			if corrupt {
				break
			}
			if len(pool) > 80 {
				pool = pool[len(pool)-60:]
			}
		}
		c.Count(fmt.Sprintf("h%d:%s", h, strings.Join(hist, ",")), sharing)
		c.Trace(1)
		for _, w := range hist {
			c.Dist("op:" + w)
		}
		if h < 2 {
			c.Sample(strings.Join(hist, " ; "))
		}
	}
	return streamModelCorr(c, c.Rand.Fork(), c.Pick(600, 60000))
}

func replayC11(c *core.Ctx, rp core.Replay) error {
	return fmt.Errorf("C11 histories replay by seed: VERIF_SEED=%d ./vcheck C11 %s (case: %s)", rp.Seed, rp.Tier, rp.Case)
}
