/-
  Lemmas about the write-once key-value specification `Kv` and histories of puts (C17 A1).  Core Lean only.
-/
import IpldModel.Model.Store
namespace Ipld.Store

theorem Kv.get_put (s : Kv) (k v k' : Bytes) :
    (s.put k v).get k' =
      if k' = k then (match s.get k with | some old => some old | none => some v) else s.get k' := by
  unfold Kv.put
  cases h : s.get k with
  | some old =>
    by_cases hk : k' = k
    · subst hk; simp [h]
    · simp [hk]
  | none =>
    by_cases hk : k' = k
    · subst hk; simp [Kv.get]
    · have : ¬ k = k' := fun e => hk e.symm
      simp [Kv.get, hk, this]

/-- a history of puts applied in order -/
def Kv.puts (s : Kv) (h : List (Bytes × Bytes)) : Kv := h.foldl (fun s e => s.put e.1 e.2) s

/-- "one content per key": whenever two puts of a history name the same key they carry the same content -/
def OneContentPerKey (h : List (Bytes × Bytes)) : Prop :=
  ∀ e₁ ∈ h, ∀ e₂ ∈ h, e₁.1 = e₂.1 → e₁.2 = e₂.2

/-- after a history, a key holds what it held before, else the content of the first put that names it -/
theorem Kv.get_puts (h : List (Bytes × Bytes)) (s : Kv) (k : Bytes) :
    (s.puts h).get k =
      match s.get k with
      | some v => some v
      | none => (h.find? (fun e => e.1 = k)).map (·.2) := by
  induction h generalizing s with
  | nil => simp [Kv.puts]; cases s.get k <;> rfl
  | cons e r ih =>
    have : s.puts (e :: r) = (s.put e.1 e.2).puts r := rfl
    rw [this, ih, Kv.get_put]
    by_cases hk : k = e.1
    · subst hk
      cases hs : s.get e.1 with
      | some v => simp
      | none => simp
    · have : ¬ e.1 = k := fun x => hk x.symm
      simp [hk, this]

end Ipld.Store
