/-
  C15 (companion) — the walk's controls (budget checks, start-at skipping, seen links, SkipMe) as transcribed into Model/Walk.lean (checkNode / checkLink / exploreChild).
  Recorded by tools/pin_skeletons.py from the source the models were transcribed from; property-tie theorems only.
-/
import IpldModel.Generated.WalkCtlSkeletons
namespace Ipld.Props.C15

/-- (T) statement skeleton of `Progress.checkNodeBudget` (traversal/walk.go) — test then decrement (model: `Walk.checkNode`): the statements on this run are the recorded ones. -/
theorem checkNodeBudget_is_transcribed : Ipld.Generated.checkNodeBudget_skel_src = [
  "if prog.Budget != nil",
  ". if prog.Budget.NodeBudget <= 0",
  ". . return &ErrBudgetExceeded{BudgetKind: \"node\", Path: prog.Path}",
  ". prog.Budget.NodeBudget--",
  "return nil"
] := rfl

/-- (T) statement skeleton of `Progress.checkLinkBudget` (traversal/walk.go) — test then decrement (model: `Walk.checkLink`): the statements on this run are the recorded ones. -/
theorem checkLinkBudget_is_transcribed : Ipld.Generated.checkLinkBudget_skel_src = [
  "if prog.Budget != nil",
  ". if prog.Budget.LinkBudget <= 0",
  ". . return &ErrBudgetExceeded{BudgetKind: \"link\", Path: prog.Path, Link: lnk}",
  ". prog.Budget.LinkBudget--",
  "return nil"
] := rfl

/-- (T) statement skeleton of `Progress.explore` (traversal/walk.go) — start-at skipping, seen links, load, SkipMe (model: `Walk.exploreChild`): the statements on this run are the recorded ones. -/
theorem walkExplore_is_transcribed : Ipld.Generated.walkExplore_skel_src = [
  "sNext, err := s.Explore(n, ps)",
  "if err != nil",
  ". return err",
  "if sNext == nil",
  ". return nil",
  "progNext := prog",
  "progNext.Path = prog.Path.AppendSegment(ps)",
  "if v.Kind() != datamodel.Kind_Link",
  ". return progNext.walkAdv(ph, v, sNext, visitFn)",
  "lnk, _ := v.AsLink()",
  "if prog.Cfg.LinkVisitOnlyOnce",
  ". if _, seen := prog.SeenLinks[lnk]; seen",
  ". . return nil",
  ". if ph == phaseTraverse",
  ". . prog.SeenLinks[lnk] = struct{}{}",
  "if ph == phasePreload",
  ". if err := prog.checkLinkBudget(lnk); err != nil",
  ". . return err",
  ". pctx := preload.PreloadContext{Ctx: prog.Cfg.Ctx, BasePath: prog.Path, ParentNode: n}",
  ". pl := preload.Link{Segment: ps, LinkNode: v, Link: lnk}",
  ". prog.Cfg.Preloader(pctx, pl)",
  ". return nil",
  "progNext.LastBlock.Path = progNext.Path",
  "progNext.LastBlock.Link = lnk",
  "v, err = progNext.loadLink(lnk, v, n)",
  "if err != nil",
  ". if _, ok := err.(SkipMe); ok",
  ". . return nil",
  ". return err",
  "return progNext.walkBlock(v, sNext, visitFn)"
] := rfl

/-- (T) statement skeleton of `Progress.loadLink` (traversal/walk.go) — link budget, prototype chooser, load, SkipMe passes through (model: the load part of `Walk.exploreChild`): the statements on this run are the recorded ones. -/
theorem walkLoadLink_is_transcribed : Ipld.Generated.walkLoadLink_skel_src = [
  "if err := prog.checkLinkBudget(lnk); err != nil",
  ". return nil, err",
  "lnkCtx := linking.LinkContext{Ctx: prog.Cfg.Ctx, LinkPath: prog.Path, LinkNode: v, ParentNode: parent}",
  "np, err := prog.Cfg.LinkTargetNodePrototypeChooser(lnk, lnkCtx)",
  "if err != nil",
  ". return nil, fmt.Errorf(\"error traversing node at %q: could not load link %q: %w\", prog.Path, lnk, err)",
  "n, err := prog.Cfg.LinkSystem.Load(lnkCtx, lnk, np)",
  "if err != nil",
  ". if _, ok := err.(SkipMe); ok",
  ". . return nil, err",
  ". return nil, fmt.Errorf(\"error traversing node at %q: could not load link %q: %w\", prog.Path, lnk, err)",
  "return n, nil"
] := rfl

end Ipld.Props.C15
