/-
  Node budget, any configuration (start-at path included): the budgeted walk's log is a prefix of the
  unbudgeted walk's log; the budget spent is the number of `walkAdv` calls that passed the budget check.
-/
import IpldModel.Lemmas.WalkBudget
namespace Ipld
namespace Walk
open Sel

/-- `k` = number of `walkAdv` calls that passed the budget check between `st` and `R.1` -/
def SimG (st : St) (b : Int) (R U : WR) : Prop :=
  ∃ (newR : List Event) (k : Nat), R.1.events = newR ++ st.events ∧ R.1.nodeBudget = some (b - k) ∧ (k : Int) ≤ b ∧
    visitCount newR ≤ k ∧
    ((R.2 = .error .budgetNode ∧ (k : Int) = b ∧ ∃ extra, U.1.events = extra ++ R.1.events)
     ∨ (R.2 ≠ .error .budgetNode ∧ U.1 = unb R.1 ∧ U.2 = R.2))

theorem SimG.refl {st : St} {b : Int} (hb : st.nodeBudget = some b) (h0 : 0 ≤ b) (r : Except Err Unit)
    (hr : r ≠ .error .budgetNode) : SimG st b (st, r) (unb st, r) :=
  ⟨[], 0, rfl, by simpa using hb, by simpa using h0, by simp, Or.inr ⟨hr, rfl, rfl⟩⟩

def StepG (st : St) (b : Int) (st1 : St) : Prop :=
  ∃ (new : List Event) (k : Nat), st1.events = new ++ st.events ∧ st1.nodeBudget = some (b - k) ∧ (k : Int) ≤ b ∧
    visitCount new ≤ k

theorem SimG.seq {st st1 : St} {b : Int} {R U : WR} (h1 : StepG st b st1)
    (h2 : ∀ b1, st1.nodeBudget = some b1 → 0 ≤ b1 → SimG st1 b1 R U) : SimG st b R U := by
  obtain ⟨new1, k1, he1, hb1, hk1, hv1⟩ := h1
  obtain ⟨new2, k2, he2, hb2, hk2, hv2, h⟩ := h2 _ hb1 (by omega)
  refine ⟨new2 ++ new1, k2 + k1, by rw [he2, he1, List.append_assoc], by rw [hb2]; congr 1; omega,
    by omega, by simp; omega, ?_⟩
  rcases h with ⟨hr, hk, hx⟩ | h
  · exact Or.inl ⟨hr, by omega, hx⟩
  · exact Or.inr h

theorem SimG.bind {st : St} {b : Int} {R1 U1 : WR} (f : St → WR) (h1 : SimG st b R1 U1)
    (hf : ∀ st1 b1, R1.1 = st1 → st1.nodeBudget = some b1 → 0 ≤ b1 → SimG st1 b1 (f st1) (f (unb st1)))
    (hext : ∀ stU, ∃ new, (f stU).1.events = new ++ stU.events) :
    SimG st b (andThen R1 f) (andThen U1 f) := by
  obtain ⟨stR, rR⟩ := R1
  obtain ⟨stU, rU⟩ := U1
  obtain ⟨new1, k1, he1, hb1, hk1, hv1, h⟩ := h1
  simp only at he1 hb1 h
  rcases h with ⟨hr, hk, extra, hx⟩ | ⟨hr, hs, hu⟩
  · subst hr
    refine ⟨new1, k1, he1, hb1, hk1, hv1, Or.inl ⟨rfl, hk, ?_⟩⟩
    cases rU with
    | error e => exact ⟨extra, hx⟩
    | ok u =>
      cases u
      obtain ⟨more, hm⟩ := hext stU
      exact ⟨more ++ extra, by simp only [andThen_ok, andThen_error, hm, hx, List.append_assoc]⟩
  · subst hs hu
    cases rU with
    | error e => exact ⟨new1, k1, he1, hb1, hk1, hv1, Or.inr ⟨hr, rfl, rfl⟩⟩
    | ok u =>
      cases u
      simp only [andThen_ok]
      apply SimG.seq ⟨new1, k1, he1, hb1, hk1, hv1⟩
      intro b1 hb1' h0
      exact hf stR b1 rfl hb1' h0

theorem visitSt_unb (cfg : Cfg) (past : Bool) (path : Path) (n : DM) (s : S) (st : St) :
    visitSt cfg past path n s (unb st) = unb (visitSt cfg past path n s st) := by
  unfold visitSt; split <;> rfl

theorem simG_all (cfg : Cfg) (fuel : Nat) :
    (∀ past path n s st b, st.nodeBudget = some b → 0 ≤ b →
      SimG st b (walkAdv cfg fuel past path n s st) (walkAdv cfg fuel past path n s (unb st))) ∧
    (∀ path n s l lp st b, st.nodeBudget = some b → 0 ≤ b →
      SimG st b (walkChildren cfg fuel path n s l lp st) (walkChildren cfg fuel path n s l lp (unb st))) ∧
    (∀ past path n s ps v st b, st.nodeBudget = some b → 0 ≤ b →
      SimG st b (exploreChild cfg fuel past path n s ps v st) (exploreChild cfg fuel past path n s ps v (unb st))) := by
  induction fuel with
  | zero =>
    refine ⟨?_, ?_, ?_⟩
    · intro past path n s st b hb h0; rw [walkAdv_zero, walkAdv_zero]; exact SimG.refl hb h0 _ (by simp)
    · intro path n s l lp st b hb h0; rw [walkChildren_zero, walkChildren_zero]; exact SimG.refl hb h0 _ (by simp)
    · intro past path n s ps v st b hb h0; rw [exploreChild_zero, exploreChild_zero]
      exact SimG.refl hb h0 _ (by simp)
  | succ fuel ih =>
    obtain ⟨ihA, ihC, ihE⟩ := ih
    refine ⟨?_, ?_, ?_⟩
    · intro past path n s st b hb h0
      rw [walkAdv_succ, walkAdv_succ]
      have hU : checkNode (unb st) = .ok (unb st) := rfl
      rw [hU]
      by_cases hb0 : b ≤ 0
      · have hR : checkNode st = .error .budgetNode := by simp [checkNode, hb, hb0]
        rw [hR]
        simp only
        have hb' : b = 0 := by omega
        refine ⟨[], 0, rfl, by simpa [hb'] using hb, by simpa using h0, by simp, Or.inl ⟨rfl, by simp [hb'], ?_⟩⟩
        split
        · exact ⟨[], rfl⟩
        · simp only [visitSt_unb]
          obtain ⟨new, hnew⟩ := visitSt_events cfg past path n s st
          have hnew' : (unb (visitSt cfg past path n s st)).events = new ++ st.events := hnew
          split
          · exact ⟨new, hnew'⟩
          · obtain ⟨more, hm⟩ := events_extend_children cfg fuel path n s (childList n s) { past := past }
              (unb (visitSt cfg past path n s st))
            exact ⟨more ++ new, by rw [hm, hnew', List.append_assoc]⟩
      · have hR : checkNode st = .ok { st with nodeBudget := some (b - 1) } := by simp [checkNode, hb, hb0]
        rw [hR]
        simp only
        have hunb : unb { st with nodeBudget := some (b - 1) } = unb st := rfl
        rw [← hunb]
        simp only [visitSt_unb]
        split
        · have hstep1 : StepG st b { st with nodeBudget := some (b - 1) } :=
            ⟨[], 1, rfl, by simp, by simp; omega, by simp⟩
          apply SimG.seq hstep1
          intro b1 hb1 h01
          exact SimG.refl hb1 h01 _ (by simp)
        · have hstep2 : StepG st b (visitSt cfg past path n s { st with nodeBudget := some (b - 1) }) := by
            obtain ⟨m, r, hv⟩ := visitEvent_is_visit path n s
            unfold visitSt; split
            · exact ⟨[], 1, rfl, by simp, by simp; omega, by simp⟩
            · exact ⟨[visitEvent path n s], 1, rfl, by simp, by simp; omega, by simp [hv]⟩
          apply SimG.seq hstep2
          intro b1 hb1 h01
          split
          · exact SimG.refl hb1 h01 _ (by simp)
          · exact ihC _ _ _ _ _ _ b1 hb1 h01
    · intro path n s l lp st b hb h0
      cases l with
      | nil => rw [walkChildren_nil, walkChildren_nil]; exact SimG.refl hb h0 _ (by simp)
      | cons x rest =>
        obtain ⟨ps, v⟩ := x
        rw [walkChildren_cons, walkChildren_cons]
        split
        · exact ihC _ _ _ _ _ _ b hb h0
        · apply SimG.bind (fun st' => walkChildren cfg fuel path n s rest (loopStep cfg path lp ps).2 st')
            (ihE _ _ _ _ _ _ _ b hb h0)
          · intro st1 b1 _ hb1 h01
            exact ihC _ _ _ _ _ _ b1 hb1 h01
          · intro stU; exact events_extend_children ..
    · intro past path n s ps v st b hb h0
      rw [exploreChild_succ, exploreChild_succ]
      split
      · exact SimG.refl hb h0 _ (by simp)
      · exact SimG.refl hb h0 _ (by simp)
      · exact SimG.refl hb h0 _ (by simp)
      · rename_i sNext _
        unfold enterChild
        split
        · rename_i c
          rw [linkStep_unb]
          have hstep := linkStep_step cfg c st b hb h0
          obtain ⟨hnb, _, herr⟩ := linkStep_frame cfg c st
          generalize linkStep cfg c st = ls at hstep herr hnb
          obtain ⟨st', r⟩ := ls
          simp only at hstep herr hnb ⊢
          obtain ⟨new, he, hb', hk⟩ := hstep
          have hcount : visitCount new = 0 := by
            rw [hnb, hb] at hb'
            simp only [Option.some.injEq] at hb'
            omega
          apply SimG.seq ⟨new, 0, he, by simpa [hcount] using hb', by simpa using h0, by omega⟩
          intro b1 hb1 h01
          cases r with
          | error e =>
            have := herr e rfl
            exact SimG.refl hb1 h01 _ (by rcases this with h | h <;> simp [h])
          | ok o =>
            cases o with
            | none => exact SimG.refl hb1 h01 _ (by simp)
            | some blk => exact ihA _ _ _ _ _ b1 hb1 h01
        · rename_i hnl
          exact ihA _ _ _ _ _ b hb h0

theorem walk_budget_gen (cfg : Cfg) (fuel : Nat) (N : Int) (hN : 0 ≤ N)
    (lb : Option Int) (root : DM) (s : S) (U R : Result) (hU : U = walk cfg fuel none lb root s)
    (hR : R = walk cfg fuel (some N) lb root s) :
    ∃ k : Nat, R.st.nodeBudget = some (N - k) ∧ (k : Int) ≤ N ∧ (visitsOf R.events).length ≤ k ∧
    ((R.outcome = .error .budgetNode ∧ (k : Int) = N ∧ ∃ rest, U.events = R.events ++ rest)
     ∨ (R.outcome ≠ .error .budgetNode ∧ R.events = U.events ∧ R.outcome = U.outcome)) := by
  have h := (simG_all cfg fuel).1 false [] root s { nodeBudget := some N, linkBudget := lb } N rfl hN
  unfold walk at hU hR
  have e1 : unb { nodeBudget := some N, linkBudget := lb } = { nodeBudget := none, linkBudget := lb } := rfl
  rw [e1] at h
  generalize walkAdv cfg fuel false [] root s { nodeBudget := some N, linkBudget := lb } = wr at h hR
  generalize walkAdv cfg fuel false [] root s { nodeBudget := none, linkBudget := lb } = wu at h hU
  obtain ⟨stR, rR⟩ := wr
  obtain ⟨stU, rU⟩ := wu
  simp only at hU hR
  subst hU hR
  obtain ⟨newR, k, he, hb, hk, hv, h⟩ := h
  simp only [List.append_nil] at he h hb
  simp only
  have hlen : (visitsOf stR.events.reverse).length = visitCount newR := by
    rw [visitsOf_reverse, List.length_reverse, he]; rfl
  refine ⟨k, hb, hk, by rw [hlen]; exact hv, ?_⟩
  rcases h with ⟨hr, hk', extra, hx⟩ | ⟨hr, hs', hu⟩
  · left
    exact ⟨hr, hk', extra.reverse, by rw [hx, List.reverse_append]⟩
  · right
    exact ⟨hr, by rw [hs']; rfl, hu.symm⟩

end Walk
end Ipld
