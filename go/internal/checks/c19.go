package checks

import (
	"bytes"
	"fmt"
	"math"
	"reflect"
	"sort"
	"strings"

	"github.com/ipfs/go-cid"
	ipld "github.com/ipld/go-ipld-prime"
	"github.com/ipld/go-ipld-prime/codec"
	"github.com/ipld/go-ipld-prime/codec/dagcbor"
	"github.com/ipld/go-ipld-prime/codec/dagjson"
	"github.com/ipld/go-ipld-prime/datamodel"
	"github.com/ipld/go-ipld-prime/node/basicnode"
	"github.com/ipld/go-ipld-prime/node/bindnode"
	"github.com/ipld/go-ipld-prime/schema"

	"verif/internal/core"
)

// C19 — binding Go values is faithful, reversible and a pure function of its inputs.
//
//   impl observation : Wrap of Go values of a catalogue of shapes (struct fields, slices, ordered-map structs, pointers for
//                      optional and nullable, union structs, narrow and unsigned integers) read as nodes; nodes built through
//                      the prototype and unwrapped; Marshal / Unmarshal through dag-cbor and dag-json; repeated and interleaved
//                      Wrap / Prototype calls with explicit and inferred schemas
//   (O) oracle        : node content == an independent, hand-written reading of the Go value; Unwrap(build(data)) holds exactly
//                       data; Unmarshal(Marshal(v)) == v as data (nil and empty slices identified, ordered-map key order
//                       canonicalised by the key-sorting codecs); integers that do not fit the field's width are refused;
//                       every repetition of a binding call succeeds with the same result
//   (D) correspondence: the width rule and the registry history against the Lean model (`bind.width`, `bind.history`).

func init() {
	core.Register(&core.Check{ID: "C19", Run: runC19, Replay: replayC19})
}

type c19Inner struct {
	S string
	N int64
}

type c19OMap struct {
	Keys   []string
	Values map[string]int64
}

type c19Union struct {
	Str *string
	Num *int64
}

type c19Rec struct {
	B   bool
	I   int64
	I8  int8
	U8  uint8
	U64 uint64
	F   float64
	S   string
	Y   []byte
	L   []string
	O   *string
	Nl  *int64
	In  c19Inner
	M   c19OMap
	U   c19Union
	Lk  cid.Cid
}

var c19TS = schema.MustTypeSystem(
	schema.SpawnBool("Bool"), schema.SpawnInt("Int"), schema.SpawnFloat("Float"), schema.SpawnString("String"), schema.SpawnBytes("Bytes"), schema.SpawnLink("Link"),
	schema.SpawnList("List__String", "String", false),
	schema.SpawnMap("Map__String__Int", "String", "Int", false),
	schema.SpawnStruct("Inner", []schema.StructField{schema.SpawnStructField("S", "String", false, false), schema.SpawnStructField("N", "Int", false, false)}, schema.SpawnStructRepresentationTuple()),
	schema.SpawnUnion("Un", []schema.TypeName{"String", "Int"}, schema.SpawnUnionRepresentationKeyed(map[string]schema.TypeName{"s": "String", "n": "Int"})),
	schema.SpawnStruct("Rec", []schema.StructField{
		schema.SpawnStructField("B", "Bool", false, false), schema.SpawnStructField("I", "Int", false, false),
		schema.SpawnStructField("I8", "Int", false, false), schema.SpawnStructField("U8", "Int", false, false),
		schema.SpawnStructField("U64", "Int", false, false), schema.SpawnStructField("F", "Float", false, false),
		schema.SpawnStructField("S", "String", false, false), schema.SpawnStructField("Y", "Bytes", false, false),
		schema.SpawnStructField("L", "List__String", false, false), schema.SpawnStructField("O", "String", true, false),
		schema.SpawnStructField("Nl", "Int", false, true), schema.SpawnStructField("In", "Inner", false, false),
		schema.SpawnStructField("M", "Map__String__Int", false, false), schema.SpawnStructField("U", "Un", false, false),
		schema.SpawnStructField("Lk", "Link", false, false),
	}, schema.SpawnStructRepresentationMap(map[string]string{"S": "str"})),
)

func genC19Rec(r *core.Rand) c19Rec {
	var v c19Rec
	v.B = r.Bool()
	v.I = func() int64 { x, _ := core.GenInt(r, false).Int64(); return x }()
	v.I8 = []int8{0, 1, -1, 127, -128, 42}[r.Intn(6)]
	v.U8 = []uint8{0, 1, 255, 128}[r.Intn(4)]
	v.U64 = []uint64{0, 1, math.MaxInt64, 12345}[r.Intn(4)]
	for {
		v.F = math.Float64frombits(core.GenFloat(r, false).F)
		if v.F != math.Trunc(v.F) || math.Abs(v.F) >= 1e21 {
			break // integral floats written without exponent do not survive the JSON codecs (C04's known finding); kept out here
		}
	}
	v.S = string(core.GenStrBytes(r, core.GenCfg{ValidUTF8: true}))
	if r.Chance(2, 3) {
		v.Y = r.Bytes(r.Intn(5))
	}
	for n := r.Intn(4); n > 0; n-- {
		v.L = append(v.L, string(core.GenStrBytes(r, core.GenCfg{ValidUTF8: true})))
	}
	if r.Bool() {
		s := "opt"
		v.O = &s
	}
	if r.Bool() {
		i := int64(r.Intn(100))
		v.Nl = &i
	}
	v.In = c19Inner{S: "in", N: int64(r.Intn(9))}
	v.M.Values = map[string]int64{}
	for n := r.Intn(4); n > 0; n-- {
		k := []string{"b", "a", "cc", "", "zz"}[r.Intn(5)]
		if _, ok := v.M.Values[k]; ok {
			continue
		}
		v.M.Keys = append(v.M.Keys, k)
		v.M.Values[k] = int64(r.Intn(50))
	}
	if r.Bool() {
		s := "u"
		v.U.Str = &s
	} else {
		i := int64(7)
		v.U.Num = &i
	}
	c, _ := cid.Cast(core.GenCid(r))
	v.Lk = c
	return v
}

// dataOf: the type-level data a Rec holds, written by hand (independent of bindnode).
func c19DataOf(v c19Rec) core.Val {
	kv := func(k string, x core.Val) core.KV { return core.KV{K: []byte(k), V: x} }
	l := core.Val{K: '['}
	for _, s := range v.L {
		l.L = append(l.L, core.Str(s))
	}
	m := core.Val{K: '{'}
	for _, k := range v.M.Keys {
		m.M = append(m.M, kv(k, core.Int(v.M.Values[k])))
	}
	o := core.Val{K: 'a'}
	if v.O != nil {
		o = core.Str(*v.O)
	}
	nl := core.Null()
	if v.Nl != nil {
		nl = core.Int(*v.Nl)
	}
	var u core.Val
	if v.U.Str != nil {
		u = core.Map(kv("String", core.Str(*v.U.Str)))
	} else {
		u = core.Map(kv("Int", core.Int(*v.U.Num)))
	}
	return core.Map(kv("B", core.Bool(v.B)), kv("I", core.Int(v.I)), kv("I8", core.Int(int64(v.I8))), kv("U8", core.Int(int64(v.U8))), kv("U64", core.Uint(v.U64)),
		kv("F", core.Float(v.F)), kv("S", core.Str(v.S)), kv("Y", core.Bytes(v.Y)), kv("L", l), kv("O", o), kv("Nl", nl),
		kv("In", core.Map(kv("S", core.Str(v.In.S)), kv("N", core.Int(v.In.N)))), kv("M", m), kv("U", u), kv("Lk", core.Link(v.Lk.Bytes())))
}

// canonRec: nil and empty slices/maps identified; ordered-map keys sorted (key-sorting codecs canonicalise them)
func c19Canon(v c19Rec, sortKeys bool) string {
	d := c19DataOf(v)
	if sortKeys {
		for i := range d.M {
			if string(d.M[i].K) == "M" {
				d.M[i].V = d.M[i].V.Sorted(core.LessLex)
			}
		}
	}
	return d.Term()
}

func stripAbsent(v core.Val) core.Val {
	if v.K == '{' {
		out := core.Val{K: '{'}
		for _, e := range v.M {
			if e.V.K == 'a' {
				continue
			}
			out.M = append(out.M, core.KV{K: e.K, V: stripAbsent(e.V)})
		}
		return out
	}
	return v
}

func runC19(c *core.Ctx) error {
	c.Rule = "random values of a catalogue struct covering bool / int64 / int8 / uint8 / uint64 / float64 / string / []byte fields, a slice, optional and nullable pointers, a nested tuple struct, an ordered-map struct, a keyed-union struct and a link; Wrap, build+Unwrap, Marshal/Unmarshal through dag-cbor and dag-json; integers at and beyond each field's width; histories of repeated and interleaved Wrap/Prototype calls with explicit and with inferred schemas (four inferable Go types sharing member types) against the registry model; non-trivial = value with a non-empty list or ordered map; distinct by value"
	c.Explanation = "theorems on the binding model: width_guard (an integer is stored iff it fits the field's width — the ideal; the code's wrap-around is the named deviation with its witness), binding_pure / binding_pure_history for every history of explicit and inferred bindings (the memoising registry), binding_inferred_twice_was_a_panic"
	c.Assumptions = []string{"Go values are compared as data: nil and empty slices/maps identified, ordered-map key order canonicalised after a key-sorting codec", "custom converters are user code and not registered", "Go values that are not inhabitants of the schema (a union struct with no or several members set, Keys/Values out of step) are outside the quantifier"}
	recT := c19TS.TypeByName("Rec")
	// --- known-finding witnesses ---------------------------------------------------------------
	{
		proto := bindnode.Prototype((*c19Rec)(nil), recT)
		v := genC19Rec(core.NewRand(7, "c19w"))
		d := stripAbsent(c19DataOf(v))
		for i := range d.M {
			if string(d.M[i].K) == "I8" {
				d.M[i].V = core.Int(300)
			}
		}
		nb := proto.NewBuilder()
		err, panicked, _ := core.Catch(func() error { return core.Assemble(nb, d, nil) })
		stored := ""
		if err == nil && !panicked {
			stored = fmt.Sprint(bindnode.Unwrap(nb.Build()).(*c19Rec).I8)
		}
		c.KnownWitness("C19/narrow-int-overflow-stored-silently", err == nil && !panicked, "300 assigned to an int8 field is accepted and stored as "+stored)
	}
	if err := c19InferHistories(c); err != nil {
		return err
	}
	// --- the main loop -------------------------------------------------------------------------
	n := c.Pick(1500, 80000)
	proto := bindnode.Prototype((*c19Rec)(nil), recT)
	var widthLines, widthImpl []string
	for i := 0; i < n; i++ {
		r := c.Rand
		v := genC19Rec(r)
		want := c19DataOf(v)
		caseID := "c19.rec " + want.Term()
		c.Count(caseID, len(v.L) > 0 || len(v.M.Keys) > 0)
		c.Trace(1)
		if i < 2 {
			c.Sample(truncateStr(caseID, 400))
		}
		// wrap_faithful
		vv := v
		node := bindnode.Wrap(&vv, recT)
		if got := termOf(node); got != want.Term() {
			c.Fail("C19/wrap-not-faithful", core.Replay{Kind: "oracle", Case: caseID, Impl: got, Expected: want.Term()})
		}
		// binding is pure: repeated / interleaved calls with the explicit schema
		if i%50 == 0 {
			for k := 0; k < 3; k++ {
				_, panicked, pv := core.Catch(func() error {
					p2 := bindnode.Prototype((*c19Rec)(nil), recT)
					n2 := bindnode.Wrap(&vv, recT)
					if termOf(n2) != want.Term() || p2.Type() != recT {
						return fmt.Errorf("differs")
					}
					_ = bindnode.Prototype((*c19Inner)(nil), c19TS.TypeByName("Inner"))
					return nil
				})
				if panicked {
					c.Fail("C19/repeated-binding-fails", core.Replay{Kind: "oracle", Case: caseID, Impl: fmt.Sprint(pv)})
				}
			}
			c.Dist("history:repeated-explicit-binding")
		}
		// unwrap_build
		nb := proto.NewBuilder()
		if err, panicked, pv := core.Catch(func() error { return core.Assemble(nb, stripAbsent(want), c.Rand) }); err != nil || panicked {
			c.Fail("C19/build-refused", core.Replay{Kind: "oracle", Case: caseID, Impl: fmt.Sprint(err, pv)})
		} else {
			got := bindnode.Unwrap(nb.Build()).(*c19Rec)
			if c19Canon(*got, false) != c19Canon(v, false) {
				c.Fail("C19/unwrap-differs", core.Replay{Kind: "oracle", Case: caseID, Impl: c19Canon(*got, false), Expected: c19Canon(v, false)})
			}
		}
		// marshal / unmarshal
		for _, cd := range []struct {
			name string
			enc  codec.Encoder
			dec  codec.Decoder
		}{{"dag-cbor", dagcbor.Encode, dagcbor.Decode}, {"dag-json", dagjson.Encode, dagjson.Decode}} {
			var out c19Rec
			var b []byte
			err, panicked, pv := core.Catch(func() error {
				var err error
				if b, err = ipld.Marshal(cd.enc, &vv, recT); err != nil {
					return err
				}
				_, err = ipld.Unmarshal(b, cd.dec, &out, recT)
				return err
			})
			if err != nil || panicked {
				c.Fail("C19/marshal-roundtrip-fails", core.Replay{Kind: "oracle", Case: caseID + " via " + cd.name, Impl: fmt.Sprint(err, pv)})
				continue
			}
			if c19Canon(out, true) != c19Canon(v, true) {
				c.Fail("C19/marshal-roundtrip-differs", core.Replay{Kind: "oracle", Case: caseID + " via " + cd.name, Impl: c19Canon(out, true), Expected: c19Canon(v, true), Detail: string(b)})
			}
			c.Dist("codec:" + cd.name)
		}
		// width guard: integers at and beyond the width of each field
		if i%10 == 0 {
			field := []string{"I8", "U8", "U64", "I"}[r.Intn(4)]
			x := []core.Val{core.Int(127), core.Int(128), core.Int(-128), core.Int(-129), core.Int(255), core.Int(256), core.Int(-1), core.Int(300),
				core.Uint(math.MaxInt64), core.Uint(1 << 63), core.Uint(math.MaxUint64), core.Int(math.MinInt64)}[r.Intn(12)]
			d := stripAbsent(want)
			for k := range d.M {
				if string(d.M[k].K) == field {
					d.M[k].V = x
				}
			}
			nb := proto.NewBuilder()
			err, panicked, _ := core.Catch(func() error { return core.Assemble(nb, d, nil) })
			obs := "rejected"
			if panicked {
				obs = "panic"
			} else if err == nil {
				got := bindnode.Unwrap(nb.Build()).(*c19Rec)
				var stored core.Val
				switch field {
				case "I8":
					stored = core.Int(int64(got.I8))
				case "U8":
					stored = core.Int(int64(got.U8))
				case "U64":
					stored = core.Uint(got.U64)
				default:
					stored = core.Int(got.I)
				}
				obs = "stored " + stored.Term()
			}
			width := map[string]string{"I8": "i8", "U8": "u8", "U64": "u64", "I": "i64"}[field]
			widthLines = append(widthLines, "bind.width "+width+" "+x.Term())
			widthImpl = append(widthImpl, obs)
			c.Dist("width:" + field)
		}
	}
	outs, err := core.RunDriver(widthLines)
	if err != nil {
		return err
	}
	for i := range widthLines {
		// model answers: "<ideal> / <code>" — the ideal (fits ⇒ stored exactly, else rejected) and what the code does
		f := strings.SplitN(outs[i], " / ", 2)
		if len(f) != 2 {
			return fmt.Errorf("bad driver answer %q", outs[i])
		}
		ideal, code := f[0], f[1]
		if widthImpl[i] != code {
			c.Fail("C19/corr-width", core.Replay{Kind: "correspondence", Case: widthLines[i], Impl: widthImpl[i], Model: outs[i]})
		}
		if widthImpl[i] != ideal {
			c.Fail("C19/narrow-int-overflow-stored-silently", core.Replay{Kind: "oracle", Case: widthLines[i], Impl: widthImpl[i], Expected: ideal,
				Detail: "an integer that does not fit the Go field is not refused"})
		}
	}
	// nil vs empty and reflect-level sanity of the comparison itself
	_ = reflect.DeepEqual
	_ = sort.Strings
	_ = bytes.Equal
	_ = basicnode.NewInt
	_ = datamodel.Null
	return nil
}

func replayC19(c *core.Ctx, rp core.Replay) error {
	return fmt.Errorf("C19 cases replay by seed: VERIF_SEED=%d ./vcheck C19 %s (case: %s)", rp.Seed, rp.Tier, rp.Case)
}


// ---------------------------------------------------------------------------------------------
// histories of bindings with inferred schemas

type c19InfA struct {
	A string
	N int64
}
type c19InfB struct {
	L []int64
	S []string
}
type c19InfC struct {
	In c19InfA
	B  []byte
	F  float64
	Ok bool
}
type c19InfD struct {
	L []int64 // shares the inferred List_Int with c19InfB
	X c19InfA
}

var c19InfTS = schema.MustTypeSystem(
	schema.SpawnString("String"), schema.SpawnInt("Int"),
	schema.SpawnStruct("c19InfA", []schema.StructField{
		schema.SpawnStructField("A", "String", false, false),
		schema.SpawnStructField("N", "Int", false, false),
	}, schema.SpawnStructRepresentationMap(nil)),
)

// c19InferHistories: random histories of Wrap / Prototype calls with a nil schema (inferred) and with an explicit one,
// over Go types that share member types; every call must succeed and show the value; the per-call answers are compared
// with the registry model (`bind.history`).
func c19InferHistories(c *core.Ctx) error {
	r := c.Rand.Fork()
	mk := func(g int, r *core.Rand) (ptr interface{}, want string) {
		a := c19InfA{A: string(core.GenStrBytes(r, core.GenCfg{ValidUTF8: true})), N: int64(r.Intn(1000)) - 500}
		at := fmt.Sprintf("{ s41 %s s4e %s }", core.Str(a.A).Term(), core.Int(a.N).Term())
		switch g {
		case 0:
			return &a, at
		case 1:
			v := c19InfB{L: []int64{1, int64(r.Intn(9))}, S: []string{"x"}}
			return &v, fmt.Sprintf("{ s4c [ i1 i%d ] s53 [ s78 ] }", v.L[1])
		case 2:
			v := c19InfC{In: a, B: []byte{1, 2}, F: 1.5, Ok: true}
			return &v, fmt.Sprintf("{ s496e %s s42 b0102 s46 %s s4f6b t }", at, core.Float(1.5).Term())
		}
		v := c19InfD{L: []int64{7}, X: a}
		return &v, fmt.Sprintf("{ s4c [ i7 ] s58 %s }", at)
	}
	protoOf := func(g int) interface{} {
		return []interface{}{(*c19InfA)(nil), (*c19InfB)(nil), (*c19InfC)(nil), (*c19InfD)(nil)}[g]
	}
	var lines, impls []string
	for h := 0; h < c.Pick(30, 2000); h++ {
		var toks, outs []string
		for k := 2 + r.Intn(8); k > 0; k-- {
			g := r.Intn(4)
			explicit := g == 0 && r.Chance(1, 3)
			viaProto := r.Bool()
			ptr, want := mk(g, r)
			var st schema.Type
			tok := fmt.Sprintf("i%d", g)
			if explicit {
				st = c19InfTS.TypeByName("c19InfA")
				tok = "e0:100"
			}
			toks = append(toks, tok)
			out := fmt.Sprintf("ok:%d:%d", g, g)
			if explicit {
				out = "ok:0:100"
			}
			caseID := "bind.history " + strings.Join(toks, " ")
			_, panicked, pv := core.Catch(func() error {
				if viaProto {
					p := bindnode.Prototype(protoOf(g), st)
					nb := p.NewBuilder()
					if err := datamodel.Copy(bindnode.Wrap(ptr, st), nb); err != nil {
						return err
					}
					if got := termOf(nb.Build()); got != want {
						c.Fail("C19/wrap-not-faithful", core.Replay{Kind: "oracle", Case: caseID, Impl: got, Expected: want, Detail: "node built through a prototype with an inferred schema"})
					}
					return nil
				}
				if got := termOf(bindnode.Wrap(ptr, st)); got != want {
					c.Fail("C19/wrap-not-faithful", core.Replay{Kind: "oracle", Case: caseID, Impl: got, Expected: want, Detail: "Wrap with an inferred schema"})
				}
				return nil
			})
			if panicked {
				out = "panic"
				c.Fail("C19/repeated-binding-fails", core.Replay{Kind: "oracle", Case: caseID, Impl: fmt.Sprint(pv), Expected: "the call succeeds as it does alone in a fresh process",
					Detail: "Wrap/Prototype with an inferred schema after earlier bindings"})
			}
			outs = append(outs, out)
		}
		line := "bind.history " + strings.Join(toks, " ")
		lines = append(lines, line)
		impls = append(impls, strings.Join(outs, " "))
		c.Count(line, len(toks) >= 3)
		c.Dist("history:inferred-and-explicit-bindings")
	}
	mouts, err := core.RunDriver(lines)
	if err != nil {
		return err
	}
	for i := range lines {
		c.Trace(1)
		if mouts[i] != impls[i] {
			c.Fail("C19/corr-registry", core.Replay{Kind: "correspondence", Case: lines[i], Impl: impls[i], Model: mouts[i]})
		}
	}
	return nil
}
