/-
  Data-model values (DESIGN §3).  Core Lean only.

  One mutual family (not nested) so that structural recursion and mutual induction go through.
  Strings are byte lists (Go strings are arbitrary bytes), ints are unbounded `Int` with an explicit
  range predicate, floats are IEEE-754 bit patterns, links are CID byte strings, map entries are an
  ordered list (insertion order is observable in go-ipld-prime).
-/
namespace Ipld

abbrev Bytes := List UInt8

mutual
inductive DM where
  | null
  | bool (b : Bool)
  | int (i : Int)
  | float (bits : UInt64)
  | str (s : Bytes)
  | bytes (b : Bytes)
  | link (cid : Bytes)
  | list (xs : DMs)
  | map (es : DMKVs)
  deriving DecidableEq, Repr, Inhabited
inductive DMs where
  | nil
  | cons (x : DM) (xs : DMs)
  deriving DecidableEq, Repr, Inhabited
inductive DMKVs where
  | nil
  | cons (k : Bytes) (v : DM) (es : DMKVs)
  deriving DecidableEq, Repr, Inhabited
end

def DMs.toList : DMs → List DM
  | .nil => []
  | .cons x xs => x :: xs.toList

def DMs.ofList : List DM → DMs
  | [] => .nil
  | x :: xs => .cons x (DMs.ofList xs)

def DMKVs.toList : DMKVs → List (Bytes × DM)
  | .nil => []
  | .cons k v es => (k, v) :: es.toList

def DMKVs.ofList : List (Bytes × DM) → DMKVs
  | [] => .nil
  | (k, v) :: es => .cons k v (DMKVs.ofList es)

@[simp] theorem DMs.toList_ofList (l : List DM) : (DMs.ofList l).toList = l := by
  induction l with
  | nil => rfl
  | cons x xs ih => simp [DMs.ofList, DMs.toList, ih]

@[simp] theorem DMs.ofList_toList : (l : DMs) → DMs.ofList l.toList = l
  | .nil => rfl
  | .cons x xs => by simp [DMs.ofList, DMs.toList, DMs.ofList_toList xs]

@[simp] theorem DMKVs.toList_ofList (l : List (Bytes × DM)) : (DMKVs.ofList l).toList = l := by
  induction l with
  | nil => rfl
  | cons x xs ih => obtain ⟨k, v⟩ := x; simp [DMKVs.ofList, DMKVs.toList, ih]

@[simp] theorem DMKVs.ofList_toList : (l : DMKVs) → DMKVs.ofList l.toList = l
  | .nil => rfl
  | .cons k v es => by simp [DMKVs.ofList, DMKVs.toList, DMKVs.ofList_toList es]

def DMs.length (l : DMs) : Nat := l.toList.length
def DMKVs.length (l : DMKVs) : Nat := l.toList.length
def DMKVs.keys (l : DMKVs) : List Bytes := l.toList.map (·.1)

/-- Kinds of the IPLD data model (datamodel.Kind). -/
inductive Kind where
  | null | bool | int | float | str | bytes | link | list | map
  deriving DecidableEq, Repr, Inhabited

def DM.kind : DM → Kind
  | .null => .null | .bool _ => .bool | .int _ => .int | .float _ => .float
  | .str _ => .str | .bytes _ => .bytes | .link _ => .link | .list _ => .list | .map _ => .map

/-- The integer range Go nodes can hold: int64 plus the `UintNode` extension up to 2^64-1. -/
def intInRange (i : Int) : Prop := -(2:Int)^63 ≤ i ∧ i < (2:Int)^64
instance (i : Int) : Decidable (intInRange i) := by unfold intInRange; exact inferInstance

mutual
/-- No map anywhere in the value carries the same key twice. -/
def DM.noDupKeys : DM → Bool
  | .list xs => xs.noDupKeys
  | .map es => es.noDupKeysIn [] 
  | _ => true
def DMs.noDupKeys : DMs → Bool
  | .nil => true
  | .cons x xs => x.noDupKeys && xs.noDupKeys
/-- `seen` accumulates the keys to the left. -/
def DMKVs.noDupKeysIn : List Bytes → DMKVs → Bool
  | _, .nil => true
  | seen, .cons k v es => !seen.contains k && v.noDupKeys && es.noDupKeysIn (k :: seen)
end

mutual
/-- Prop version of "no map anywhere carries a key twice" (the invariant C12 proves of every built node). -/
def DM.NoDup : DM → Prop
  | .list xs => xs.NoDup
  | .map es => es.keys.Nodup ∧ es.NoDupVals
  | _ => True
def DMs.NoDup : DMs → Prop
  | .nil => True
  | .cons x xs => x.NoDup ∧ xs.NoDup
def DMKVs.NoDupVals : DMKVs → Prop
  | .nil => True
  | .cons _ v es => v.NoDup ∧ es.NoDupVals
end

mutual
def DM.depth : DM → Nat
  | .list xs => xs.depth + 1
  | .map es => es.depth + 1
  | _ => 0
def DMs.depth : DMs → Nat
  | .nil => 0
  | .cons x xs => max x.depth xs.depth
def DMKVs.depth : DMKVs → Nat
  | .nil => 0
  | .cons _ v es => max v.depth es.depth
end

mutual
def DM.size : DM → Nat
  | .list xs => xs.size + 1
  | .map es => es.size + 1
  | _ => 1
def DMs.size : DMs → Nat
  | .nil => 0
  | .cons x xs => x.size + xs.size
def DMKVs.size : DMKVs → Nat
  | .nil => 0
  | .cons _ v es => v.size + 1 + es.size
end

end Ipld
