package main

func factGenFiles() []genFile { return nil }
