/-
  C10 (walk part) — the walk and selector compilation never reach a Go panic.
  Property theorems only.
-/
import IpldModel.Lemmas.Walk
import IpldModel.Lemmas.WalkExamples
namespace Ipld.Props.C10walk
open Ipld Ipld.Sel Ipld.Walk

/-- `Explore` of anything but a bare recursive edge never panics. -/
theorem explore_no_panic (s : S) (h : s ≠ .edge) (n : DM) (p : Seg) : explore s n p ≠ .error .panic :=
  Sel.explore_no_panic s h n p

/-- A union skips its bare-edge members, so exploring the member list never panics. -/
theorem exploreList_no_panic (ms : SList) (n : DM) (p : Seg) : exploreList ms n p ≠ .error .panic :=
  Sel.exploreList_no_panic ms n p

/-- `walkAdv` never ends in a panic, whatever the selector, node, configuration and state
    (a bare edge has no interests, so its `Explore` is never called). -/
theorem walk_no_panic (cfg : Cfg) (fuel : Nat) (past : Bool) (path : Path) (n : DM) (s : S) (st : St) :
    (walkAdv cfg fuel past path n s st).2 ≠ .error .panic :=
  (no_panic_all cfg fuel).1 past path n s st

/-- The per-node loop never panics, given it runs for a selector that is not a bare edge or over no children
    (the only way `walkAdv` calls it). -/
theorem walkChildren_no_panic (cfg : Cfg) (fuel : Nat) (path : Path) (n : DM) (s : S) (l : List (Seg × DM))
    (lp : Loop) (st : St) (h : s ≠ .edge ∨ l = []) :
    (walkChildren cfg fuel path n s l lp st).2 ≠ .error .panic :=
  (no_panic_all cfg fuel).2.1 path n s l lp st h

/-- Exploring one child never panics unless the selector is a bare edge. -/
theorem exploreChild_no_panic (cfg : Cfg) (fuel : Nat) (past : Bool) (path : Path) (n : DM) (s : S) (ps : Seg)
    (v : DM) (st : St) (h : s ≠ .edge) :
    (exploreChild cfg fuel past path n s ps v st).2 ≠ .error .panic :=
  (no_panic_all cfg fuel).2.2 past path n s ps v st h

/-- The hypothesis of `exploreChild_no_panic` cannot be dropped: on a bare edge `Explore` is the Go panic. -/
theorem exploreChild_edge_panics (cfg : Cfg) (fuel : Nat) (past : Bool) (path : Path) (n : DM) (ps : Seg)
    (v : DM) (st : St) : (exploreChild cfg (fuel + 1) past path n .edge ps v st).2 = .error .panic := by
  rw [exploreChild_succ]; rfl

/-- The whole walk never panics. -/
theorem walk_outcome_no_panic (cfg : Cfg) (fuel : Nat) (nb lb : Option Int) (root : DM) (s : S) :
    (walk cfg fuel nb lb root s).outcome ≠ .error .panic := by
  unfold walk
  exact walk_no_panic cfg fuel false [] root s _

/-- Selector compilation rejects or succeeds; it never panics. -/
theorem compile_no_panic (d : DM) : compileSelector d ≠ .error .panic :=
  compileSelector_no_panic d

section Examples
open Ipld.Walk.Ex
/-- the explore-everything selector compiles from its spec (to `Ex.selAll`: same walk) -/
example : (compileSelector selAllSpec).toBool = true := by decide +kernel
example : (compileSelector selAllSpec).toOption.map (fun s => (walk Ex.cfg 20 none none Ex.root s).events)
    = some (walk Ex.cfg 20 none none Ex.root selAll).events := by decide +kernel
/-- a bare edge outside a recursion is rejected, not a panic -/
example : (match compileSelector (.map (.cons (key "@") (.map .nil) .nil)) with
    | .error .reject => true | _ => false) = true := by decide +kernel
/-- walking with a bare edge selector (reachable as the child selector of `all(edge)`) visits and stops -/
example : (walk Ex.cfg 5 none none Ex.root .edge).outcome = .ok () := by decide +kernel
end Examples

end Ipld.Props.C10walk
