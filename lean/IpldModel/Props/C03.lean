/-
  C03 — DAG-CBOR decoding is strict and denotes exactly the bytes it accepts.
  Property theorems only.  See DESIGN §5 C03.
-/
import IpldModel.Model.Cbor
import IpldModel.Spec.CborDenotes
import IpldModel.Spec.CborLimits
import IpldModel.Lemmas.CborDecComplete
import IpldModel.Lemmas.CborDecSound
import IpldModel.Lemmas.CborCanon
import IpldModel.Lemmas.CborCheck
import IpldModel.Lemmas.CborNegWrap
import IpldModel.Lemmas.CborReject
import IpldModel.Lemmas.CborExamples
import IpldModel.Generated.CborConsts
namespace Ipld.Props.C03
open Ipld Ipld.Cbor Ipld.Spec

/-! ## The decoder accepts exactly what the Spec says, and reads it as the Spec says -/

/-- Completeness: a byte string that denotes `v` decodes to `v`, under every configuration (strict or
    relaxed, with or without the `negWrap` deviation), provided `v` fits the configured limits.
    `hB` says the budget is a Go `int64`; it excludes only lists/maps with 2^63 or more entries. -/
theorem decode_complete (cfg : DecCfg) (v : DM) (bs : Bytes) (hB : cfg.budget < 2 ^ 63) :
    Denotes v bs → WithinLimits cfg v → decode cfg bs = .ok v :=
  fun hd hl => decode_complete_aux cfg v bs hd hl hB

/-- Writing a value in the entry order it has yields bytes that denote it. -/
theorem denotes_encOrdered (v : DM) :
    v.NoDup → encodable dagcborEnc v = true → finiteFloats v → Denotes v (encOrdered v) :=
  Cbor.denotes_encOrdered v

/-- Round trip: decoding what the encoder wrote gives the value back, in canonical entry order. -/
theorem decode_encode (cfg : DecCfg) (v : DM) (hB : cfg.budget < 2 ^ 63) :
    v.NoDup → encodable dagcborEnc v = true → finiteFloats v → WithinLimits cfg (canon v) →
    decode cfg (enc dagcborEnc v) = .ok (canon v) :=
  fun hn he hf hl => decode_encode_aux cfg v hn he hf hl hB

/-- The limits can equally be stated on the value itself: canonical reordering changes none of them. -/
theorem withinLimits_canon (cfg : DecCfg) (v : DM) : WithinLimits cfg (canon v) ↔ WithinLimits cfg v :=
  Cbor.withinLimits_canon cfg v

/-- Soundness: whatever the strict decoder (with the K1 deviation removed) accepts as a whole input
    denotes the value it returns.  No limit enters: limits only make the decoder refuse more. -/
theorem decode_sound (cfg : DecCfg) (bs : Bytes) (v : DM) :
    decode cfg bs = .ok v → cfg.relaxed = false → cfg.negWrap = false → cfg.dontParseBeyondEnd = false →
    Denotes v bs :=
  fun h hr hw hp => decode_sound_aux cfg bs v h hr hw hp

/-- Soundness and completeness together: for a value within the limits, the strict decoder (K1
    removed) returns `v` on `bs` iff `bs` denotes `v`. -/
theorem decode_iff_denotes (cfg : DecCfg) (bs : Bytes) (v : DM) (hB : cfg.budget < 2 ^ 63)
    (hr : cfg.relaxed = false) (hw : cfg.negWrap = false) (hp : cfg.dontParseBeyondEnd = false)
    (hl : WithinLimits cfg v) : decode cfg bs = .ok v ↔ Denotes v bs :=
  ⟨fun h => decode_sound cfg bs v h hr hw hp, fun h => decode_complete cfg v bs hB h hl⟩

/-! Hypotheses are satisfiable: a map (keys out of canonical order) holding a link and a list of
    ints, a string, a float, null and bytes. -/

example : exValue.NoDup := by simp [exValue, DM.NoDup, DMKVs.NoDupVals, DMs.NoDup, DMKVs.keys, DMKVs.toList]
example : encodable dagcborEnc exValue = true := by decide
example : finiteFloats exValue := by
  simp [exValue, finiteFloats, finiteFloatsKVs, finiteFloatsList]; decide
example : WithinLimits dagcborDec exValue := by unfold WithinLimits; decide
example : WithinLimits dagcborDec (canon exValue) := by unfold WithinLimits; decide
example : Denotes exValue exBytes := (Cbor.denotesCheck_iff _ _).mp (by decide)
example : canon exValue ≠ exValue := by decide

/-- `decode_complete` applies: the non-canonical bytes decode to the value in the order written. -/
example : decode dagcborDec exBytes = .ok exValue :=
  decode_complete dagcborDec exValue exBytes (by decide) ((Cbor.denotesCheck_iff _ _).mp (by decide))
    (by unfold WithinLimits; decide)

/-- `decode_encode` applies: the round trip returns the canonically ordered value. -/
example : decode dagcborDec (enc dagcborEnc exValue) = .ok (canon exValue) :=
  decode_encode dagcborDec exValue (by decide)
    (by simp [exValue, DM.NoDup, DMKVs.NoDupVals, DMs.NoDup, DMKVs.keys, DMKVs.toList]) (by decide)
    (by simp [exValue, finiteFloats, finiteFloatsKVs, finiteFloatsList]; decide)
    (by unfold WithinLimits; decide)

/-! ## K1: the `negWrap` deviation is the only one -/

/-- Removing the uint64 wrap-around of refmt's `decodeNegInt` changes the outcome of a decode in one
    way only: the repaired decoder may stop with `negOverflow` where the code-faithful one goes on.
    (Holds for every outcome of the faithful run, not just success.) -/
theorem negWrap_only_deviation' (cfg : DecCfg) (bs : Bytes) :
    decode { cfg with negWrap := false } bs = decode cfg bs
    ∨ decode { cfg with negWrap := false } bs = .error .negOverflow :=
  decode_dev cfg bs

theorem negWrap_only_deviation (cfg : DecCfg) (bs : Bytes) (v : DM) :
    decode cfg bs = .ok v →
    decode { cfg with negWrap := false } bs = .ok v
    ∨ decode { cfg with negWrap := false } bs = .error .negOverflow := by
  intro h
  rcases decode_dev cfg bs with e | e
  · left; rw [e, h]
  · right; exact e

/-- Conversely, everything the repaired decoder accepts the code-faithful one accepts identically. -/
theorem negWrap_conservative (cfg : DecCfg) (bs : Bytes) (v : DM) :
    decode { cfg with negWrap := false } bs = .ok v → decode cfg bs = .ok v := by
  intro h
  rcases decode_dev cfg bs with e | e
  · rw [← e, h]
  · rw [e] at h; cases h

/-! ## The executable verifier used as test oracle decides `Denotes` -/

theorem denotesCheck_sound (v : DM) (bs : Bytes) : denotesCheck v bs = true → Denotes v bs :=
  Cbor.denotesCheck_sound v bs

theorem denotesCheck_iff (v : DM) (bs : Bytes) : denotesCheck v bs = true ↔ Denotes v bs :=
  Cbor.denotesCheck_iff v bs

/-! ## Rejections at the top level, for *every* continuation `rest` of the input -/

/-- Indefinite-length heads are refused in strict and in relaxed mode, whatever follows. -/
theorem reject_indefinite (cfg : DecCfg) (b : UInt8) (rest : Bytes)
    (hb : b = 0x5f ∨ b = 0x7f ∨ b = 0x9f ∨ b = 0xbf) :
    decode cfg (b :: rest) = .error .indefinite := by
  rcases hb with rfl | rfl | rfl | rfl <;> simp [decode, decItem, bind, Except.bind]

/-- A one-byte argument below 24 is non-minimal: refused in strict mode (unsigned integer head). -/
theorem reject_nonminimal_w1_uint (cfg : DecCfg) (hs : cfg.relaxed = false) (n : UInt8) (rest : Bytes)
    (hn : n.toNat < 24) : decode cfg (0x18 :: n :: rest) = .error .nonMinimal := by
  simp [decode, decItem, readArg, take?, beVal, hs, hn, bind, Except.bind]

/-- … and so for every major type 0..6 (`b0` is any first byte with additional info 24). -/
theorem reject_nonminimal_w1 (cfg : DecCfg) (hs : cfg.relaxed = false) (b0 n : UInt8) (rest : Bytes)
    (hm : b0.toNat / 32 ≤ 6) (hi : b0.toNat % 32 = 24) (hn : n.toNat < 24) :
    decode cfg (b0 :: n :: rest) = .error .nonMinimal := by
  apply decode_error_of_decItem 0 (by simp)
  intro f _
  apply decItem_readArg_err _ _ _ _ _ _ _ _ _ hm (by omega) (fun _ => rfl)
  simp [hs, hi, readArg, take?, beVal, hn, bind, Except.bind]

/-- A two-byte argument below 256 (first argument byte zero) is non-minimal, every major type 0..6. -/
theorem reject_nonminimal_w2 (cfg : DecCfg) (hs : cfg.relaxed = false) (b0 a : UInt8) (rest : Bytes)
    (hm : b0.toNat / 32 ≤ 6) (hi : b0.toNat % 32 = 25) :
    decode cfg (b0 :: 0 :: a :: rest) = .error .nonMinimal := by
  apply decode_error_of_decItem 0 (by simp)
  intro f _
  apply decItem_readArg_err _ _ _ _ _ _ _ _ _ hm (by omega) (fun _ => rfl)
  rw [hs, hi]
  exact readArg_nonminimal 25 2 256 (by simp) [0, a] rfl (by have := a.toNat_lt; simp [beVal]; omega) rest

/-- A four-byte argument below 65536 (first two argument bytes zero) is non-minimal. -/
theorem reject_nonminimal_w4 (cfg : DecCfg) (hs : cfg.relaxed = false) (b0 a1 a2 : UInt8) (rest : Bytes)
    (hm : b0.toNat / 32 ≤ 6) (hi : b0.toNat % 32 = 26) :
    decode cfg (b0 :: 0 :: 0 :: a1 :: a2 :: rest) = .error .nonMinimal := by
  apply decode_error_of_decItem 0 (by simp)
  intro f _
  apply decItem_readArg_err _ _ _ _ _ _ _ _ _ hm (by omega) (fun _ => rfl)
  rw [hs, hi]
  exact readArg_nonminimal 26 4 65536 (by simp) [0, 0, a1, a2] rfl
    (by have := a1.toNat_lt; have := a2.toNat_lt; simp [beVal]; omega) rest

/-- An eight-byte argument below 2^32 (first four argument bytes zero) is non-minimal. -/
theorem reject_nonminimal_w8 (cfg : DecCfg) (hs : cfg.relaxed = false) (b0 a1 a2 a3 a4 : UInt8) (rest : Bytes)
    (hm : b0.toNat / 32 ≤ 6) (hi : b0.toNat % 32 = 27) :
    decode cfg (b0 :: 0 :: 0 :: 0 :: 0 :: a1 :: a2 :: a3 :: a4 :: rest) = .error .nonMinimal := by
  apply decode_error_of_decItem 0 (by simp)
  intro f _
  apply decItem_readArg_err _ _ _ _ _ _ _ _ _ hm (by omega) (fun _ => rfl)
  rw [hs, hi]
  exact readArg_nonminimal 27 8 4294967296 (by simp) [0, 0, 0, 0, a1, a2, a3, a4] rfl
    (by have := a1.toNat_lt; have := a2.toNat_lt; have := a3.toNat_lt; have := a4.toNat_lt
        simp [beVal]; omega) rest

/-! ### NaN and infinities (strict mode), every bit pattern -/

/-- Every 64-bit NaN pattern is refused. -/
theorem reject_nan_f64 (cfg : DecCfg) (hs : cfg.relaxed = false) (a rest : Bytes) (ha : a.length = 8)
    (hn : f64IsNaN (beVal a) = true) : decode cfg (0xfb :: (a ++ rest)) = .error .nan := by
  apply decode_error_of_decItem 0 (by simp)
  intro f _
  rw [decItem_f64 _ _ _ _ _ _ _ _ (by decide), take?_append' 8 _ _ ha]
  simp [bind, Except.bind, checkFloat, hs, hn]

/-- Both 64-bit infinities are refused. -/
theorem reject_inf_f64 (cfg : DecCfg) (hs : cfg.relaxed = false) (a rest : Bytes) (ha : a.length = 8)
    (hn : f64IsInf (beVal a) = true) : decode cfg (0xfb :: (a ++ rest)) = .error .inf := by
  apply decode_error_of_decItem 0 (by simp)
  intro f _
  rw [decItem_f64 _ _ _ _ _ _ _ _ (by decide), take?_append' 8 _ _ ha]
  simp [bind, Except.bind, checkFloat, hs, hn, not_nan_of_inf _ hn]

/-- Every 32-bit pattern that widens to a NaN is refused. -/
theorem reject_nan_f32 (cfg : DecCfg) (hs : cfg.relaxed = false) (a rest : Bytes) (ha : a.length = 4)
    (hn : f64IsNaN (f32to64 (beVal a)) = true) : decode cfg (0xfa :: (a ++ rest)) = .error .nan := by
  apply decode_error_of_decItem 0 (by simp)
  intro f _
  rw [decItem_f32 _ _ _ _ _ _ _ _ (by decide), take?_append' 4 _ _ ha]
  simp [bind, Except.bind, checkFloat, hs, hn]

theorem reject_inf_f32 (cfg : DecCfg) (hs : cfg.relaxed = false) (a rest : Bytes) (ha : a.length = 4)
    (hn : f64IsInf (f32to64 (beVal a)) = true) : decode cfg (0xfa :: (a ++ rest)) = .error .inf := by
  apply decode_error_of_decItem 0 (by simp)
  intro f _
  rw [decItem_f32 _ _ _ _ _ _ _ _ (by decide), take?_append' 4 _ _ ha]
  simp [bind, Except.bind, checkFloat, hs, hn, not_nan_of_inf _ hn]

/-- Every 16-bit pattern that widens to a NaN is refused. -/
theorem reject_nan_f16 (cfg : DecCfg) (hs : cfg.relaxed = false) (a rest : Bytes) (ha : a.length = 2)
    (hn : f64IsNaN (f16to64 (beVal a)) = true) : decode cfg (0xf9 :: (a ++ rest)) = .error .nan := by
  apply decode_error_of_decItem 0 (by simp)
  intro f _
  rw [decItem_f16 _ _ _ _ _ _ _ _ (by decide), take?_append' 2 _ _ ha]
  simp [bind, Except.bind, checkFloat, hs, hn]

theorem reject_inf_f16 (cfg : DecCfg) (hs : cfg.relaxed = false) (a rest : Bytes) (ha : a.length = 2)
    (hn : f64IsInf (f16to64 (beVal a)) = true) : decode cfg (0xf9 :: (a ++ rest)) = .error .inf := by
  apply decode_error_of_decItem 0 (by simp)
  intro f _
  rw [decItem_f16 _ _ _ _ _ _ _ _ (by decide), take?_append' 2 _ _ ha]
  simp [bind, Except.bind, checkFloat, hs, hn, not_nan_of_inf _ hn]

/-- The canonical quiet NaN and ±Inf of each width, whatever follows. -/
example (rest : Bytes) : decode dagcborDec (0xf9 :: 0x7e :: 0x00 :: rest) = .error .nan :=
  reject_nan_f16 dagcborDec rfl [0x7e, 0x00] rest rfl (by decide)
example (rest : Bytes) : decode dagcborDec (0xf9 :: 0x7c :: 0x00 :: rest) = .error .inf :=
  reject_inf_f16 dagcborDec rfl [0x7c, 0x00] rest rfl (by decide)
example (rest : Bytes) : decode dagcborDec (0xf9 :: 0xfc :: 0x00 :: rest) = .error .inf :=
  reject_inf_f16 dagcborDec rfl [0xfc, 0x00] rest rfl (by decide)
example (rest : Bytes) : decode dagcborDec (0xfa :: 0x7f :: 0xc0 :: 0x00 :: 0x00 :: rest) = .error .nan :=
  reject_nan_f32 dagcborDec rfl [0x7f, 0xc0, 0x00, 0x00] rest rfl (by decide)
example (rest : Bytes) : decode dagcborDec (0xfa :: 0x7f :: 0x80 :: 0x00 :: 0x00 :: rest) = .error .inf :=
  reject_inf_f32 dagcborDec rfl [0x7f, 0x80, 0x00, 0x00] rest rfl (by decide)
example (rest : Bytes) : decode dagcborDec (0xfa :: 0xff :: 0x80 :: 0x00 :: 0x00 :: rest) = .error .inf :=
  reject_inf_f32 dagcborDec rfl [0xff, 0x80, 0x00, 0x00] rest rfl (by decide)
example (rest : Bytes) :
    decode dagcborDec (0xfb :: 0x7f :: 0xf8 :: 0 :: 0 :: 0 :: 0 :: 0 :: 0 :: rest) = .error .nan :=
  reject_nan_f64 dagcborDec rfl [0x7f, 0xf8, 0, 0, 0, 0, 0, 0] rest rfl (by decide)
example (rest : Bytes) :
    decode dagcborDec (0xfb :: 0x7f :: 0xf0 :: 0 :: 0 :: 0 :: 0 :: 0 :: 0 :: rest) = .error .inf :=
  reject_inf_f64 dagcborDec rfl [0x7f, 0xf0, 0, 0, 0, 0, 0, 0] rest rfl (by decide)
example (rest : Bytes) :
    decode dagcborDec (0xfb :: 0xff :: 0xf0 :: 0 :: 0 :: 0 :: 0 :: 0 :: 0 :: rest) = .error .inf :=
  reject_inf_f64 dagcborDec rfl [0xff, 0xf0, 0, 0, 0, 0, 0, 0] rest rfl (by decide)

/-! ### Tags -/

/-- A tag other than 42 on a (complete, affordable) byte string is refused, strict or relaxed. -/
theorem reject_tag_not42 (cfg : DecCfg) (t : Nat) (ht : t < 2 ^ 63) (h42 : t ≠ 42) (p rest : Bytes)
    (hp : p.length ≤ 33554432) (hb : (p.length : Int) ≤ cfg.budget) :
    decode cfg (shortestHead 6 t ++ ((shortestHead 2 p.length ++ p) ++ rest)) = .error .badTag := by
  apply decode_error_of_decItem 1
    (by have := shortestHead_length_pos 6 t; have := shortestHead_length_pos 2 p.length
        simp only [List.length_append]; omega)
  intro f hf
  obtain ⟨f, rfl⟩ : ∃ g, f = g + 1 := ⟨f - 1, by omega⟩
  rw [decItem_tag _ _ _ _ _ ht, decItem_tagged_bytes _ _ _ _ _ _ _ _ _ rfl hp (by omega), if_pos h42]

/-- Tag 42 is refused when links are switched off. -/
theorem reject_links_disabled (cfg : DecCfg) (hl : cfg.allowLinks = false) (p rest : Bytes)
    (hp : p.length ≤ 33554432) (hb : (p.length : Int) ≤ cfg.budget) :
    decode cfg (shortestHead 6 42 ++ ((shortestHead 2 p.length ++ p) ++ rest)) = .error .linksDisabled := by
  apply decode_error_of_decItem 1
    (by have := shortestHead_length_pos 6 42; have := shortestHead_length_pos 2 p.length
        simp only [List.length_append]; omega)
  intro f hf
  obtain ⟨f, rfl⟩ : ∃ g, f = g + 1 := ⟨f - 1, by omega⟩
  rw [decItem_tag _ _ _ _ _ (by omega), decItem_tagged_bytes _ _ _ _ _ _ _ _ _ rfl hp (by omega)]
  simp [hl]

/-- Tag 42 on a byte string that does not start with the identity-multibase byte 0x00 is refused. -/
theorem reject_bad_multibase (cfg : DecCfg) (hl : cfg.allowLinks = true) (p rest : Bytes)
    (h0 : ∀ cid, p ≠ 0 :: cid) (hp : p.length ≤ 33554432) (hb : (p.length : Int) ≤ cfg.budget) :
    decode cfg (shortestHead 6 42 ++ ((shortestHead 2 p.length ++ p) ++ rest)) = .error .badMultibase := by
  apply decode_error_of_decItem 1
    (by have := shortestHead_length_pos 6 42; have := shortestHead_length_pos 2 p.length
        simp only [List.length_append]; omega)
  intro f hf
  obtain ⟨f, rfl⟩ : ∃ g, f = g + 1 := ⟨f - 1, by omega⟩
  rw [decItem_tag _ _ _ _ _ (by omega), decItem_tagged_bytes _ _ _ _ _ _ _ _ _ rfl hp (by omega)]
  simp only [ne_eq, not_true_eq_false, if_false, hl, Bool.not_true, Bool.false_eq_true]

/-- Tag 42 around 0x00 followed by bytes that `cid.Cast` refuses is refused. -/
theorem reject_bad_cid (cfg : DecCfg) (hl : cfg.allowLinks = true) (c rest : Bytes)
    (hc : cidValid c = false) (hp : c.length + 1 ≤ 33554432) (hb : (c.length : Int) + 1 ≤ cfg.budget) :
    decode cfg (shortestHead 6 42 ++ ((shortestHead 2 (c.length + 1) ++ (0 :: c)) ++ rest)) = .error .badCid := by
  apply decode_error_of_decItem 1
    (by have := shortestHead_length_pos 6 42; have := shortestHead_length_pos 2 (c.length + 1)
        simp only [List.length_append]; omega)
  intro f hf
  obtain ⟨f, rfl⟩ : ∃ g, f = g + 1 := ⟨f - 1, by omega⟩
  rw [decItem_tag _ _ _ _ _ (by omega),
    decItem_tagged_bytes _ _ _ _ _ (0 :: c) _ _ (c.length + 1) (by simp) hp (by push_cast; omega)]
  simp [hl, hc]

/-- A tag on null / undefined / a boolean is refused. -/
theorem reject_tag_on_simple (cfg : DecCfg) (hb : 0 ≤ cfg.budget) (t : Nat) (ht : t < 2 ^ 63) (b : UInt8)
    (rest : Bytes) (hs : b = 0xf4 ∨ b = 0xf5 ∨ b = 0xf6 ∨ b = 0xf7) :
    decode cfg (shortestHead 6 t ++ b :: rest) = .error .badTag := by
  apply decode_error_of_decItem 1
    (by have := shortestHead_length_pos 6 t; simp only [List.length_append, List.length_cons]; omega)
  intro f hf
  obtain ⟨f, rfl⟩ : ∃ g, f = g + 1 := ⟨f - 1, by omega⟩
  rw [decItem_tag _ _ _ _ _ ht]
  rcases hs with rfl | rfl | rfl | rfl
  · rw [decItem_false _ _ _ _ _ _ _ _ (by decide), finish_tag _ _ _ _ _ _ hb]
  · rw [decItem_true _ _ _ _ _ _ _ _ (by decide), finish_tag _ _ _ _ _ _ hb]
  · rw [decItem_null _ _ _ _ _ _ _ _ (by decide), finish_tag _ _ _ _ _ _ hb]
  · rw [decItem_null _ _ _ _ _ _ _ _ (by decide), finish_tag _ _ _ _ _ _ hb]

/-- A tag on an unsigned integer is refused. -/
theorem reject_tag_on_uint (cfg : DecCfg) (hb : 0 ≤ cfg.budget) (t : Nat) (ht : t < 2 ^ 63) (n : Nat)
    (hn : n < 2 ^ 64) (rest : Bytes) :
    decode cfg (shortestHead 6 t ++ (shortestHead 0 n ++ rest)) = .error .badTag := by
  apply decode_error_of_decItem 1
    (by have := shortestHead_length_pos 6 t; have := shortestHead_length_pos 0 n
        simp only [List.length_append]; omega)
  intro f hf
  obtain ⟨f, rfl⟩ : ∃ g, f = g + 1 := ⟨f - 1, by omega⟩
  rw [decItem_tag _ _ _ _ _ ht, shortestHead_cons, decItem_m0 _ _ _ _ _ _ _ _ (head_byte_div 0 n (by omega)),
    head_byte_mod 0 n (by omega), readArg_harg _ n hn]
  simp only [bind, Except.bind]
  rw [finish_tag _ _ _ _ _ _ hb]

/-- A tag on a text string is refused. -/
theorem reject_tag_on_string (cfg : DecCfg) (hb : 0 ≤ cfg.budget) (t : Nat) (ht : t < 2 ^ 63) (s rest : Bytes)
    (hs : s.length ≤ 33554432) :
    decode cfg (shortestHead 6 t ++ ((shortestHead 3 s.length ++ s) ++ rest)) = .error .badTag := by
  have hi := hinfo_le s.length
  apply decode_error_of_decItem 1
    (by have := shortestHead_length_pos 6 t; have := shortestHead_length_pos 3 s.length
        simp only [List.length_append]; omega)
  intro f hf
  obtain ⟨f, rfl⟩ : ∃ g, f = g + 1 := ⟨f - 1, by omega⟩
  rw [decItem_tag _ _ _ _ _ ht, List.append_assoc, shortestHead_cons,
    decItem_m3 _ _ _ _ _ _ _ _ (head_byte_div 3 _ (by omega)) (by rw [head_byte_mod 3 _ (by omega)]; omega),
    head_byte_mod 3 _ (by omega), readLen_harg _ _ (by omega)]
  simp only [bind, Except.bind]
  have : ¬ (s.length > 33554432) := by omega
  rw [if_neg this, take?_append]
  simp only []
  rw [finish_tag _ _ _ _ _ _ hb]

/-- A tag on a list or a map is refused right after the head, whatever the contents. -/
theorem reject_tag_on_container (cfg : DecCfg) (hb : 0 ≤ cfg.budget) (t : Nat) (ht : t < 2 ^ 63) (m n : Nat)
    (hm : m = 4 ∨ m = 5) (hn : n < 2 ^ 63) (rest : Bytes) :
    decode cfg (shortestHead 6 t ++ (shortestHead m n ++ rest)) = .error .badTag := by
  have hi := hinfo_le n
  apply decode_error_of_decItem 1
    (by have := shortestHead_length_pos 6 t; have := shortestHead_length_pos m n
        simp only [List.length_append]; omega)
  intro f hf
  obtain ⟨f, rfl⟩ : ∃ g, f = g + 1 := ⟨f - 1, by omega⟩
  rw [decItem_tag _ _ _ _ _ ht, shortestHead_cons]
  rcases hm with rfl | rfl
  · rw [decItem_m4 _ _ _ _ _ _ _ _ (head_byte_div 4 _ (by omega)) (by rw [head_byte_mod 4 _ (by omega)]; omega),
      head_byte_mod 4 _ (by omega), readLen_harg _ _ hn]
    simp only [bind, Except.bind]
    rw [charge_ok _ _ _ hb]
  · rw [decItem_m5 _ _ _ _ _ _ _ _ (head_byte_div 5 _ (by omega)) (by rw [head_byte_mod 5 _ (by omega)]; omega),
      head_byte_mod 5 _ (by omega), readLen_harg _ _ hn]
    simp only [bind, Except.bind]
    rw [charge_ok _ _ _ hb]

/-- A tag on a tag is refused at the second tag's first byte. -/
theorem reject_nested_tag (cfg : DecCfg) (t : Nat) (ht : t < 2 ^ 63) (b : UInt8) (hb : b.toNat / 32 = 6)
    (rest : Bytes) : decode cfg (shortestHead 6 t ++ b :: rest) = .error .multiTag := by
  apply decode_error_of_decItem 1
    (by have := shortestHead_length_pos 6 t; simp only [List.length_append, List.length_cons]; omega)
  intro f hf
  obtain ⟨f, rfl⟩ : ∃ g, f = g + 1 := ⟨f - 1, by omega⟩
  rw [decItem_tag _ _ _ _ _ ht, decItem_m6 _ _ _ _ _ _ _ _ hb]

/-! ### Trailing bytes -/

/-- Any complete item followed by one more byte is refused as a whole input (`trailing`), for every
    value and every encoding of it — in particular after every scalar. -/
theorem reject_trailing (cfg : DecCfg) (v : DM) (bs : Bytes) (b : UInt8) (rest : Bytes)
    (hB : cfg.budget < 2 ^ 63) (hd : Denotes v bs) (hl : WithinLimits cfg v)
    (hp : cfg.dontParseBeyondEnd = false) : decode cfg (bs ++ b :: rest) = .error .trailing :=
  decode_trailing_aux cfg v bs b rest hd hl hB hp

/-- With `dontParseBeyondEnd` set the tail is ignored instead. -/
theorem accept_prefix (cfg : DecCfg) (v : DM) (bs rest : Bytes)
    (hB : cfg.budget < 2 ^ 63) (hd : Denotes v bs) (hl : WithinLimits cfg v)
    (hp : cfg.dontParseBeyondEnd = true) : decode cfg (bs ++ rest) = .ok v :=
  decode_prefix_aux cfg v bs rest hd hl hB hp

example (b : UInt8) (rest : Bytes) : decode dagcborDec (0x01 :: b :: rest) = .error .trailing :=
  reject_trailing _ (.int 1) [0x01] b rest (by decide) (by simp [Denotes, shortestHead])
    (by simp [WithinLimits, DM.depth, cost, maxStr, hasLink, dagcborDec]) rfl

/-! ### Integers below −2^63 -/

/-- A negative integer whose argument is 2^63 or more is refused, strict or relaxed; with the K1
    wrap-around in place the one argument 2^64−1 escapes (see `negWrap_accepts_minus_2_64`). -/
theorem reject_neg_overflow (cfg : DecCfg) (n : Nat) (h1 : 2 ^ 63 ≤ n) (h2 : n < 2 ^ 64)
    (hw : cfg.negWrap = false ∨ n < 2 ^ 64 - 1) (rest : Bytes) :
    decode cfg (shortestHead 1 n ++ rest) = .error .negOverflow := by
  apply decode_error_of_decItem 0 (by omega)
  intro f _
  rw [shortestHead_cons, decItem_m1 _ _ _ _ _ _ _ _ (head_byte_div 1 n (by omega)),
    head_byte_mod 1 n (by omega), readArg_harg _ n h2]
  simp only [bind, Except.bind]
  have : (if cfg.negWrap then (n + 1) % 18446744073709551616 else n + 1) > 9223372036854775808 := by
    rcases hw with hw | hw
    · simp only [hw, Bool.false_eq_true, if_false]; omega
    · split
      · rw [Nat.mod_eq_of_lt (by omega)]; omega
      · omega
  rw [if_pos this]

/-- K1 itself: with the wrap-around, −2^64 is read as 0. -/
theorem negWrap_accepts_minus_2_64 (cfg : DecCfg) (hw : cfg.negWrap = true) (hb : 1 ≤ cfg.budget) :
    decode cfg [0x3b, 0xff, 0xff, 0xff, 0xff, 0xff, 0xff, 0xff, 0xff] = .ok (.int 0) := by
  have hr : readArg (!cfg.relaxed) 27 [0xff, 0xff, 0xff, 0xff, 0xff, 0xff, 0xff, 0xff]
      = .ok (18446744073709551615, []) := by
    cases cfg.relaxed <;> simp [readArg, take?, beVal, bind, Except.bind]
  unfold decode
  rw [decItem_m1 _ _ _ _ _ _ _ _ (by decide)]
  have e : (0x3b : UInt8).toNat % 32 = 27 := by decide
  rw [e, hr]
  simp only [bind, Except.bind, hw, if_true]
  rw [if_neg (by decide), finish_ok _ _ _ _ _ (by omega) (by omega) (by omega)]
  simp only [List.isEmpty_nil, if_true]
  split <;> rfl

/-! ### Map keys -/

/-- A map key that is not a text string is refused (`b` is the first byte of the would-be key: any
    major type but 3; the indefinite-length markers are refused earlier, as `indefinite`). -/
theorem reject_bad_key (cfg : DecCfg) (n : Nat) (h1 : 1 ≤ n) (hn : n < 2 ^ 63) (hb : (n : Int) ≤ cfg.budget)
    (hd : 0 < cfg.maxDepth) (b : UInt8) (rest : Bytes) (hb3 : b.toNat / 32 ≠ 3)
    (hind : ¬ (b.toNat = 0x5f ∨ b.toNat = 0x9f ∨ b.toNat = 0xbf)) :
    decode cfg (shortestHead 5 n ++ b :: rest) = .error .badKey := by
  apply decode_error_of_decItem 0 (by omega)
  intro f _
  exact decItem_bad_key cfg f n h1 hn _ hb hd b rest hb3 hind

/-- A two-entry map carrying the same key `k` twice is refused, for every key (here up to the 32 MiB
    cap, not just short ones), strict or relaxed; the first value is null. -/
theorem reject_dup_key (cfg : DecCfg) (k rest : Bytes) (hk : k.length ≤ 33554432)
    (hb : 2 * (k.length : Int) + 18 ≤ cfg.budget) (hd : 0 < cfg.maxDepth) :
    decode cfg (0xa2 :: ((shortestHead 3 k.length ++ k) ++ (0xf6 :: ((shortestHead 3 k.length ++ k) ++ rest))))
      = .error .dupKey := by
  apply decode_error_of_decItem 1 (by simp only [List.length_cons]; omega)
  intro f hf
  obtain ⟨f, rfl⟩ : ∃ g, f = g + 1 := ⟨f - 1, by omega⟩
  exact decItem_dup_key cfg f k rest hk _ hb hd

example (rest : Bytes) :
    decode dagcborDec (0xa2 :: 0x61 :: 0x61 :: 0xf6 :: 0x61 :: 0x61 :: rest) = .error .dupKey :=
  reject_dup_key dagcborDec [0x61] rest (by decide) (by decide) (by decide)

example (rest : Bytes) : decode dagcborDec (0xa1 :: 0x01 :: rest) = .error .badKey :=
  reject_bad_key dagcborDec 1 (by decide) (by decide) (by decide) (by decide) 0x01 rest (by decide) (by decide)

end Ipld.Props.C03

namespace Ipld.Props.C03
open Ipld Ipld.Cbor Ipld.Generated

/-- (T) The constants regenerated from `codec/dagcbor/unmarshal.go` on this run are the ones the decoder
    model charges and defaults to: 8 per map entry (`decMap`), 4 per list entry (`decItem … 4` in `decList`),
    and the default budget / pre-allocation cap / depth of `dagcborDec`. -/
theorem consts_src_are_model :
    mapEntryCost_src = 8 ∧ listEntryCost_src = 4 ∧
    defaultAllocationBudget_src = dagcborDec.budget ∧
    defaultMaxCollectionPrealloc_src = (dagcborDec.maxPrealloc : Int) ∧
    defaultMaxDepth_src = (dagcborDec.maxDepth : Int) := by decide

/-- (T) The tokenizer strictness wiring regenerated from `refmtDecodeOptions` is the one the model assumes:
    indefinite lengths are refused and `undefined` reads as null in every mode; non-minimal heads, NaN and
    ±Inf are refused exactly when `RelaxedDecode` is off; the registered codec allows links and nothing else. -/
theorem strictness_wiring_src :
    refmtFlagsAlways_src = ["CoerceUndefToNull", "RejectIndefinite"] ∧
    refmtFlagsStrictOnly_src = ["RejectInfinity", "RejectNaN", "RejectNonMinimalInteger"] ∧
    registeredDecodeOptions_src = ["AllowLinks=true"] := by decide

end Ipld.Props.C03
