package checks

import (
	"fmt"
	"reflect"

	"github.com/ipld/go-ipld-prime/datamodel"
	"github.com/ipld/go-ipld-prime/node/bindnode"

	"verif/internal/core"
)

// scribbleGo changes, in place, every leaf reachable from v (through pointers, slice elements and map values, without
// replacing any container): whoever shares memory with v sees it.  Returns the number of leaves changed.
func scribbleGo(v reflect.Value) int {
	switch v.Kind() {
	case reflect.Ptr:
		if v.IsNil() {
			return 0
		}
		return scribbleGo(v.Elem())
	case reflect.Struct:
		n := 0
		for i := 0; i < v.NumField(); i++ {
			n += scribbleGo(v.Field(i))
		}
		return n
	case reflect.Slice:
		if v.Type().Elem().Kind() == reflect.Uint8 {
			// the content of byte slices is shared by contract (AsBytes / AssignBytes do not copy): writing into a byte
			// slice that was handed over or handed back is the caller's mistake, excluded by the properties
			return 0
		}
		n := 0
		for i := 0; i < v.Len(); i++ {
			n += scribbleGo(v.Index(i))
		}
		return n
	case reflect.Map:
		n := 0
		for _, k := range v.MapKeys() {
			cp := reflect.New(v.Type().Elem()).Elem()
			cp.Set(v.MapIndex(k))
			if m := scribbleGo(cp); m > 0 {
				v.SetMapIndex(k, cp)
				n += m
			}
		}
		return n
	}
	if !v.CanSet() {
		return 0
	}
	switch v.Kind() {
	case reflect.String:
		v.SetString(v.String() + "!")
	case reflect.Int, reflect.Int8, reflect.Int16, reflect.Int32, reflect.Int64:
		v.SetInt(v.Int() ^ 1)
	case reflect.Uint, reflect.Uint8, reflect.Uint16, reflect.Uint32, reflect.Uint64:
		v.SetUint(v.Uint() ^ 1)
	case reflect.Bool:
		v.SetBool(!v.Bool())
	case reflect.Float32, reflect.Float64:
		v.SetFloat(v.Float() + 1)
	default:
		return 0
	}
	return 1
}

// typedAliasing: handing a bound node to a builder of its own prototype with AssignNode yields an INDEPENDENT node of
// the same content.  Afterwards (1) the builder is used further, (2) the Go value behind the copy is scribbled over,
// (3) the Go value behind the source is scribbled over: the respective other node must not change (C11: a finished
// node never changes; C19: what a builder produces does not depend on its source's memory).
func typedAliasing(c *core.Ctx, pfx, caseID string, proto datamodel.NodePrototype, src datamodel.Node) {
	before := termOfOrErrSafe(src, nil)
	fail := func(sig, impl, want, detail string) {
		c.Fail(pfx+"/"+sig, core.Replay{Kind: "oracle", Case: caseID, Impl: truncateStr(impl, 600), Expected: truncateStr(want, 600), Detail: detail})
	}
	copyOf := func() (datamodel.NodeBuilder, datamodel.Node, bool) {
		nb := proto.NewBuilder()
		var n datamodel.Node
		err, panicked, pv := core.Catch(func() error {
			if err := nb.AssignNode(src); err != nil {
				return err
			}
			n = nb.Build()
			return nil
		})
		if panicked || err != nil {
			fail("assign-node-of-own-type-refused", fmt.Sprint(err, pv), "accepted", "AssignNode of a node built by the same prototype")
			return nil, nil, false
		}
		return nb, n, true
	}
	nb, n2, ok := copyOf()
	if !ok {
		return
	}
	if t := termOfOrErrSafe(n2, nil); t != before {
		fail("assign-node-of-own-type-differs", t, before, "")
		return
	}
	c.Dist("typed-aliasing:" + src.Kind().String())
	// (1) further use of the same builder (this implementation appends in place on a second Begin*)
	core.Catch(func() error {
		switch src.Kind() {
		case datamodel.Kind_List:
			if src.Length() > 0 {
				e0, _ := src.LookupByIndex(0)
				if la, err := nb.BeginList(1); err == nil {
					la.AssembleValue().AssignNode(e0)
					la.Finish()
				}
			}
		case datamodel.Kind_Map:
			it := src.MapIterator()
			if !it.Done() {
				k, v, _ := it.Next()
				if ma, err := nb.BeginMap(1); err == nil {
					ks, _ := k.AsString()
					for _, key := range []string{ks + "-more", ks} {
						if va, err := ma.AssembleEntry(key); err == nil {
							va.AssignNode(v)
							break
						}
					}
					ma.Finish()
				}
			}
		}
		return nil
	})
	if t := termOfOrErrSafe(src, nil); t != before {
		fail("finished-node-changed-by-later-use-of-another-builder", t, before, "the builder that had been given the node with AssignNode was used again (a second BeginList / BeginMap)")
		return
	}
	// (2) the Go value behind the copy
	core.Catch(func() error {
		if gv := bindnode.Unwrap(n2); gv != nil {
			scribbleGo(reflect.ValueOf(gv))
		}
		return nil
	})
	if t := termOfOrErrSafe(src, nil); t != before {
		fail("finished-node-changed-through-its-copy", t, before, "the Go value behind the node built by AssignNode(src) was edited in place")
		return
	}
	// (3) the Go value behind the source
	_, n3, ok := copyOf()
	if !ok {
		return
	}
	core.Catch(func() error {
		if gv := bindnode.Unwrap(src); gv != nil {
			scribbleGo(reflect.ValueOf(gv))
		}
		return nil
	})
	if t := termOfOrErrSafe(n3, nil); t != before {
		fail("built-node-changed-with-its-source", t, before, "the Go value behind the source of AssignNode was edited in place after the build")
	}
}
