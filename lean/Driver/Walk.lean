import IpldModel.Model.Term
import IpldModel.Model.Walk
namespace Ipld.Driver
open Ipld Ipld.Sel Ipld.Walk

def showPath (p : Path) : String := "p:" ++ String.join (p.map fun s => hexOfBytes s.toString ++ ".")

/-- `p:61.62.` → segments (as string segments; `Seg.equals` and lookups go through the text anyway) -/
def parsePathArg (s : String) : Option Path :=
  if !s.startsWith "p:" then none else
  let body := (s.drop 2).toString
  let parts := (body.splitOn ".").dropLast
  parts.mapM fun h => (if h.isEmpty then some [] else bytesOfHex h).map Seg.str

def showErr : Walk.Err → String
  | .budgetNode => "budget:node"
  | .budgetLink => "budget:link"
  | .load => "err:load"
  | .selector => "err:other"
  | .reify => "err:other"
  | .panic => "panic"
  | .fuel => "fuel"

def showEvent : Event → String
  | .visit p n r => "V " ++ showPath p ++ (match r with | .matched => " m " | .candidate => " x ") ++ n.toTerm
  | .load c => "L " ++ hexOfBytes c

def optInt (s : String) : Option (Option Int) := if s == "-" then some none else s.toInt?.map some

/-- parse `STORE l<cid> <term…> … ROOT <term…> SEL <term…>` -/
def parseStore : Nat → List String → List (Bytes × DM) → Option (List (Bytes × DM) × List String)
  | 0, _, _ => none
  | _ + 1, "ROOT" :: rest, acc => some (acc.reverse, rest)
  | fuel + 1, c :: rest, acc =>
    match c.toList with
    | 'l' :: cs =>
      match bytesOfHexChars cs, parseTerm rest with
      | some cid, some (d, rest') => parseStore fuel rest' ((cid, d) :: acc)
      | _, _ => none
    | _ => none
  | _, [], _ => none

/-- walk.run <nodeBudget|-> <linkBudget|-> <once t|f> <startPath p:…> <skip cidhex,…|-> STORE … ROOT <term…> SEL <term…>
      → compile-reject | <event> | <event> … => ok / budget:node / budget:link / err:load / err:other / panic
    path.get <path p:…> STORE … ROOT <term…>   → ok <term> | err
    path.rt <hex>   → parse∘toString round trip: prints the re-parsed path -/
def walkHandler : List String → Option String
  | "walk.run" :: nb :: lb :: once :: start :: skip :: "STORE" :: rest =>
    match optInt nb, optInt lb, parsePathArg start, parseStore (rest.length + 1) rest [] with
    | some nb, some lb, some sp, some (store, rest1) =>
      let skipL : Option (List Bytes) := if skip == "-" then some [] else (skip.splitOn ",").mapM bytesOfHex
      match skipL, parseTerm rest1 with
      | some sk, some (root, "SEL" :: selToks) =>
        match parseTermAll selToks with
        | some spec =>
          match compileSelector spec with
          | .error .panic => some "compile-panic"
          | .error .reject => some "compile-reject"
          | .ok s =>
            let cfg : Cfg := { store := store, skip := sk, startAt := sp, linkOnce := once == "t" }
            let r := walk cfg 100000 nb lb root s
            let evs := " | ".intercalate (r.events.map showEvent)
            some (evs ++ " => " ++ (match r.outcome with | .ok _ => "ok" | .error e => showErr e))
        | none => some "bad-selector-term"
      | _, _ => some "bad-args"
    | _, _, _, _ => some "bad-args"
  | "path.get" :: p :: "STORE" :: rest =>
    match parsePathArg p, parseStore (rest.length + 1) rest [] with
    | some path, some (store, rest1) =>
      match parseTermAll rest1 with
      | some root =>
        match get store 10000 root path with
        | .ok n => some ("ok " ++ n.toTerm)
        | .error _ => some "err"
      | none => some "bad-term"
    | _, _ => some "bad-args"
  | ["path.rt", h] =>
    match (if h == "-" then some [] else bytesOfHex h) with
    | some s => some (showPath (parsePath s) ++ " " ++ (let t := pathToString (parsePath s); if t.isEmpty then "-" else hexOfBytes t))
    | none => some "bad-hex"
  | _ => none

end Ipld.Driver
