/-
  Typed assemblers: which calls each kind of current object accepts (value assembler of a type, key assembler,
  bindnode's error assembler), and the repeated-key refusals.  Helper lemmas for Props/C12typed.lean.
-/
import IpldModel.Lemmas.TypedAssemblerInv
namespace Ipld
namespace TAsm
open Ipld.Asm (Op Out ErrClass)
open Ipld.Schema (Ty Fields Field TL TLs TLKVs canonFields conforms)

/-! ### the current object decides which handler answers -/

theorem stepPrim_at_value {e : Engine} {s : St} {ty : Ty} {nul : Bool} (hp : pos s = .value ty nul) (op : Op) :
    stepPrim e s op = valuePrim s ty nul op := by
  obtain ⟨t, fr, r, tt⟩ := s
  cases fr with
  | nil =>
    cases r with
    | none => simp only [pos, posOf, Pos.value.injEq] at hp; obtain ⟨rfl, rfl⟩ := hp; simp [stepPrim]
    | some v => simp [pos, posOf] at hp
  | cons f rest =>
    cases f with
    | list ety enul xs mid =>
      cases mid with
      | false => simp [pos, posOf] at hp
      | true => simp only [pos, posOf, Pos.value.injEq] at hp; obtain ⟨rfl, rfl⟩ := hp; simp [stepPrim]
    | map vty vnul es ph =>
      cases ph with
      | midValue k => simp only [pos, posOf, Pos.value.injEq] at hp; obtain ⟨rfl, rfl⟩ := hp; simp [stepPrim]
      | init => simp [pos, posOf] at hp
      | midKey => simp [pos, posOf] at hp
      | expectValue k => simp [pos, posOf] at hp
    | struct fs es ph =>
      cases ph with
      | midValue k =>
        simp only [pos, posOf] at hp
        split at hp
        · rename_i f hf
          simp only [Pos.value.injEq] at hp; obtain ⟨rfl, rfl⟩ := hp
          simp [stepPrim, hf]
        · cases hp
      | init => simp [pos, posOf] at hp
      | midKey => simp [pos, posOf] at hp
      | expectValue k => simp [pos, posOf] at hp

theorem stepPrim_at_key {e : Engine} {s : St} (hp : pos s = .key) (op : Op) :
    stepPrim e s op = keyPrim e s op := by
  obtain ⟨t, fr, r, tt⟩ := s
  cases fr with
  | nil => cases r <;> simp [pos, posOf] at hp
  | cons f rest =>
    cases f with
    | list ety enul xs mid => cases mid <;> simp [pos, posOf] at hp
    | map vty vnul es ph =>
      cases ph with
      | midKey => simp [stepPrim]
      | init => simp [pos, posOf] at hp
      | midValue k => simp [pos, posOf] at hp
      | expectValue k => simp [pos, posOf] at hp
    | struct fs es ph =>
      cases ph with
      | midKey => simp [stepPrim]
      | init => simp [pos, posOf] at hp
      | midValue k =>
        simp only [pos, posOf] at hp
        split at hp <;> cases hp
      | expectValue k => simp [pos, posOf] at hp

theorem stepPrim_at_errAsm {e : Engine} {s : St} (hp : pos s = .errAsm) (op : Op) :
    stepPrim e s op = errPrim s op := by
  obtain ⟨t, fr, r, tt⟩ := s
  cases fr with
  | nil => cases r <;> simp [pos, posOf] at hp
  | cons f rest =>
    cases f with
    | list ety enul xs mid => cases mid <;> simp [pos, posOf] at hp
    | map vty vnul es ph => cases ph <;> simp [pos, posOf] at hp
    | struct fs es ph =>
      cases ph with
      | midValue k =>
        simp only [pos, posOf] at hp
        split at hp
        · cases hp
        · rename_i hf
          simp [stepPrim, hf]
      | init => simp [pos, posOf] at hp
      | midKey => simp [pos, posOf] at hp
      | expectValue k => simp [pos, posOf] at hp

theorem pos_key_iff_inKey (s : St) : pos s = .key ↔ inKey s = true := by
  obtain ⟨t, fr, r, tt⟩ := s
  cases fr with
  | nil => cases r <;> simp [pos, posOf, inKey]
  | cons f rest =>
    cases f with
    | list ety enul xs mid => cases mid <;> simp [pos, posOf, inKey]
    | map vty vnul es ph => cases ph <;> simp [pos, posOf, inKey]
    | struct fs es ph =>
      cases ph with
      | midValue k =>
        simp only [pos, posOf, inKey]
        split <;> simp
      | init => simp [pos, posOf, inKey]
      | midKey => simp [pos, posOf, inKey]
      | expectValue k => simp [pos, posOf, inKey]

/-! ### a value assembler -/

/-- a value assembler always takes a finished value -/
theorem deliver_ok_of_pos {s : St} {ty : Ty} {nul : Bool} (hp : pos s = .value ty nul) (v : TL) :
    (deliver s v).2 = .ok := by
  obtain ⟨t, fr, r, tt⟩ := s
  cases fr with
  | nil =>
    cases r with
    | none => simp [deliver]
    | some v => simp [pos, posOf] at hp
  | cons f rest =>
    cases f with
    | list ety enul xs mid => cases mid <;> first | (simp [pos, posOf] at hp; done) | simp [deliver]
    | map vty vnul es ph => cases ph <;> first | (simp [pos, posOf] at hp; done) | simp [deliver]
    | struct fs es ph =>
      cases ph with
      | midValue k =>
        simp only [pos, posOf] at hp
        split at hp
        · rename_i f hf
          simp [deliver, hf]
        · cases hp
      | init => simp [pos, posOf] at hp
      | midKey => simp [pos, posOf] at hp
      | expectValue k => simp [pos, posOf] at hp

theorem scalarOut_ne_panic {ty : Ty} {nul : Bool} {v : DM} (hs : Asm.isScalar v = true) :
    scalarOut ty nul v ≠ .panic := by
  cases v <;> first | (cases hs; done) | (cases ty <;> simp [scalarOut] <;> split <;> simp)

/-- An offered call the type accepts is answered `ok`; one it does not accept is answered with an error and
    changes nothing. -/
theorem valuePrim_accepts {s : St} {ty : Ty} {nul : Bool} (hp : pos s = .value ty nul) {op : Op}
    (hc : valueCall op = true) :
    (accepts ty nul op = true → (valuePrim s ty nul op).2 = .ok) ∧
    (accepts ty nul op = false → ∃ c, valuePrim s ty nul op = (s, .err c)) := by
  cases op with
  | assign v =>
    simp only [valueCall] at hc
    simp only [accepts, valuePrim, beq_iff_eq]
    constructor
    · intro h; rw [h]; exact deliver_ok_of_pos hp _
    · intro h
      have h' : scalarOut ty nul v ≠ .ok := by simpa using h
      have hnp := scalarOut_ne_panic (ty := ty) (nul := nul) hc
      cases ho : scalarOut ty nul v with
      | ok => exact absurd ho h'
      | err c => exact ⟨c, rfl⟩
      | panic => exact absurd ho hnp
  | beginMap n =>
    simp only [accepts, valuePrim]
    cases ty <;> simp
  | beginList n =>
    simp only [accepts, valuePrim]
    cases ty <;> simp
  | assembleKey => cases hc
  | assembleValue => cases hc
  | assembleEntry k => cases hc
  | assignNode v => cases hc
  | finish => cases hc

/-- the scalar assignments a plain type accepts are those whose value conforms to it (an int within int64) -/
theorem scalarOut_ok_iff {ty : Ty} (hp : plain ty = true) (nul : Bool) {v : DM} (hs : Asm.isScalar v = true) :
    scalarOut ty nul v = .ok ↔ (conforms ty nul (TL.ofDM v) = true ∧ ∀ i, v = .int i → inInt64 i = true) := by
  cases v <;> first | (cases hs; done) | (cases ty <;> simp_all [scalarOut, conforms, TL.ofDM, plain])

/-! ### a key assembler -/

theorem keyPrim_nonstring {e : Engine} {s : St} {v : DM} (hs : Asm.isScalar v = true) (hn : ∀ k, v ≠ .str k) :
    keyPrim e s (.assign v) = (s, .err .wrongKind) := by
  cases v <;> first | (cases hs; done) | rfl | exact absurd rfl (hn _)

/-! ### repeated keys -/

theorem Inv.top_struct_field {t : Ty} {fs : List Field} {es : List (Bytes × TL)} {ph : Phase} {rest : List Frame}
    {r : Option TL} {tt : Bool} (h : Inv ⟨t, .struct fs es ph :: rest, r, tt⟩) {k : Bytes}
    (hk : k ∈ es.map (·.1)) : ∃ f, fieldOf fs k = some f :=
  fieldOf_of_hasKey (h.frames (.struct fs es ph) (by simp)).2.2.2.1 ((hasKey_iff es k).2 hk)

/-- `AssembleEntry` with a key the current map / struct has already accepted: refused at that call, as a repeated key,
    state untouched - every engine. -/
theorem stepPrim_assembleEntry_repeated {e : Engine} {s : St} (hi : Inv s) (hx : expectsKey s = true) {k : Bytes}
    (hk : k ∈ acceptedKeys s) : stepPrim e s (.assembleEntry k) = (s, .err .repeatedKey) := by
  obtain ⟨t, fr, r, tt⟩ := s
  cases fr with
  | nil => simp [expectsKey] at hx
  | cons f rest =>
    cases f with
    | list ety enul xs mid => simp [expectsKey] at hx
    | map vty vnul es ph =>
      cases ph <;> first | (simp [expectsKey] at hx; done) | skip
      simp only [acceptedKeys] at hk
      simp [stepPrim, (hasKey_iff es k).2 hk]
    | struct fs es ph =>
      cases ph <;> first | (simp [expectsKey] at hx; done) | skip
      simp only [acceptedKeys] at hk
      obtain ⟨f, hf⟩ := hi.top_struct_field hk
      simp [stepPrim, (hasKey_iff es k).2 hk, hf]

/-- ... and the same key handed to the key assembler: refused at that call, and the key assembler ends. -/
theorem supplyKey_repeated {e : Engine} {s : St} (hi : Inv s) (hx : inKey s = true) {k : Bytes}
    (hk : k ∈ acceptedKeys s) (he : e.keyAsmDupMapKey = false ∨ inStruct s = true) :
    ∃ s', KeyReset s s' ∧ supplyKey e s k = (s', .err .repeatedKey) := by
  obtain ⟨t, fr, r, tt⟩ := s
  cases fr with
  | nil => simp [inKey] at hx
  | cons f rest =>
    cases f with
    | list ety enul xs mid => simp [inKey] at hx
    | map vty vnul es ph =>
      cases ph <;> first | (simp [inKey] at hx; done) | skip
      simp only [acceptedKeys] at hk
      have he' : e.keyAsmDupMapKey = false := by
        rcases he with he | he
        · exact he
        · simp [inStruct] at he
      exact ⟨_, Or.inl ⟨vty, vnul, es, rest, rfl, rfl⟩, by simp [supplyKey, (hasKey_iff es k).2 hk, he']⟩
    | struct fs es ph =>
      cases ph <;> first | (simp [inKey] at hx; done) | skip
      simp only [acceptedKeys] at hk
      obtain ⟨f, hf⟩ := hi.top_struct_field hk
      exact ⟨_, Or.inr ⟨fs, es, rest, rfl, rfl⟩, by simp [supplyKey, (hasKey_iff es k).2 hk, hf]⟩

end TAsm
end Ipld
