/-
  Model of the generic storage helpers (`storage/funcs.go`): `PutVec`, `PutStream`, `GetStream`, `Peek` feature-detect
  what a store can do and otherwise synthesise the behaviour from `Put` / `Get`.  DESIGN §5 C17/C18.

  A store is the key-value spec of `Model/Store.lean` (`Kv`: its contents) plus a record of what it implements and how
  it fails: optional capabilities (its own `PutVec`, `PutStream`, `GetStream`, `Peek`), a `Put` that may refuse, a
  stream that may fail to open and whose k-th `Write` may fail.  The store's own stream stages bytes outside the
  key-value contents and its commit is one `Put` of what was staged (fsstore: rename of the staging file); the
  helpers' fallback stream is a `bytes.Buffer` (its `Write` cannot fail) committed with one `Put`, once.
  The functions below are transcriptions of funcs.go, statement by statement (ties: `Props/C17skelHelpers.lean`,
  `Props/C18skelHelpers.lean`).  Core Lean only.
-/
import IpldModel.Model.Store
namespace Ipld
namespace StoreHelp
open Ipld.Store

/-- what a store implements and how it fails; results are (contents after, err == nil) -/
structure Impl where
  /-- `Put` (and the commit of the store's own stream) refuses: an error, nothing stored -/
  failPut : Bool := false
  /-- `VectorWritableStorage`: the store's own `PutVec` -/
  ownPutVec : Option (Kv → Bytes → List Bytes → Kv × Bool) := none
  /-- `StreamingWritableStorage` -/
  ownStream : Bool := false
  /-- the store's `PutStream` returns an error -/
  failOpen : Bool := false
  /-- the store's stream fails its k-th `Write` (counting from 0) -/
  failWrite : Option Nat := none
  /-- `StreamingReadableStorage`: the bytes its reader yields (`none`: an error) -/
  ownGetStream : Option (Kv → Bytes → Option Bytes) := none
  /-- `PeekableStorage` -/
  ownPeek : Option (Kv → Bytes → Option Bytes) := none

def put (st : Impl) (s : Kv) (k v : Bytes) : Kv × Bool := if st.failPut then (s, false) else (s.put k v, true)

/-- `store.Get`: `none` = an error (not found) -/
def get (s : Kv) (k : Bytes) : Option Bytes := s.get k

/-- an open stream: the store's own (`own`) or the helpers' buffer; what has been written to it; the number of
    `Write` calls so far; the fallback committer's `written` flag -/
structure Stream where
  own : Bool
  buf : Bytes
  nwrites : Nat
  used : Bool
  deriving DecidableEq, Repr

/-- `PutStream(ctx, store)`: the store's own stream, else a fresh buffer (`none`: the error return) -/
def putStream (st : Impl) : Option Stream :=
  if st.ownStream then (if st.failOpen then none else some ⟨true, [], 0, false⟩)
  else some ⟨false, [], 0, false⟩

/-- `wr.Write(blob)`: only the store's own stream can fail (then nothing of the blob counts as staged) -/
def Stream.write (st : Impl) (w : Stream) (b : Bytes) : Stream × Bool :=
  if w.own && st.failWrite == some w.nwrites then ({ w with nwrites := w.nwrites + 1 }, false)
  else ({ w with buf := w.buf ++ b, nwrites := w.nwrites + 1 }, true)

/-- `wrcommit(key)`: the fallback refuses a second use; otherwise one `Put` of everything written -/
def Stream.commit (st : Impl) (s : Kv) (w : Stream) (key : Bytes) : (Kv × Bool) × Stream :=
  if !w.own && w.used then ((s, false), w) else (put st s key w.buf, { w with used := true })

/-- `for _, blob := range blobVec { if _, err := wr.Write(blob); err != nil { return err } }` -/
def writeAll (st : Impl) : Stream → List Bytes → Stream × Bool
  | w, [] => (w, true)
  | w, b :: bs =>
    match w.write st b with
    | (w', true) => writeAll st w' bs
    | (w', false) => (w', false)

/-- `PutVec(ctx, store, key, blobVec)` -/
def putVec (st : Impl) (s : Kv) (key : Bytes) (pieces : List Bytes) : Kv × Bool :=
  match st.ownPutVec with
  | some f => f s key pieces
  | none =>
    match putStream st with
    | none => (s, false)
    | some w =>
      match writeAll st w pieces with
      | (_, false) => (s, false)
      | (w', true) => (w'.commit st s key).1

/-- the deviation: the committer called from a `defer` on every exit path once the stream is open -/
def putVecDefer (st : Impl) (s : Kv) (key : Bytes) (pieces : List Bytes) : Kv × Bool :=
  match st.ownPutVec with
  | some f => f s key pieces
  | none =>
    match putStream st with
    | none => (s, false)
    | some w =>
      match writeAll st w pieces with
      | (w', false) => ((w'.commit st s key).1.1, false)
      | (w', true) => (w'.commit st s key).1

/-- `GetStream(ctx, store, key)`: the bytes the returned reader yields -/
def getStream (st : Impl) (s : Kv) (k : Bytes) : Option Bytes :=
  match st.ownGetStream with
  | some f => f s k
  | none => get s k

/-- `Peek(ctx, store, key)` -/
def peek (st : Impl) (s : Kv) (k : Bytes) : Option Bytes :=
  match st.ownPeek with
  | some f => f s k
  | none => get s k

/-- the contract of a store's own `PutVec`: all or nothing -/
def Impl.VecAtomic (st : Impl) : Prop :=
  ∀ f, st.ownPutVec = some f → ∀ s key pieces, f s key pieces = (s, false) ∨ f s key pieces = (s.put key pieces.flatten, true)

end StoreHelp
end Ipld
