/-
  C17 — a store is a key-value map for arbitrary binary keys; the filesystem store maps a key to the path
  base / shard (base32 key) and touches nothing else.  Property theorems only (helper lemmas in
  Lemmas/Kv, Lemmas/Base32, Lemmas/StorePath).
-/
import IpldModel.Model.Store
import IpldModel.Generated.Sharding
import IpldModel.Generated.FsstoreFacts
import IpldModel.Lemmas.Kv
import IpldModel.Lemmas.Base32
import IpldModel.Lemmas.StorePath
namespace Ipld.Props.C17
open Ipld Ipld.Store Ipld.Generated

/-! ## A1: the key-value laws -/

/-- Reading after a put: the key put holds its old content if it had one, else the new content;
    every other key is unchanged. -/
theorem kv_get_put (s : Kv) (k v k' : Bytes) :
    (s.put k v).get k' =
      if k' = k then (match s.get k with | some old => some old | none => some v) else s.get k' :=
  Kv.get_put s k v k'

/-- Putting a fresh key stores the content. -/
theorem kv_put_fresh (s : Kv) (k v : Bytes) (h : s.get k = none) : (s.put k v).get k = some v := by
  rw [Kv.get_put]; simp [h]

/-- Putting an existing key keeps the old content (write-once). -/
theorem kv_put_existing (s : Kv) (k v old : Bytes) (h : s.get k = some old) : (s.put k v).get k = some old := by
  rw [Kv.get_put]; simp [h]

/-- A put never changes another key. -/
theorem kv_put_other (s : Kv) (k v k' : Bytes) (h : k' ≠ k) : (s.put k v).get k' = s.get k' := by
  rw [Kv.get_put]; simp [h]

/-- `has` is exactly "get returns something". -/
theorem kv_has_iff (s : Kv) (k : Bytes) : s.has k = true ↔ ∃ v, s.get k = some v := by
  unfold Kv.has; exact Option.isSome_iff_exists

/-- After a put the key is present, and presence of other keys is unchanged. -/
theorem kv_has_put (s : Kv) (k v k' : Bytes) : (s.put k v).has k' = (decide (k' = k) || s.has k') := by
  unfold Kv.has
  rw [Kv.get_put]
  by_cases h : k' = k
  · subst h; cases s.get k' <;> simp
  · simp [h]

/-- History, no premise: starting from the empty store, a key holds the content of the first put naming it. -/
theorem kv_history_first (h : List (Bytes × Bytes)) (k : Bytes) :
    (Kv.puts [] h).get k = (h.find? (fun e => e.1 = k)).map (·.2) := by
  rw [Kv.get_puts]; rfl

/-- History with one content per key: after the history every put `(k, v)` is readable as `v`. -/
theorem kv_history_get (h : List (Bytes × Bytes)) (hone : OneContentPerKey h) (k v : Bytes) (hm : (k, v) ∈ h) :
    (Kv.puts [] h).get k = some v := by
  rw [kv_history_first]
  cases hf : h.find? (fun e => e.1 = k) with
  | none =>
    have := List.find?_eq_none.mp hf (k, v) hm
    simp at this
  | some e =>
    have he : e ∈ h := List.mem_of_find?_eq_some hf
    have hk : e.1 = k := by simpa using List.find?_some hf
    have := hone e he (k, v) hm hk
    simp [this]

/-- History: a key that no put names stays absent. -/
theorem kv_history_absent (h : List (Bytes × Bytes)) (k : Bytes) (hk : ∀ e ∈ h, e.1 ≠ k) :
    (Kv.puts [] h).get k = none := by
  rw [kv_history_first]
  have : h.find? (fun e => e.1 = k) = none := List.find?_eq_none.mpr (fun e he => by simpa using hk e he)
  rw [this]; rfl

/-! ## A2 (T): the translated sharders are the model sharders, and their slices are in range -/

/-- `Shard_r12` as translated from Go equals the model sharder, for keys shorter than 2^63 bytes. -/
theorem shard_r12_refines (key : Bytes) (shards : List Bytes) (hl : key.length < 2 ^ 63) :
    shard_r12_src key shards = shardR12 key shards := by
  unfold shard_r12_src shardR12
  by_cases h : key.length > 2
  · have h' : goLen key > 2 := (goLen_gt key 2).mpr h
    have e1 : goSlice key (wrapI64 (goLen key - 3)) (wrapI64 (goLen key - 1)) = _ :=
      slice_src key 3 1 (by omega) (by omega) (by omega) hl
    simp only [h', h, decide_true, if_true, e1]
  · have h' : ¬ goLen key > 2 := fun x => h ((goLen_gt key 2).mp x)
    simp only [h', h, decide_false, if_false, zeros2, Bool.false_eq_true]

/-- `Shard_r122` as translated from Go equals the model sharder, for keys shorter than 2^63 bytes. -/
theorem shard_r122_refines (key : Bytes) (shards : List Bytes) (hl : key.length < 2 ^ 63) :
    shard_r122_src key shards = shardR122 key shards := by
  unfold shard_r122_src shardR122
  by_cases h4 : key.length > 4
  · have h4' : goLen key > 4 := (goLen_gt key 4).mpr h4
    have e1 : goSlice key (wrapI64 (goLen key - 5)) (wrapI64 (goLen key - 3)) = _ :=
      slice_src key 5 3 (by omega) (by omega) (by omega) hl
    have e2 : goSlice key (wrapI64 (goLen key - 3)) (wrapI64 (goLen key - 1)) = _ :=
      slice_src key 3 1 (by omega) (by omega) (by omega) hl
    simp only [h4', h4, decide_true, if_true, e1, e2]
  · have h4' : ¬ goLen key > 4 := fun x => h4 ((goLen_gt key 4).mp x)
    by_cases h2 : key.length > 2
    · have h2' : goLen key > 2 := (goLen_gt key 2).mpr h2
      have e2 : goSlice key (wrapI64 (goLen key - 3)) (wrapI64 (goLen key - 1)) = _ :=
        slice_src key 3 1 (by omega) (by omega) (by omega) hl
      simp only [h4', h4, h2, h2', decide_true, decide_false, if_true, if_false, zeros2, e2, Bool.false_eq_true]
    · have h2' : ¬ goLen key > 2 := fun x => h2 ((goLen_gt key 2).mp x)
      simp only [h4', h4, h2, h2', decide_false, if_false, zeros2, Bool.false_eq_true]

/-- `Shard_r133` as translated from Go equals the model sharder, for keys shorter than 2^63 bytes. -/
theorem shard_r133_refines (key : Bytes) (shards : List Bytes) (hl : key.length < 2 ^ 63) :
    shard_r133_src key shards = shardR133 key shards := by
  unfold shard_r133_src shardR133
  by_cases h4 : key.length > 6
  · have h4' : goLen key > 6 := (goLen_gt key 6).mpr h4
    have e1 : goSlice key (wrapI64 (goLen key - 7)) (wrapI64 (goLen key - 4)) = _ :=
      slice_src key 7 4 (by omega) (by omega) (by omega) hl
    have e2 : goSlice key (wrapI64 (goLen key - 4)) (wrapI64 (goLen key - 1)) = _ :=
      slice_src key 4 1 (by omega) (by omega) (by omega) hl
    simp only [h4', h4, decide_true, if_true, e1, e2]
  · have h4' : ¬ goLen key > 6 := fun x => h4 ((goLen_gt key 6).mp x)
    by_cases h2 : key.length > 3
    · have h2' : goLen key > 3 := (goLen_gt key 3).mpr h2
      have e2 : goSlice key (wrapI64 (goLen key - 4)) (wrapI64 (goLen key - 1)) = _ :=
        slice_src key 4 1 (by omega) (by omega) (by omega) hl
      simp only [h4', h4, h2, h2', decide_true, decide_false, if_true, if_false, zeros3, e2, Bool.false_eq_true]
    · have h2' : ¬ goLen key > 3 := fun x => h2 ((goLen_gt key 3).mp x)
      simp only [h4', h4, h2, h2', decide_false, if_false, zeros3, Bool.false_eq_true]

/-- Every slice expression of the three sharders has the form `key[l-a : l-b]` with `0 ≤ b ≤ a ≤ 8` and is
    guarded by a branch condition implying `l > a - 1`: its bounds are legal. -/
theorem slice_ok (key : Bytes) (a b : Int) (hb : 0 ≤ b) (hba : b ≤ a) (ha8 : a ≤ 8)
    (hcond : goLen key > a - 1) (hl : key.length < 2 ^ 63) :
    SliceOk key (wrapI64 (goLen key - a)) (wrapI64 (goLen key - b)) :=
  slice_in_range key a b hb hba ha8 hcond hl

/-- `Shard_r12`, branch `l > 2`: `key[l-3:l-1]` cannot panic. -/
theorem r12_slice_ok (key : Bytes) (hl : key.length < 2 ^ 63) (h : goLen key > 2) :
    SliceOk key (wrapI64 (goLen key - 3)) (wrapI64 (goLen key - 1)) :=
  slice_ok key 3 1 (by omega) (by omega) (by omega) (by omega) hl

/-- `Shard_r122`, branch `l > 4`: `key[l-5:l-3]` and `key[l-3:l-1]` cannot panic. -/
theorem r122_slices_ok_long (key : Bytes) (hl : key.length < 2 ^ 63) (h : goLen key > 4) :
    SliceOk key (wrapI64 (goLen key - 5)) (wrapI64 (goLen key - 3)) ∧
    SliceOk key (wrapI64 (goLen key - 3)) (wrapI64 (goLen key - 1)) :=
  ⟨slice_ok key 5 3 (by omega) (by omega) (by omega) (by omega) hl,
   slice_ok key 3 1 (by omega) (by omega) (by omega) (by omega) hl⟩

/-- `Shard_r122`, branch `l > 2` (after `l > 4` failed): `key[l-3:l-1]` cannot panic. -/
theorem r122_slice_ok_mid (key : Bytes) (hl : key.length < 2 ^ 63) (h : goLen key > 2) :
    SliceOk key (wrapI64 (goLen key - 3)) (wrapI64 (goLen key - 1)) :=
  slice_ok key 3 1 (by omega) (by omega) (by omega) (by omega) hl

/-- `Shard_r133`, branch `l > 6`: `key[l-7:l-4]` and `key[l-4:l-1]` cannot panic. -/
theorem r133_slices_ok_long (key : Bytes) (hl : key.length < 2 ^ 63) (h : goLen key > 6) :
    SliceOk key (wrapI64 (goLen key - 7)) (wrapI64 (goLen key - 4)) ∧
    SliceOk key (wrapI64 (goLen key - 4)) (wrapI64 (goLen key - 1)) :=
  ⟨slice_ok key 7 4 (by omega) (by omega) (by omega) (by omega) hl,
   slice_ok key 4 1 (by omega) (by omega) (by omega) (by omega) hl⟩

/-- `Shard_r133`, branch `l > 3` (after `l > 6` failed): `key[l-4:l-1]` cannot panic. -/
theorem r133_slice_ok_mid (key : Bytes) (hl : key.length < 2 ^ 63) (h : goLen key > 3) :
    SliceOk key (wrapI64 (goLen key - 4)) (wrapI64 (goLen key - 1)) :=
  slice_ok key 4 1 (by omega) (by omega) (by omega) (by omega) hl

/-! ## A3: shape of the sharders' output -/

/-- Every bundled sharder outputs shard directory names followed by the key itself; each directory name
    is `n` zeros or `n` consecutive characters of the key (`n` = 2 or 3). -/
theorem sharder_shape {n : Nat} {sh : Sharder} (hb : Bundled n sh) (key : Bytes) :
    ∃ pre, sh key [] = pre ++ [key] ∧
      ∀ c ∈ pre, c = zeros n ∨ ∃ lo hi, c = sub key lo hi ∧ hi = lo + n ∧ hi ≤ key.length := by
  exact bundled_shape hb key

/-- The last path component is the (escaped) key itself. -/
theorem sharder_last {n : Nat} {sh : Sharder} (hb : Bundled n sh) (key : Bytes) :
    (sh key []).getLast? = some key :=
  shape_getLast (bundled_shape hb) key

/-- Every shard directory name has exactly `n` characters, each `'0'` or a character of the key. -/
theorem sharder_part {n : Nat} {sh : Sharder} (hb : Bundled n sh) (key : Bytes) :
    ∀ c ∈ (sh key []).dropLast, c.length = n ∧ ∀ b ∈ c, b = 0x30 ∨ b ∈ key := by
  obtain ⟨pre, e, hp⟩ := sharder_shape hb key
  intro c hc
  rw [e, List.dropLast_concat] at hc
  exact ⟨shardPart_length (hp c hc), shardPart_mem (hp c hc)⟩

/-- Equal paths have equal escaped keys (whatever the escaping function). -/
theorem path_inj_of_escape_inj {n : Nat} {sh : Sharder} (hb : Bundled n sh) (esc : Bytes → Bytes) (k k' : Bytes)
    (h : pathForKey esc sh k = pathForKey esc sh k') : esc k = esc k' := by
  unfold pathForKey at h
  have h1 := sharder_last hb (esc k)
  rw [h, sharder_last hb (esc k')] at h1
  exact (Option.some.inj h1).symm

/-! ## A4: base32 -/

/-- The encoding uses only `A`–`Z` and `2`–`7`. -/
theorem b32_alphabet (bs : Bytes) : ∀ c ∈ b32Std bs, isB32Char c = true := b32_alphabet' bs

/-- `n` bytes encode to `⌈8n/5⌉` characters (no padding). -/
theorem b32_length (bs : Bytes) : (b32Std bs).length = (8 * bs.length + 4) / 5 := b32_length' bs

/-- A non-empty key has a non-empty encoding. -/
theorem b32_nonempty (bs : Bytes) (h : bs ≠ []) : b32Std bs ≠ [] := by
  intro e
  have hl := b32_length bs
  rw [e] at hl
  have : 0 < bs.length := List.length_pos_iff.mpr h
  simp only [List.length_nil] at hl
  omega

/-- The encoding is injective: distinct binary keys have distinct encodings. -/
theorem b32_inj {a b : Bytes} (h : b32Std a = b32Std b) : a = b := b32_inj' h

/-- RFC 4648 test vectors (without padding): "f" ↦ "MY", "foobar" ↦ "MZXW6YTBOI". -/
example : b32Std [0x66] = [0x4d, 0x59] := by decide
example : b32Std [0x66, 0x6f, 0x6f, 0x62, 0x61, 0x72] = [0x4d, 0x5a, 0x58, 0x57, 0x36, 0x59, 0x54, 0x42, 0x4f, 0x49] := by
  decide

/-! ## A5: the path stays inside the base directory -/

/-- For a non-empty key, every component of the path is a non-empty string over the base32 alphabet and `'0'`. -/
theorem path_contained {n : Nat} {sh : Sharder} (hb : Bundled n sh) (key : Bytes) (hk : key ≠ []) :
    ∀ c ∈ pathForKey b32Std sh key, safeComponent c = true := by
  have hn : 0 < n := by cases hb <;> omega
  exact safe_of_shape (bundled_shape hb) hn (b32Std key) (b32_nonempty key hk) (b32_alphabet key)

/-- Such a component is not empty, not `.` or `..`, not the staging directory, and contains neither `/` nor
    NUL: joined to the base directory the components name a file strictly inside it, outside `.temp`. -/
theorem safeComponent_safe (c : Bytes) (h : safeComponent c = true) :
    c ≠ [] ∧ c ≠ ".".toUTF8.toList ∧ c ≠ "..".toUTF8.toList ∧ c ≠ stagingDir ∧
      (0x2f : UInt8) ∉ c ∧ (0 : UInt8) ∉ c :=
  safe_props c h

/-- The hypothesis `key ≠ []` is needed: the empty key yields an empty last component (the path names the
    shard directory itself). -/
example : pathForKey b32Std shardR12 [] = [zeros 2, []] := by decide
example : ¬ ∀ c ∈ pathForKey b32Std shardR12 [], safeComponent c = true := by decide
example : ¬ ∀ c ∈ pathForKey b32Std shardR122 [], safeComponent c = true := by decide
example : ¬ ∀ c ∈ pathForKey b32Std shardR133 [], safeComponent c = true := by decide

/-! ## A6: distinct keys never share a path; the filesystem store is the key-value map -/

/-- Equal paths have equal keys. -/
theorem path_inj {n : Nat} {sh : Sharder} (hb : Bundled n sh) (k k' : Bytes)
    (h : pathForKey b32Std sh k = pathForKey b32Std sh k') : k = k' :=
  b32_inj (path_inj_of_escape_inj hb b32Std k k' h)

/-- Reading key `k'` after storing `v` under `k` returns `v` if `k' = k` and what was there before otherwise:
    files keyed by path behave as a map keyed by key. -/
theorem fs_get_put {n : Nat} {sh : Sharder} (hb : Bundled n sh) (fs : Files) (k v k' : Bytes) :
    fsGet b32Std sh (fsPut b32Std sh fs k v) k' = if k' = k then some v else fsGet b32Std sh fs k' := by
  unfold fsGet fsPut Files.write
  by_cases h : k' = k
  · subst h; simp [Files.read]
  · have hp : ¬ pathForKey b32Std sh k = pathForKey b32Std sh k' := fun e => h (path_inj hb k k' e).symm
    simp [Files.read, h, hp]

/-! ## A7 (T): facts extracted from the Go source -/

/-- `pathForKey` hands the *escaped* key to the sharding function. -/
theorem pathForKey_shards_escaped : pathForKey_shards_escaped_src = true := by decide

/-- `InitDefaults` selects base32 escaping and `Shard_r12`. -/
theorem initDefaults_fact : initDefaults_src = ["basepath", "b32enc", "sharding.Shard_r12"] := by decide

/-- The call orders extracted from `fsstore.go` are exactly those the writer model `stepWriter` follows. -/
theorem fsCalls_fact : fsCalls_src = [
    -- Put = PutStream (phase `.start`), then Write (phase `.writing (c :: rest)`), then the committer with the
    -- key (phases `.writing []` … `.done`).  The two earlier committer calls are the error paths (hook error,
    -- write error): committer with the empty key = the `fail` branch of `.writing (c :: rest)` → `.aborted`.
    ("Store.Put", ["store.PutStream", "wrCommitter", "wr.Write", "wrCommitter", "wrCommitter"]),
    -- PutStream: OpenFile(O_CREATE|O_EXCL) = step `.start → .writing chunks` (new inode, staging name bound);
    -- committer: Close = step `.writing [] → .closed` (inode sealed); then either Remove(staging)
    -- (abort: `.aborted`, staging name unbound) or pathForKey + move (phase `.closed` onwards).
    ("Store.PutStream", ["os.OpenFile", "f.Close", "os.Remove", "store.pathForKey", "move"]),
    -- move: Rename = step `.closed → .done` when the shard directory exists, else `.closed → .needDir`;
    -- haveDir = step `.needDir → .closed` (the directory now exists); second Rename = step `.closed → .done`;
    -- Remove(staging) only after Rename reported EEXIST (POSIX rename replaces instead; not a phase).
    ("move", ["os.Rename", "haveDir", "os.Rename", "os.Remove"]),
    -- haveDir: Mkdir, on ENOENT recurse to the parent and Mkdir again = the single `.needDir` step.
    ("haveDir", ["os.Mkdir", "haveDir", "os.Mkdir"])
  ] := by decide

end Ipld.Props.C17
