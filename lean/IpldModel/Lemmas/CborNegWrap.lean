/-
  The `negWrap` switch (known finding K1) is the only place where the code-faithful decoder and the
  repaired decoder part ways: the repaired run either does exactly what the faithful run does, or it
  stops with `negOverflow`.
-/
import IpldModel.Lemmas.CborDecItem
namespace Ipld
namespace Cbor

/-- `a'` is `a`, or else the `negOverflow` error. -/
def Dev {α : Type} (a' a : R α) : Prop := a' = a ∨ a' = .error .negOverflow

theorem Dev.refl {α : Type} (a : R α) : Dev a a := Or.inl rfl

theorem Dev.bind {α β : Type} {x' x : R α} {f' f : α → R β} (hx : Dev x' x) (hf : ∀ a, Dev (f' a) (f a)) :
    Dev (x' >>= f') (x >>= f) := by
  rcases hx with rfl | rfl
  · cases x' with
    | error e => exact Or.inl rfl
    | ok a => exact hf a
  · exact Or.inr rfl

theorem decList_dev {item' item : DS → R (DM × DS)} (h : ∀ s, Dev (item' s) (item s)) :
    ∀ (n : Nat) (s : DS), Dev (decList item' n s) (decList item n s)
  | 0, s => Dev.refl _
  | n + 1, s => by
    simp only [decList]
    apply Dev.bind (h s)
    intro ⟨x, s1⟩
    apply Dev.bind (decList_dev h n s1)
    intro ⟨xs, s2⟩
    exact Dev.refl _

theorem decKey_cfg_eq {cfg' cfg : DecCfg} (hr : cfg'.relaxed = cfg.relaxed) (s : DS) : decKey cfg' s = decKey cfg s := by
  unfold decKey
  rw [hr]

theorem decMap_dev {cfg' cfg : DecCfg} (hr : cfg'.relaxed = cfg.relaxed) {item' item : DS → R (DM × DS)}
    (h : ∀ s, Dev (item' s) (item s)) :
    ∀ (n : Nat) (seen : List Bytes) (s : DS), Dev (decMap cfg' item' n seen s) (decMap cfg item n seen s)
  | 0, seen, s => Dev.refl _
  | n + 1, seen, s => by
    simp only [decMap, decKey_cfg_eq hr]
    apply Dev.bind (Dev.refl _)
    intro ⟨k, s1⟩
    apply Dev.bind (Dev.refl _)
    intro s2
    simp only []
    split
    · exact Dev.refl _
    · apply Dev.bind (h s2)
      intro ⟨v, s3⟩
      apply Dev.bind (decMap_dev hr h n (k :: seen) s3)
      intro ⟨es, s4⟩
      exact Dev.refl _

theorem decItem_dev {cfg' cfg : DecCfg} (hr : cfg'.relaxed = cfg.relaxed) (hl : cfg'.allowLinks = cfg.allowLinks)
    (hd : cfg'.maxDepth = cfg.maxDepth) (hw : cfg'.negWrap = false) :
    ∀ (fuel depth : Nat) (extra : Int) (tag : Option Nat) (s : DS),
      Dev (decItem cfg' fuel depth extra tag s) (decItem cfg fuel depth extra tag s) := by
  intro fuel
  induction fuel with
  | zero => intro depth extra tag s; rw [decItem_zero, decItem_zero]; exact Dev.refl _
  | succ fuel ih =>
    intro depth extra tag s
    obtain ⟨rest0, B⟩ := s
    cases rest0 with
    | nil => rw [decItem_nil, decItem_nil]; exact Dev.refl _
    | cons b0 rest =>
      have hb0 := b0.toNat_lt
      by_cases c1 : b0.toNat = 0xf6 ∨ b0.toNat = 0xf7
      · rw [decItem_null _ _ _ _ _ _ _ _ c1, decItem_null _ _ _ _ _ _ _ _ c1]; exact Dev.refl _
      by_cases c2 : b0.toNat = 0xf4
      · rw [decItem_false _ _ _ _ _ _ _ _ c2, decItem_false _ _ _ _ _ _ _ _ c2]; exact Dev.refl _
      by_cases c3 : b0.toNat = 0xf5
      · rw [decItem_true _ _ _ _ _ _ _ _ c3, decItem_true _ _ _ _ _ _ _ _ c3]; exact Dev.refl _
      by_cases c4 : b0.toNat = 0xf9
      · rw [decItem_f16 _ _ _ _ _ _ _ _ c4, decItem_f16 _ _ _ _ _ _ _ _ c4, hr]; exact Dev.refl _
      by_cases c5 : b0.toNat = 0xfa
      · rw [decItem_f32 _ _ _ _ _ _ _ _ c5, decItem_f32 _ _ _ _ _ _ _ _ c5, hr]; exact Dev.refl _
      by_cases c6 : b0.toNat = 0xfb
      · rw [decItem_f64 _ _ _ _ _ _ _ _ c6, decItem_f64 _ _ _ _ _ _ _ _ c6, hr]; exact Dev.refl _
      by_cases c7 : b0.toNat = 0x5f ∨ b0.toNat = 0x7f ∨ b0.toNat = 0x9f ∨ b0.toNat = 0xbf
      · rw [decItem_indef _ _ _ _ _ _ _ _ c7, decItem_indef _ _ _ _ _ _ _ _ c7]; exact Dev.refl _
      have hmaj : b0.toNat / 32 = 0 ∨ b0.toNat / 32 = 1 ∨ b0.toNat / 32 = 2 ∨ b0.toNat / 32 = 3 ∨
          b0.toNat / 32 = 4 ∨ b0.toNat / 32 = 5 ∨ b0.toNat / 32 = 6 ∨ b0.toNat / 32 = 7 := by omega
      rcases hmaj with m | m | m | m | m | m | m | m
      · rw [decItem_m0 _ _ _ _ _ _ _ _ m, decItem_m0 _ _ _ _ _ _ _ _ m, hr]; exact Dev.refl _
      · rw [decItem_m1 _ _ _ _ _ _ _ _ m, decItem_m1 _ _ _ _ _ _ _ _ m, hr, hw]
        apply Dev.bind (Dev.refl _)
        intro ⟨n, r⟩
        simp only [Bool.false_eq_true, if_false]
        by_cases hn : n + 1 < 18446744073709551616
        · have : (if cfg.negWrap = true then (n + 1) % 18446744073709551616 else n + 1) = n + 1 := by
            split
            · exact Nat.mod_eq_of_lt hn
            · rfl
          rw [this]; exact Dev.refl _
        · right
          have : n + 1 > 9223372036854775808 := by omega
          rw [if_pos this]
      · rw [decItem_m2 _ _ _ _ _ _ _ _ m (by omega), decItem_m2 _ _ _ _ _ _ _ _ m (by omega), hr, hl]
        exact Dev.refl _
      · rw [decItem_m3 _ _ _ _ _ _ _ _ m (by omega), decItem_m3 _ _ _ _ _ _ _ _ m (by omega), hr]
        exact Dev.refl _
      · rw [decItem_m4 _ _ _ _ _ _ _ _ m (by omega), decItem_m4 _ _ _ _ _ _ _ _ m (by omega), hr, hd]
        apply Dev.bind (Dev.refl _)
        intro ⟨n, r⟩
        apply Dev.bind (Dev.refl _)
        intro s0
        cases tag with
        | some t => exact Dev.refl _
        | none =>
          simp only []
          split
          · exact Dev.refl _
          · apply Dev.bind (Dev.refl _)
            intro s1
            apply Dev.bind (decList_dev (ih (depth + 1) 4 none) n s1)
            intro ⟨xs, s2⟩
            exact Dev.refl _
      · rw [decItem_m5 _ _ _ _ _ _ _ _ m (by omega), decItem_m5 _ _ _ _ _ _ _ _ m (by omega), hr, hd]
        apply Dev.bind (Dev.refl _)
        intro ⟨n, r⟩
        apply Dev.bind (Dev.refl _)
        intro s0
        cases tag with
        | some t => exact Dev.refl _
        | none =>
          simp only []
          split
          · exact Dev.refl _
          · apply Dev.bind (Dev.refl _)
            intro s1
            apply Dev.bind (decMap_dev hr (ih (depth + 1) 0 none) n [] s1)
            intro ⟨xs, s2⟩
            exact Dev.refl _
      · rw [decItem_m6 _ _ _ _ _ _ _ _ m, decItem_m6 _ _ _ _ _ _ _ _ m, hr]
        cases tag with
        | some t => exact Dev.refl _
        | none =>
          simp only []
          apply Dev.bind (Dev.refl _)
          intro ⟨t, r⟩
          exact ih depth extra (some t) _
      · rw [decItem_m7 _ _ _ _ _ _ _ _ m c1 c2 c3 c4 c5 c6, decItem_m7 _ _ _ _ _ _ _ _ m c1 c2 c3 c4 c5 c6]
        exact Dev.refl _

/-- Switching `negWrap` off changes the outcome of `decode` in one way only: it may turn it into the
    `negOverflow` error. -/
theorem decode_dev (cfg : DecCfg) (bs : Bytes) :
    Dev (decode { cfg with negWrap := false } bs) (decode cfg bs) := by
  unfold decode
  apply Dev.bind
  · exact decItem_dev (cfg' := { cfg with negWrap := false }) (cfg := cfg) rfl rfl rfl rfl _ _ _ _ _
  · intro ⟨v, s⟩
    exact Dev.refl _

end Cbor
end Ipld
