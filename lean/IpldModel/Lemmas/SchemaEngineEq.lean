/-
  What the builders can see of an engine.  Two engines that agree on the fourteen flags that are read on
  their own and on the two flag/driving-mode combinations `keyAsmDupMapKey && viaKeys`,
  `viaNode && assignNodeSkipsBegin` (`Engine.Same`) build the same thing from every input: the driving
  modes `viaKeys`, `viaNode` matter only together with their flag, and each of the two flags only together
  with its driving mode.  In particular an engine with all sixteen flags off is the ideal engine, however
  it is driven (`build_of_flags_off`).
-/
import IpldModel.Lemmas.SchemaGenFlags
namespace Ipld
namespace Schema

/-- No builder can tell `e` and `e'` apart. -/
structure Engine.Same (e e' : Engine) : Prop where
  dupStructField : e.dupStructField = e'.dupStructField
  reuseSlot : e.reuseSlot = e'.reuseSlot
  dupMapKey : e.dupMapKey = e'.dupMapKey
  unionMulti : e.unionMulti = e'.unionMulti
  renameFallback : e.renameFallback = e'.renameFallback
  discFallback : e.discFallback = e'.discFallback
  enumTypeAnyString : e.enumTypeAnyString = e'.enumTypeAnyString
  enumNameAtRepr : e.enumNameAtRepr = e'.enumNameAtRepr
  nullableUnionPanic : e.nullableUnionPanic = e'.nullableUnionPanic
  lpShortPair : e.lpShortPair = e'.lpShortPair
  lpUnknownKeyPanic : e.lpUnknownKeyPanic = e'.lpUnknownKeyPanic
  tupleShortAccepted : e.tupleShortAccepted = e'.tupleShortAccepted
  prefixEmptyDelimSplit : e.prefixEmptyDelimSplit = e'.prefixEmptyDelimSplit
  kindedNullRejected : e.kindedNullRejected = e'.kindedNullRejected
  /-- `keyAsmDupMapKey` is read only together with the driving mode `viaKeys` -/
  keys : (e.keyAsmDupMapKey && e.viaKeys) = (e'.keyAsmDupMapKey && e'.viaKeys)
  /-- `assignNodeSkipsBegin` is read only together with the driving mode `viaNode` -/
  node : (e.viaNode && e.assignNodeSkipsBegin) = (e'.viaNode && e'.assignNodeSkipsBegin)

theorem Engine.Same.refl (e : Engine) : e.Same e :=
  ⟨rfl, rfl, rfl, rfl, rfl, rfl, rfl, rfl, rfl, rfl, rfl, rfl, rfl, rfl, rfl, rfl⟩

/-- Every flag of `Engine.flags` off: the engine is the ideal one, up to how it is driven. -/
theorem Engine.same_ideal_of_flags_off (e : Engine) (h : e.flags.all (fun f => !f.2.1) = true) :
    e.Same Engine.ideal := by
  simp only [Engine.flags, List.all_cons, List.all_nil, Bool.and_true, Bool.and_eq_true,
    Bool.not_eq_true'] at h
  obtain ⟨h1, h2, h3, h4, h5, h6, h7, h8, h9, h10, h11, h12, h13, h14, h15, h16⟩ := h
  exact ⟨h1, h2, h3, h4, h5, h6, h7, h8, h9, h10, h11, h12, h13, h14, by simp [h15], by simp [h16]⟩

/-! ## Lookups -/

theorem fieldByKey_congr {e e' : Engine} (h : e.Same e') (lvl : Level) (fs : List Field) (k : Bytes) :
    fieldByKey e lvl fs k = fieldByKey e' lvl fs k := by
  unfold fieldByKey
  simp only [h.renameFallback]

theorem memberByKey_congr {e e' : Engine} (h : e.Same e') (lvl : Level) (ms : List Member) (k : Bytes) :
    memberByKey e lvl ms k = memberByKey e' lvl ms k := by
  unfold memberByKey
  simp only [h.discFallback]

theorem curOf_congr {e e' : Engine} (h : e.Same e') (st : SSt) (i : Nat) (f : Field) :
    st.curOf e i f = st.curOf e' i f := by
  unfold SSt.curOf
  simp only [h.reuseSlot]

theorem nilSlotAssign_congr {e e' : Engine} (h : e.Same e') (lvl : Level) (m : Bool) (ty : Ty) (d : DM) :
    nilSlotAssign e lvl m ty d = nilSlotAssign e' lvl m ty d := by
  unfold nilSlotAssign
  simp only [h.node, fieldByKey_congr h, memberByKey_congr h]

/-! ## Scalars -/

mutual
theorem buildScalar_congr (e e' : Engine) (h : e.Same e') : (ty : Ty) → ∀ lvl nul d,
    buildScalar e lvl nul d ty = buildScalar e' lvl nul d ty
  | .bool, _, _, _ => by simp only [buildScalar]
  | .int, _, _, _ => by simp only [buildScalar]
  | .float, _, _, _ => by simp only [buildScalar]
  | .str, _, _, _ => by simp only [buildScalar]
  | .bytes, _, _, _ => by simp only [buildScalar]
  | .link, _, _, _ => by simp only [buildScalar]
  | .any, _, _, _ => by simp only [buildScalar]
  | .list _ _, _, _, _ => by simp only [buildScalar]
  | .map _ _, _, _, _ => by simp only [buildScalar]
  | .struct fs r, lvl, nul, d => by
    have ih := buildJoin_congr e e' h fs
    unfold buildScalar
    simp only [ih]
  | .union ms r, lvl, nul, d => by
    have i1 := buildKinded_congr e e' h ms
    have i2 := buildPrefix_congr e e' h ms
    have i3 := buildPrefixNoDelim_congr e e' h ms
    unfold buildScalar
    simp only [h.prefixEmptyDelimSplit, i1, i2, i3]
  | .enum ms r, lvl, nul, d => by
    unfold buildScalar
    simp only [h.enumTypeAnyString, h.enumNameAtRepr]
theorem buildJoin_congr (e e' : Engine) (h : e.Same e') : (fs : Fields) → ∀ ps,
    buildJoin e fs ps = buildJoin e' fs ps
  | .nil, [] => by simp only [buildJoin]
  | .nil, _ :: _ => by simp only [buildJoin]
  | .cons _ _ _ _ _ _, [] => by simp only [buildJoin]
  | .cons n _ _ _ t rest, p :: ps => by
    have i1 := buildScalar_congr e e' h t
    have i2 := buildJoin_congr e e' h rest
    unfold buildJoin
    simp only [i1, i2]
theorem buildKinded_congr (e e' : Engine) (h : e.Same e') : (ms : Members) → ∀ nul d,
    buildKinded e nul d ms = buildKinded e' nul d ms
  | .nil, _, _ => by simp only [buildKinded]
  | .cons n _ k t rest, nul, d => by
    have i1 := buildScalar_congr e e' h t
    have i2 := buildKinded_congr e e' h rest
    unfold buildKinded
    simp only [h.nullableUnionPanic, i1, i2]
theorem buildPrefix_congr (e e' : Engine) (h : e.Same e') : (ms : Members) → ∀ nul p r,
    buildPrefix e nul p r ms = buildPrefix e' nul p r ms
  | .nil, _, _, _ => by simp only [buildPrefix]
  | .cons n disc _ t rest, nul, p, r => by
    have i1 := buildScalar_congr e e' h t
    have i2 := buildPrefix_congr e e' h rest
    unfold buildPrefix
    simp only [h.nullableUnionPanic, i1, i2]
theorem buildPrefixNoDelim_congr (e e' : Engine) (h : e.Same e') : (ms : Members) → ∀ nul s,
    buildPrefixNoDelim e nul s ms = buildPrefixNoDelim e' nul s ms
  | .nil, _, _ => by simp only [buildPrefixNoDelim]
  | .cons n disc _ t rest, nul, s => by
    have i1 := buildScalar_congr e e' h t
    have i2 := buildPrefixNoDelim_congr e e' h rest
    unfold buildPrefixNoDelim
    simp only [h.nullableUnionPanic, i1, i2]
end

/-! ## Kinded dispatch -/

mutual
theorem resolveKinded_congr (e e' : Engine) (h : e.Same e') : (ty : Ty) → ∀ nul k,
    resolveKinded e nul k ty = resolveKinded e' nul k ty
  | .union ms .kinded, nul, k => by
    have ih := resolveMembers_congr e e' h ms
    unfold resolveKinded
    exact ih nul k
  | .union ms .keyed, _, _ => by simp only [resolveKinded]
  | .union ms (.stringprefix _), _, _ => by simp only [resolveKinded]
  | .bool, _, _ => by simp only [resolveKinded]
  | .int, _, _ => by simp only [resolveKinded]
  | .float, _, _ => by simp only [resolveKinded]
  | .str, _, _ => by simp only [resolveKinded]
  | .bytes, _, _ => by simp only [resolveKinded]
  | .link, _, _ => by simp only [resolveKinded]
  | .any, _, _ => by simp only [resolveKinded]
  | .list _ _, _, _ => by simp only [resolveKinded]
  | .map _ _, _, _ => by simp only [resolveKinded]
  | .struct _ _, _, _ => by simp only [resolveKinded]
  | .enum _ _, _, _ => by simp only [resolveKinded]
theorem resolveMembers_congr (e e' : Engine) (h : e.Same e') : (ms : Members) → ∀ nul k,
    resolveMembers e nul k ms = resolveMembers e' nul k ms
  | .nil, _, _ => by simp only [resolveMembers]
  | .cons n _ k' t rest, nul, k => by
    have i1 := resolveKinded_congr e e' h t
    have i2 := resolveMembers_congr e e' h rest
    unfold resolveMembers
    simp only [h.nullableUnionPanic, i1, i2]
end

/-! ## The builders -/

mutual
theorem build_congr (e e' : Engine) (h : e.Same e') : (d : DM) → ∀ lvl ty nul cur,
    build e lvl ty nul cur d = build e' lvl ty nul cur d
  | .null, lvl, ty, nul, cur => by
    unfold build
    simp only [h.kindedNullRejected]
  | .bool b, lvl, ty, nul, cur => by unfold build; exact buildScalar_congr e e' h ty lvl nul _
  | .int b, lvl, ty, nul, cur => by unfold build; exact buildScalar_congr e e' h ty lvl nul _
  | .float b, lvl, ty, nul, cur => by unfold build; exact buildScalar_congr e e' h ty lvl nul _
  | .str b, lvl, ty, nul, cur => by unfold build; exact buildScalar_congr e e' h ty lvl nul _
  | .bytes b, lvl, ty, nul, cur => by unfold build; exact buildScalar_congr e e' h ty lvl nul _
  | .link b, lvl, ty, nul, cur => by unfold build; exact buildScalar_congr e e' h ty lvl nul _
  | .list xs, lvl, ty, nul, cur => by
    have i1 := buildList_congr e e' h xs
    have i2 := buildTuple_congr e e' h xs
    have i3 := buildPairs_congr e e' h xs
    unfold build
    simp only [resolveKinded_congr e e' h, i1, i2, i3]
  | .map es, lvl, ty, nul, cur => by
    have i1 := buildMap_congr e e' h es
    have i2 := buildStruct_congr e e' h es
    have i3 := buildUnion_congr e e' h es
    unfold build
    simp only [resolveKinded_congr e e' h, h.node, i1, i2, i3]
theorem buildList_congr (e e' : Engine) (h : e.Same e') : (xs : DMs) → ∀ lvl ety enul acc,
    buildList e lvl ety enul acc xs = buildList e' lvl ety enul acc xs
  | .nil, _, _, _, _ => by simp only [buildList]
  | .cons x xs, lvl, ety, enul, acc => by
    have i1 := build_congr e e' h x
    have i2 := buildList_congr e e' h xs
    unfold buildList
    simp only [nilSlotAssign_congr h, i1, i2]
theorem buildMap_congr (e e' : Engine) (h : e.Same e') : (es : DMKVs) → ∀ lvl vty vnul acc,
    buildMap e lvl vty vnul acc es = buildMap e' lvl vty vnul acc es
  | .nil, _, _, _, _ => by simp only [buildMap]
  | .cons k v es, lvl, vty, vnul, acc => by
    have i1 := build_congr e e' h v
    have i2 := buildMap_congr e e' h es
    unfold buildMap
    simp only [nilSlotAssign_congr h, h.dupMapKey, h.keys, i1, i2]
theorem buildStruct_congr (e e' : Engine) (h : e.Same e') : (es : DMKVs) → ∀ lvl fs st,
    buildStruct e lvl fs st es = buildStruct e' lvl fs st es
  | .nil, _, _, _ => by simp only [buildStruct]
  | .cons k v es, lvl, fs, st => by
    have i1 := build_congr e e' h v
    have i2 := buildStruct_congr e e' h es
    unfold buildStruct
    simp only [nilSlotAssign_congr h, fieldByKey_congr h, curOf_congr h, h.dupStructField, i1, i2]
theorem buildTuple_congr (e e' : Engine) (h : e.Same e') : (xs : DMs) → ∀ fs st i,
    buildTuple e fs st i xs = buildTuple e' fs st i xs
  | .nil, _, _, _ => by
    unfold buildTuple
    simp only [h.tupleShortAccepted]
  | .cons x xs, fs, st, i => by
    have i1 := build_congr e e' h x
    have i2 := buildTuple_congr e e' h xs
    unfold buildTuple
    simp only [nilSlotAssign_congr h, curOf_congr h, i1, i2]
theorem buildPairs_congr (e e' : Engine) (h : e.Same e') : (xs : DMs) → ∀ fs st,
    buildPairs e fs st xs = buildPairs e' fs st xs
  | .nil, _, _ => by simp only [buildPairs]
  | .cons (.list .nil) ps, fs, st => by
    have i2 := buildPairs_congr e e' h ps
    unfold buildPairs
    simp only [h.lpShortPair, i2]
  | .cons (.list (.cons (.str _) .nil)) ps, fs, st => by
    have i2 := buildPairs_congr e e' h ps
    unfold buildPairs
    simp only [h.lpShortPair, i2]
  | .cons (.list (.cons (.str k) (.cons v rest))) ps, fs, st => by
    have i1 := build_congr e e' h v
    have i2 := buildPairs_congr e e' h ps
    unfold buildPairs
    simp only [h.lpUnknownKeyPanic, h.dupStructField, curOf_congr h, i1, i2]
  | .cons .null ps, _, _ => by simp only [buildPairs]
  | .cons (.bool _) ps, _, _ => by simp only [buildPairs]
  | .cons (.int _) ps, _, _ => by simp only [buildPairs]
  | .cons (.float _) ps, _, _ => by simp only [buildPairs]
  | .cons (.str _) ps, _, _ => by simp only [buildPairs]
  | .cons (.bytes _) ps, _, _ => by simp only [buildPairs]
  | .cons (.link _) ps, _, _ => by simp only [buildPairs]
  | .cons (.map _) ps, _, _ => by simp only [buildPairs]
  | .cons (.list (.cons .null _)) ps, _, _ => by simp only [buildPairs]
  | .cons (.list (.cons (.bool _) _)) ps, _, _ => by simp only [buildPairs]
  | .cons (.list (.cons (.int _) _)) ps, _, _ => by simp only [buildPairs]
  | .cons (.list (.cons (.float _) _)) ps, _, _ => by simp only [buildPairs]
  | .cons (.list (.cons (.bytes _) _)) ps, _, _ => by simp only [buildPairs]
  | .cons (.list (.cons (.link _) _)) ps, _, _ => by simp only [buildPairs]
  | .cons (.list (.cons (.list _) _)) ps, _, _ => by simp only [buildPairs]
  | .cons (.list (.cons (.map _) _)) ps, _, _ => by simp only [buildPairs]
theorem buildUnion_congr (e e' : Engine) (h : e.Same e') : (es : DMKVs) → ∀ lvl ms cur n,
    buildUnion e lvl ms cur n es = buildUnion e' lvl ms cur n es
  | .nil, _, _, _, _ => by simp only [buildUnion]
  | .cons k v es, lvl, ms, cur, n => by
    have i1 := build_congr e e' h v
    have i2 := buildUnion_congr e e' h es
    unfold buildUnion
    simp only [h.unionMulti, memberByKey_congr h, i1, i2]
end

/-- **An engine with every flag off is the ideal engine, however it is driven.**  The driving modes
    `viaKeys` / `viaNode` matter only together with `keyAsmDupMapKey` / `assignNodeSkipsBegin`. -/
theorem build_of_flags_off (e : Engine) (h : e.flags.all (fun f => !f.2.1) = true) (lvl : Level) (ty : Ty)
    (nul : Bool) (cur : Option TL) (d : DM) :
    build e lvl ty nul cur d = build Engine.ideal lvl ty nul cur d :=
  build_congr e Engine.ideal (e.same_ideal_of_flags_off h) d lvl ty nul cur

end Schema
end Ipld
