/-
  `hstep`/`hdeliver` as relations over the heap-level building blocks, well-formed histories, the
  builder invariant `HInvO` and its preservation, the frame property (objects that are not under
  construction look the same after a step) and the write footprint.  Core Lean only.
-/
import IpldModel.Lemmas.HeapInv
set_option linter.unusedSimpArgs false
set_option linter.unusedVariables false
namespace Ipld
namespace Heap
open Asm

/-! ### `hstep` in terms of the building blocks -/

/-- the current object is in value-assembler position -/
def valuePos (st : HSt) : Bool :=
  match st.frames with
  | [] => st.root.isNone
  | .map _ .midValue :: _ => true
  | .list _ .midValue :: _ => true
  | _ => false

def pushMap (st : HSt) (hint : Int) : HSt :=
  { st with h := hNewMap st.h (hintCap hint), frames := .map st.h.objs.length .init :: st.frames }

def pushList (st : HSt) (hint : Int) : HSt :=
  { st with h := hNewList st.h (hintCap hint), frames := .list st.h.objs.length .init :: st.frames }

def addEntry (st : HSt) (id : Nat) (k : Bytes) (ph : MPhase) (rest : List HFrame) : HSt :=
  { st with h := hAppend st.h id (.entry k none), frames := .map id ph :: rest,
            written := (appendSlice st.h (objAt st.h id).slice (.entry k none)).2.2 ++ [.objHdr id] ++ st.written }

def markFin (st : HSt) (id : Nat) (rest : List HFrame) : HSt :=
  { st with h := hFinish st.h id, frames := rest }

def doShortcut (st : HSt) (src : Nat) : HSt :=
  { st with h := hCopy st.h src, root := some (.obj st.h.objs.length) }

inductive HDeliver (st : HSt) (v : NRef) : HSt → Prop
  | noop : HDeliver st v st
  | root : st.frames = [] → HDeliver st v { st with root := some v }
  | map (id rest t m k o) : st.frames = .map id .midValue :: rest → objAt st.h id = .map t m →
      (arrAt st.h t.arr).getD (t.len - 1) .empty = .entry k o →
      HDeliver st v { st with h := hSetLast st.h t m k v, frames := .map id .init :: rest,
                              written := [.arrCell t.arr (t.len - 1), .gomap m] ++ st.written }
  | list (id rest x) : st.frames = .list id .midValue :: rest → objAt st.h id = .list x →
      HDeliver st v { st with h := hAppend st.h id (.item v), frames := .list id .init :: rest,
                              written := (appendSlice st.h x (.item v)).2.2 ++ [.objHdr id] ++ st.written }

theorem hdeliver_rel (st : HSt) (v : NRef) : HDeliver st v (hdeliver st v) := by
  obtain ⟨h, fr, rt, w⟩ := st
  cases fr with
  | nil => exact .root rfl
  | cons f rest =>
    cases f with
    | map id ph =>
      cases ph with
      | midValue =>
        simp only [hdeliver]
        split
        · rename_i t m ho
          split
          · rename_i k o hc
            exact .map id rest t m k o rfl ho hc
          · exact .noop
        · exact .noop
      | _ => exact .noop
    | list id ph =>
      cases ph with
      | midValue =>
        simp only [hdeliver]
        split
        · rename_i x ho
          have := HDeliver.list (st := ⟨h, .list id .midValue :: rest, rt, w⟩) (v := v) id rest x rfl ho
          simp only [hAppend] at this
          have e : objAt h id = .list x := ho
          simp only [e, Obj.slice, Obj.withSlice] at this
          exact this
        · exact .noop
      | _ => exact .noop

theorem addEntry_eq {st : HSt} {id : Nat} {t : Slice} {m : Nat} (k : Bytes) (ph : MPhase)
    (rest : List HFrame) (ho : objAt st.h id = .map t m) :
    addEntry st id k ph rest =
      { st with h := setObj (appendSlice st.h t (.entry k none)).1 id (.map (appendSlice st.h t (.entry k none)).2.1 m),
                frames := .map id ph :: rest,
                written := (appendSlice st.h t (.entry k none)).2.2 ++ [.objHdr id] ++ st.written } := by
  simp only [addEntry, hAppend, ho, Obj.slice, Obj.withSlice]

inductive HStep (st : HSt) : HOp → HSt → Prop
  | noop (op) : HStep st op st
  | reset : HStep st .reset { st with frames := [], root := none }
  | beginMap (hint) : valuePos st = true → HStep st (.beginMap hint) (pushMap st hint)
  | beginList (hint) : valuePos st = true → HStep st (.beginList hint) (pushList st hint)
  | assignScalar (d) : valuePos st = true → HStep st (.assignScalar d) (hdeliver st (.scalar d))
  | assignNode (r) : valuePos st = true → HStep st (.assignNode r) (hdeliver st r)
  | shortcut (src) : st.frames = [] → st.root = none → HStep st (.assignNodeShortcut src) (doShortcut st src)
  | assembleKey (id rest) : st.frames = .map id .init :: rest →
      HStep st .assembleKey { st with frames := .map id .midKey :: rest }
  | assembleEntry (id rest t m k) : st.frames = .map id .init :: rest → objAt st.h id = .map t m →
      gomapHas st.h m k = false → HStep st (.assembleEntry k) (addEntry st id k .midValue rest)
  | keyDup (id rest t m k) : st.frames = .map id .midKey :: rest → objAt st.h id = .map t m →
      gomapHas st.h m k = true → HStep st (.keyString k) { st with frames := .map id .init :: rest }
  | keyString (id rest t m k) : st.frames = .map id .midKey :: rest → objAt st.h id = .map t m →
      gomapHas st.h m k = false → HStep st (.keyString k) (addEntry st id k .expectValue rest)
  | mapValue (id rest) : st.frames = .map id .expectValue :: rest →
      HStep st .assembleValue { st with frames := .map id .midValue :: rest }
  | listValue (id rest) : st.frames = .list id .init :: rest →
      HStep st .assembleValue { st with frames := .list id .midValue :: rest }
  | finishMap (id rest) : st.frames = .map id .init :: rest →
      HStep st .finish (hdeliver (markFin st id rest) (.obj id))
  | finishList (id rest) : st.frames = .list id .init :: rest →
      HStep st .finish (hdeliver (markFin st id rest) (.obj id))

theorem hstep_beginMap (st : HSt) (hint : Int) :
    hstep st (.beginMap hint) = if valuePos st then pushMap st hint else st := by
  obtain ⟨h, fr, rt, w⟩ := st
  cases fr with
  | nil => cases rt <;> simp [hstep, valuePos, pushMap, hNewMap, allocArr, allocGomap, allocObj]
  | cons f rest =>
    cases f with
    | map id ph => cases ph <;> simp [hstep, valuePos, pushMap, hNewMap, allocArr, allocGomap, allocObj]
    | list id ph => cases ph <;> simp [hstep, valuePos, pushMap, hNewMap, allocArr, allocGomap, allocObj]

theorem hstep_beginList (st : HSt) (hint : Int) :
    hstep st (.beginList hint) = if valuePos st then pushList st hint else st := by
  obtain ⟨h, fr, rt, w⟩ := st
  cases fr with
  | nil => cases rt <;> simp [hstep, valuePos, pushList, hNewList, allocArr, allocObj]
  | cons f rest =>
    cases f with
    | map id ph => cases ph <;> simp [hstep, valuePos, pushList, hNewList, allocArr, allocObj]
    | list id ph => cases ph <;> simp [hstep, valuePos, pushList, hNewList, allocArr, allocObj]

theorem hstep_assignScalar (st : HSt) (d : DM) :
    hstep st (.assignScalar d) = if valuePos st then hdeliver st (.scalar d) else st := by
  obtain ⟨h, fr, rt, w⟩ := st
  cases fr with
  | nil => cases rt <;> simp [hstep, valuePos]
  | cons f rest =>
    cases f with
    | map id ph => cases ph <;> simp [hstep, valuePos]
    | list id ph => cases ph <;> simp [hstep, valuePos]

theorem hstep_assignNode (st : HSt) (r : NRef) :
    hstep st (.assignNode r) = if valuePos st then hdeliver st r else st := by
  obtain ⟨h, fr, rt, w⟩ := st
  cases fr with
  | nil => cases rt <;> simp [hstep, valuePos]
  | cons f rest =>
    cases f with
    | map id ph => cases ph <;> simp [hstep, valuePos]
    | list id ph => cases ph <;> simp [hstep, valuePos]

theorem hstep_shortcut (st : HSt) (src : Nat) :
    hstep st (.assignNodeShortcut src) =
      if st.frames = [] ∧ st.root = none then doShortcut st src else st := by
  obtain ⟨h, fr, rt, w⟩ := st
  cases fr with
  | nil => cases rt <;> simp [hstep, doShortcut, hCopy, allocObj, objAt]
  | cons f rest =>
    cases f with
    | map id ph => cases ph <;> simp [hstep]
    | list id ph => cases ph <;> simp [hstep]

theorem hstep_rel (st : HSt) (op : HOp) : HStep st op (hstep st op) := by
  cases op with
  | reset => exact .reset
  | beginMap hint =>
    rw [hstep_beginMap]; split
    · rename_i hv; exact .beginMap hint hv
    · exact .noop _
  | beginList hint =>
    rw [hstep_beginList]; split
    · rename_i hv; exact .beginList hint hv
    · exact .noop _
  | assignScalar d =>
    rw [hstep_assignScalar]; split
    · rename_i hv; exact .assignScalar d hv
    · exact .noop _
  | assignNode r =>
    rw [hstep_assignNode]; split
    · rename_i hv; exact .assignNode r hv
    · exact .noop _
  | assignNodeShortcut src =>
    rw [hstep_shortcut]; split
    · rename_i hv; exact .shortcut src hv.1 hv.2
    · exact .noop _
  | assembleKey =>
    obtain ⟨h, fr, rt, w⟩ := st
    cases fr with
    | nil => exact .noop _
    | cons f rest =>
      cases f with
      | map id ph =>
        cases ph with
        | init => exact .assembleKey id rest rfl
        | _ => exact .noop _
      | list id ph => cases ph <;> exact .noop _
  | assembleValue =>
    obtain ⟨h, fr, rt, w⟩ := st
    cases fr with
    | nil => exact .noop _
    | cons f rest =>
      cases f with
      | map id ph =>
        cases ph with
        | expectValue => exact .mapValue id rest rfl
        | _ => exact .noop _
      | list id ph =>
        cases ph with
        | init => exact .listValue id rest rfl
        | _ => exact .noop _
  | finish =>
    obtain ⟨h, fr, rt, w⟩ := st
    cases fr with
    | nil => exact .noop _
    | cons f rest =>
      cases f with
      | map id ph =>
        cases ph with
        | init => exact .finishMap id rest rfl
        | _ => exact .noop _
      | list id ph =>
        cases ph with
        | init => exact .finishList id rest rfl
        | _ => exact .noop _
  | assembleEntry k =>
    obtain ⟨h, fr, rt, w⟩ := st
    cases fr with
    | nil => exact .noop _
    | cons f rest =>
      cases f with
      | map id ph =>
        cases ph with
        | init =>
          simp only [hstep]
          split
          · rename_i t m ho
            split
            · exact .noop _
            · rename_i hg
              have := HStep.assembleEntry (st := ⟨h, .map id .init :: rest, rt, w⟩) id rest t m k rfl ho
                (by simpa using hg)
              rw [addEntry_eq (st := ⟨h, .map id .init :: rest, rt, w⟩) k _ rest ho] at this
              exact this
          · exact .noop _
        | _ => exact .noop _
      | list id ph => cases ph <;> exact .noop _
  | keyString k =>
    obtain ⟨h, fr, rt, w⟩ := st
    cases fr with
    | nil => exact .noop _
    | cons f rest =>
      cases f with
      | map id ph =>
        cases ph with
        | midKey =>
          simp only [hstep]
          split
          · rename_i t m ho
            split
            · rename_i hg
              exact .keyDup id rest t m k rfl ho hg
            · rename_i hg
              have := HStep.keyString (st := ⟨h, .map id .midKey :: rest, rt, w⟩) id rest t m k rfl ho
                (by simpa using hg)
              rw [addEntry_eq (st := ⟨h, .map id .midKey :: rest, rt, w⟩) k _ rest ho] at this
              exact this
          · exact .noop _
        | _ => exact .noop _
      | list id ph => cases ph <;> exact .noop _

/-! ### well-formed histories -/

/-- nodes handed to `AssignNode` (and to the shortcut) are finished nodes -/
def OpWf (st : HSt) : HOp → Prop
  | .assignNode (.obj id) => id ∈ st.h.finished
  | .assignNodeShortcut src => src ∈ st.h.finished
  | _ => True

def HistWf (st : HSt) : List HOp → Prop
  | [] => True
  | op :: ops => OpWf st op ∧ HistWf (hstep st op) ops

theorem hrun_append (st : HSt) (a b : List HOp) : hrun st (a ++ b) = hrun (hrun st a) b := by
  induction a generalizing st with
  | nil => rfl
  | cons op ops ih => simp only [List.cons_append, hrun, ih]

theorem HistWf.append {st : HSt} {a b : List HOp} :
    HistWf st (a ++ b) ↔ HistWf st a ∧ HistWf (hrun st a) b := by
  induction a generalizing st with
  | nil => simp [HistWf, hrun]
  | cons op ops ih => simp only [List.cons_append, HistWf, hrun, ih, and_assoc]

/-! ### the builder invariant -/

def HFrame.isMap : HFrame → Bool
  | .map _ _ => true
  | .list _ _ => false

def HFrame.key (f : HFrame) : Nat × Bool := (f.id, f.isMap)

def frameIds (fr : List HFrame) : List Nat := fr.map HFrame.id

/-- The invariant of a builder working on a heap on which other builders may be working too:
    `others` are the objects the other builders have under construction. -/
structure HInvO (others : List Nat) (s : HSt) : Prop where
  heap : HeapInv s.h
  ids_lt : ∀ id ∈ frameIds s.frames ++ others, id < s.h.objs.length
  /-- objects under construction are not finished -/
  ids_unfin : ∀ id ∈ frameIds s.frames ++ others, id ∉ s.h.finished
  /-- objects under construction are pairwise distinct -/
  ids_nodup : (frameIds s.frames ++ others).Nodup
  /-- a map assembler works on a map object, a list assembler on a list object -/
  kinds : ∀ p ∈ s.frames.map HFrame.key, (objAt s.h p.1).isMap = p.2
  /-- what the builder returns is a scalar or a finished node -/
  root : ∀ v, s.root = some v → RefOk s.h.finished v

/-- the invariant of a single builder -/
abbrev HInv (s : HSt) : Prop := HInvO [] s

theorem hinv_init : HInv {} where
  heap := heapInv_empty
  ids_lt := by intro id h; simp [frameIds] at h
  ids_unfin := by intro id h; simp [frameIds] at h
  ids_nodup := by simp [frameIds]
  kinds := by intro p h; simp at h
  root := by intro v h; cases h

theorem Mod.isMap_all {h h' : H} {id : Nat} (hm : Mod h h' id) {j : Nat} (hj : j < h.objs.length) :
    (objAt h' j).isMap = (objAt h j).isMap := by
  by_cases e : j = id
  · subst e; exact hm.isMap
  · rw [(hm.other j hj e).obj]

/-- a change confined to one object under construction keeps the invariant -/
theorem HInvO.of_mod {others : List Nat} {st : HSt} {h' : H} {id : Nat} {fr' : List HFrame}
    {w' : List Loc} (hi : HInvO others st) (hm : Mod st.h h' id) (hid : id ∈ frameIds st.frames)
    (hk : fr'.map HFrame.key = st.frames.map HFrame.key) :
    HInvO others { st with h := h', frames := fr', written := w' } := by
  have hids : frameIds fr' = frameIds st.frames := by
    have := congrArg (List.map Prod.fst) hk
    simpa [frameIds, List.map_map, HFrame.key, Function.comp_def] using this
  have hlt := hi.ids_lt id (List.mem_append_left _ hid)
  have hnf := hi.ids_unfin id (List.mem_append_left _ hid)
  exact {
    heap := hm.heapInv hi.heap hlt hnf
    ids_lt := by
      intro j hj; simp only [hids] at hj; simp only [hm.objs_len]; exact hi.ids_lt j hj
    ids_unfin := by
      intro j hj; simp only [hids] at hj; simp only [hm.fin]; exact hi.ids_unfin j hj
    ids_nodup := by simp only [hids]; exact hi.ids_nodup
    kinds := by
      intro p hp; simp only [hk] at hp
      have hp' := hp
      simp only [List.mem_map] at hp'
      obtain ⟨f, hf, rfl⟩ := hp'
      have : f.id < st.h.objs.length :=
        hi.ids_lt f.id (List.mem_append_left _ (List.mem_map.2 ⟨f, hf, rfl⟩))
      show (objAt h' f.id).isMap = _
      rw [hm.isMap_all this]; exact hi.kinds _ hp
    root := by intro v hv; simp only [hm.fin]; exact hi.root v hv }

/-- a phase change keeps the invariant -/
theorem HInvO.of_phase {others : List Nat} {st : HSt} {fr' : List HFrame} (hi : HInvO others st)
    (hk : fr'.map HFrame.key = st.frames.map HFrame.key) :
    HInvO others { st with frames := fr' } := by
  have hids : frameIds fr' = frameIds st.frames := by
    have := congrArg (List.map Prod.fst) hk
    simpa [frameIds, List.map_map, HFrame.key, Function.comp_def] using this
  exact {
    heap := hi.heap
    ids_lt := by intro j hj; simp only [hids] at hj; exact hi.ids_lt j hj
    ids_unfin := by intro j hj; simp only [hids] at hj; exact hi.ids_unfin j hj
    ids_nodup := by simp only [hids]; exact hi.ids_nodup
    kinds := by intro p hp; simp only [hk] at hp; exact hi.kinds p hp
    root := hi.root }

theorem hdeliver_inv {others : List Nat} {st : HSt} {v : NRef} (hi : HInvO others st)
    (hv : RefOk st.h.finished v) : HInvO others (hdeliver st v) := by
  have hr := hdeliver_rel st v
  generalize hdeliver st v = s' at hr ⊢
  cases hr with
  | noop => exact hi
  | root hf =>
    exact { hi with root := by intro w hw; cases hw; exact hv }
  | map id rest t m k o hf ho hc =>
    have hid : id ∈ frameIds st.frames := by simp [hf, frameIds, HFrame.id]
    have hlt := hi.ids_lt id (List.mem_append_left _ hid)
    have hnf := hi.ids_unfin id (List.mem_append_left _ hid)
    exact hi.of_mod (hSetLast_mod hi.heap hlt hnf ho hv) hid (by simp [hf, HFrame.key, HFrame.id, HFrame.isMap])
  | list id rest x hf ho =>
    have hid : id ∈ frameIds st.frames := by simp [hf, frameIds, HFrame.id]
    have hlt := hi.ids_lt id (List.mem_append_left _ hid)
    have hnf := hi.ids_unfin id (List.mem_append_left _ hid)
    refine hi.of_mod (hAppend_mod hi.heap hlt hnf ?_) hid (by simp [hf, HFrame.key, HFrame.id, HFrame.isMap])
    rw [ho]
    refine ⟨trivial, ?_⟩
    intro w hw; simp [Cell.ref] at hw; subst hw; exact hv

theorem addEntry_inv {others : List Nat} {st : HSt} {id : Nat} {rest : List HFrame} {t : Slice}
    {m : Nat} {ph0 : MPhase} (k : Bytes) (ph : MPhase) (hi : HInvO others st)
    (hf : st.frames = .map id ph0 :: rest) (ho : objAt st.h id = .map t m) :
    HInvO others (addEntry st id k ph rest) := by
  have hid : id ∈ frameIds st.frames := by simp [hf, frameIds, HFrame.id]
  have hlt := hi.ids_lt id (List.mem_append_left _ hid)
  have hnf := hi.ids_unfin id (List.mem_append_left _ hid)
  refine hi.of_mod (hAppend_mod hi.heap hlt hnf ?_) hid (by simp [hf, HFrame.key, HFrame.id, HFrame.isMap])
  rw [ho]
  exact ⟨trivial, by intro w hw; simp [Cell.ref] at hw⟩

theorem markFin_inv {others : List Nat} {st : HSt} {id : Nat} {rest : List HFrame} {f : HFrame}
    (hi : HInvO others st) (hf : st.frames = f :: rest) (hfi : f.id = id) :
    HInvO others (markFin st id rest) := by
  have hid : id ∈ frameIds st.frames := by simp [hf, frameIds, hfi]
  have hlt := hi.ids_lt id (List.mem_append_left _ hid)
  have hsub : ∀ j ∈ frameIds rest ++ others, j ∈ frameIds st.frames ++ others := by
    intro j hj; simp only [hf, frameIds, List.map_cons, List.cons_append]; exact List.mem_cons_of_mem _ hj
  have hnd := hi.ids_nodup
  simp only [hf, frameIds, List.map_cons, List.cons_append, hfi, List.nodup_cons] at hnd
  exact {
    heap := hFinish_inv hi.heap hlt
    ids_lt := by intro j hj; exact hi.ids_lt j (hsub j hj)
    ids_unfin := by
      intro j hj hfin
      rcases List.mem_cons.1 hfin with e | hfin
      · subst e; exact hnd.1 hj
      · exact hi.ids_unfin j (hsub j hj) hfin
    ids_nodup := hnd.2
    kinds := by
      intro p hp
      exact hi.kinds p (by simp only [hf, List.map_cons]; exact List.mem_cons_of_mem _ hp)
    root := by
      intro v hv
      exact (hi.root v hv).mono (fun x hx => List.mem_cons_of_mem _ hx) }

theorem push_inv {others : List Nat} {st : HSt} {h' : H} {o : Obj} {f : HFrame} (hi : HInvO others st)
    (he : Ext st.h h' o) (hh : HeapInv h') (hfin : h'.finished = st.h.finished)
    (hfid : f.id = st.h.objs.length) (hfk : o.isMap = f.isMap) :
    HInvO others { st with h := h', frames := f :: st.frames } where
  heap := hh
  ids_lt := by
    intro j hj
    simp only [frameIds, List.map_cons, List.cons_append, List.mem_cons] at hj
    simp only [he.objs_len]
    rcases hj with e | hj
    · omega
    · exact Nat.lt_succ_of_lt (hi.ids_lt j hj)
  ids_unfin := by
    intro j hj
    simp only [frameIds, List.map_cons, List.cons_append, List.mem_cons] at hj
    simp only [hfin]
    rcases hj with e | hj
    · intro hjf; have := hi.heap.fin_lt j hjf; omega
    · exact hi.ids_unfin j hj
  ids_nodup := by
    simp only [frameIds, List.map_cons, List.cons_append, List.nodup_cons]
    refine ⟨?_, hi.ids_nodup⟩
    intro hm; have := hi.ids_lt _ hm; omega
  kinds := by
    intro p hp
    simp only [List.map_cons, List.mem_cons] at hp
    rcases hp with e | hp
    · subst e; simp only [HFrame.key, hfid, he.objAt_new]; exact hfk
    · have hp' := hp
      simp only [List.mem_map] at hp'
      obtain ⟨g, hg, rfl⟩ := hp'
      have : g.id < st.h.objs.length :=
        hi.ids_lt g.id (List.mem_append_left _ (List.mem_map.2 ⟨g, hg, rfl⟩))
      show (objAt h' g.id).isMap = _
      rw [he.objAt_old this]; exact hi.kinds _ hp
  root := by intro v hv; simp only [hfin]; exact hi.root v hv

theorem shortcut_inv {others : List Nat} {st : HSt} {src : Nat} (hi : HInvO others st)
    (hf : st.frames = []) (hs : src ∈ st.h.finished) : HInvO others (doShortcut st src) := by
  have e := hCopy_ext st.h src
  exact {
    heap := hCopy_inv hi.heap hs
    ids_lt := by
      intro j hj; simp only [doShortcut, e.objs_len]; exact Nat.lt_succ_of_lt (hi.ids_lt j hj)
    ids_unfin := by
      intro j hj hfin
      rcases List.mem_cons.1 hfin with e | hfin
      · have := hi.ids_lt j hj; omega
      · exact hi.ids_unfin j hj hfin
    ids_nodup := hi.ids_nodup
    kinds := by intro p hp; simp [doShortcut, hf] at hp
    root := by
      intro v hv; simp only [doShortcut, Option.some.injEq] at hv; subst hv
      exact List.mem_cons_self .. }

theorem reset_inv {others : List Nat} {st : HSt} (hi : HInvO others st) :
    HInvO others { st with frames := [], root := none } where
  heap := hi.heap
  ids_lt := by intro j hj; exact hi.ids_lt j (List.mem_append_right _ (by simpa [frameIds] using hj))
  ids_unfin := by intro j hj; exact hi.ids_unfin j (List.mem_append_right _ (by simpa [frameIds] using hj))
  ids_nodup := by
    have := hi.ids_nodup
    rw [List.nodup_append] at this
    simpa [frameIds] using this.2.1
  kinds := by intro p hp; simp at hp
  root := by intro v hv; cases hv

/-- A1: the invariant is preserved by every well-formed builder call. -/
theorem hstep_inv {others : List Nat} {st : HSt} {op : HOp} (hi : HInvO others st) (hw : OpWf st op) :
    HInvO others (hstep st op) := by
  have hr := hstep_rel st op
  generalize hstep st op = s' at hr ⊢
  cases hr with
  | noop => exact hi
  | reset => exact reset_inv hi
  | beginMap hint hv =>
    exact push_inv (f := .map st.h.objs.length .init) hi (hNewMap_ext _ _) (hNewMap_inv _ hi.heap) rfl rfl rfl
  | beginList hint hv =>
    exact push_inv (f := .list st.h.objs.length .init) hi (hNewList_ext _ _) (hNewList_inv _ hi.heap) rfl rfl rfl
  | assignScalar d hv => exact hdeliver_inv hi trivial
  | assignNode r hv =>
    apply hdeliver_inv hi
    cases r with
    | scalar d => trivial
    | obj id => exact hw
  | shortcut src hf hr => exact shortcut_inv hi hf hw
  | assembleKey id rest hf => exact hi.of_phase (by simp [hf, HFrame.key, HFrame.id, HFrame.isMap])
  | assembleEntry id rest t m k hf ho hg => exact addEntry_inv k _ hi hf ho
  | keyDup id rest t m k hf ho hg => exact hi.of_phase (by simp [hf, HFrame.key, HFrame.id, HFrame.isMap])
  | keyString id rest t m k hf ho hg => exact addEntry_inv k _ hi hf ho
  | mapValue id rest hf => exact hi.of_phase (by simp [hf, HFrame.key, HFrame.id, HFrame.isMap])
  | listValue id rest hf => exact hi.of_phase (by simp [hf, HFrame.key, HFrame.id, HFrame.isMap])
  | finishMap id rest hf =>
    exact hdeliver_inv (markFin_inv hi hf rfl) (List.mem_cons_self ..)
  | finishList id rest hf =>
    exact hdeliver_inv (markFin_inv hi hf rfl) (List.mem_cons_self ..)

theorem hrun_inv {others : List Nat} {st : HSt} {ops : List HOp} (hi : HInvO others st)
    (hw : HistWf st ops) : HInvO others (hrun st ops) := by
  induction ops generalizing st with
  | nil => exact hi
  | cons op ops ih => exact ih (hstep_inv hi hw.1) hw.2

end Heap
end Ipld
