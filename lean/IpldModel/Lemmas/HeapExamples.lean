/-
  Decision procedures for well-formedness of concrete histories and the concrete histories used by
  the `example`s in `IpldModel/Props/C11.lean` and `C20.lean`.  Core Lean only.
-/
import IpldModel.Lemmas.HeapRefine
import IpldModel.Lemmas.HeapConc
namespace Ipld
namespace Heap
open Asm

instance (st : HSt) (op : HOp) : Decidable (OpWf st op) := by
  cases op with
  | assignNode r => cases r <;> simp only [OpWf] <;> exact inferInstance
  | assignNodeShortcut src => simp only [OpWf]; exact inferInstance
  | _ => simp only [OpWf]; exact inferInstance

instance histWfDec : (st : HSt) → (ops : List HOp) → Decidable (HistWf st ops)
  | _, [] => isTrue trivial
  | st, op :: ops =>
    have := histWfDec (hstep st op) ops
    by simp only [HistWf]; exact inferInstance

instance (s : HSt) (op : HOp) : Decidable (NoMisuse s op) := by
  cases op <;> simp only [NoMisuse] <;> exact inferInstance

instance histOkDec : (st : HSt) → (ops : List HOp) → Decidable (HistOk st ops)
  | _, [] => isTrue trivial
  | st, op :: ops =>
    have := histOkDec (hstep st op) ops
    by simp only [HistOk]; exact inferInstance

instance (h0 : H) (l : Loc) : Decidable (FreshLoc h0 l) := by
  cases l <;> simp only [FreshLoc] <;> exact inferInstance

def ka : Bytes := [97]
def kb : Bytes := [98]
def kc : Bytes := [99]

/-- build the map {a: 1, b: 2} with size hint 4 (two spare cells in the entry table) and finish it:
    node 0 -/
def histA : List HOp :=
  [.beginMap 4, .assembleEntry ka, .assignScalar (.int 1), .assembleKey, .keyString kb, .assembleValue,
   .assignScalar (.int 2), .finish]

/-- reuse the builder: hand node 0 to a second builder by the shortcut (node 1 shares node 0's backing
    array and lookup map); build a list with capacity 1 holding node 0 twice and node 1, which grows it
    beyond its capacity (node 2); build a map holding node 2 and node 1 (node 3) -/
def histB : List HOp :=
  [.reset, .assignNodeShortcut 0,
   .reset, .beginList 1, .assembleValue, .assignNode (.obj 0), .assembleValue, .assignNode (.obj 0),
   .assembleValue, .assignNode (.obj 1), .finish,
   .reset, .beginMap 0, .assembleEntry kc, .assignNode (.obj 2), .assembleEntry ka, .assignNode (.obj 1),
   .finish]

/-- a history without `reset`/shortcut, for the refinement example: {a: [1, {b: null}]} -/
def histC : List HOp :=
  [.beginMap 1, .assembleKey, .keyString ka, .assembleValue, .beginList 0, .assembleValue,
   .assignScalar (.int 1), .assembleValue, .beginMap (-1), .assembleEntry kb, .assignScalar .null, .finish,
   .finish, .finish]

/-- three builders that have not started, sharing the heap in which node 0 = {a: 1, b: 2} (built
    with spare capacity) is finished -/
def conc0 : Conc := { h := (hrun {} histA).h, threads := [{}, {}, {}] }

/-- thread 0 builds the map {c: node 0}; thread 1 takes node 0 by the shortcut; thread 2 builds the
    list [node 0, 7, node 0] with capacity 1 — interleaved -/
def sched0 : List (Nat × HOp) :=
  [(0, .beginMap 1), (2, .beginList 1), (1, .assignNodeShortcut 0), (0, .assembleEntry kc),
   (2, .assembleValue), (2, .assignNode (.obj 0)), (0, .assignNode (.obj 0)), (2, .assembleValue),
   (2, .assignScalar (.int 7)), (0, .finish), (2, .assembleValue), (2, .assignNode (.obj 0)), (2, .finish)]

end Heap
end Ipld
