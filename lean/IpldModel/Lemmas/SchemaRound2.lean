/-
  C08 helper lemmas, part 2: the side condition `unambig` of the round trip, and the round trip
  `toRepr` → representation builder itself.
-/
import IpldModel.Lemmas.SchemaRound1
import IpldModel.Lemmas.SchemaType
import IpldModel.Lemmas.SchemaConf
namespace Ipld
namespace Schema

/-! ## The side condition: the strings and kinds of the representation can be read back

  Three representation strategies lose information on some values, in the model as in the library:
    * stringjoin: a field string that contains the delimiter (or ends in a way that makes the
      delimiter match earlier), and the struct with no field at all (`Split("", d)` has one part);
    * stringprefix: a discriminant that contains the delimiter; without delimiter, an earlier member
      whose discriminant is a prefix of the text;
    * kinded: a member listed under a kind that is not the kind of its representation.
  `unambig ty v` says that nowhere inside `v` one of these happens.  It is a decidable predicate on
  the value (`Bool`), true of every value whose type uses none of the three strategies. -/

/-- the parts a stringjoin struct value is joined from -/
def joinParts (fs : List Field) (es : TLKVs) : Option (List Bytes) :=
  match reprFields fs es with
  | some vals =>
    (match allSome vals with
     | some ds => allStr ds
     | none => none)
  | none => none

/-- the member the delimiter-less stringprefix builder picks for a text -/
def pickPrefix (ms : List Member) (s : Bytes) : Option Bytes :=
  (ms.find? fun m => isPrefix m.disc s).map (·.name)

/-- what reading the member's representation `d` back must get right -/
def unambigMember (ms : List Member) (ur : UnionRepr) (m : Member) (d : DM) : Bool :=
  match ur with
  | .keyed => true
  | .kinded => m.kind == d.kind
  | .stringprefix delim =>
    match d with
    | .str s =>
      if delim.isEmpty then pickPrefix ms (m.disc ++ s) == some m.name
      else splitFirst delim (m.disc ++ delim ++ s) == some (m.disc, s)
    | _ => true

mutual
def unambig (ty : Ty) : TL → Bool
  | .list xs => match ty with
    | .list ety _ => unambigList ety xs
    | _ => true
  | .map es => match ty with
    | .map vty _ => unambigMap vty es
    | .struct fs sr =>
      unambigFields fs.toList es &&
      (match sr with
       | .stringjoin delim =>
         (match joinParts fs.toList es with
          | some ss => splitAll delim (joinBytes delim ss) == ss
          | none => true)
       | _ => true)
    | .union ms ur =>
      match es with
      | .cons k v .nil =>
        match ms.toList.find? (fun m => m.name == k) with
        | none => true
        | some m =>
          unambig m.ty v &&
          (match toRepr m.ty false v with
           | none => true
           | some d => unambigMember ms.toList ur m d)
      | _ => true
    | _ => true
  | _ => true
def unambigList (ety : Ty) : TLs → Bool
  | .nil => true
  | .cons x xs => unambig ety x && unambigList ety xs
def unambigMap (vty : Ty) : TLKVs → Bool
  | .nil => true
  | .cons _ v es => unambig vty v && unambigMap vty es
def unambigFields : List Field → TLKVs → Bool
  | f :: fs, .cons _ v es => unambig f.ty v && unambigFields fs es
  | _, _ => true
end

/-! ## Unions: one step of the round trip, given the member's -/

theorem build_str (ty : Ty) (nul : Bool) (s : Bytes) :
    build Engine.ideal .repr ty nul none (.str s) = buildScalar Engine.ideal .repr nul (.str s) ty := by
  unfold build; rfl

theorem rt_keyed (ms : Members) (nul : Bool) (hwf : (Ty.union ms .keyed).wf = true) (m : Member)
    (hm : m ∈ ms.toList) (v : TL) (d0 : DM)
    (ih : build Engine.ideal .repr m.ty false none d0 = .ok v) :
    build Engine.ideal .repr (.union ms .keyed) nul none (.map (.cons m.disc d0 .nil))
      = .ok (wrapMember m.name v) := by
  have hfind := find?_key_of_mem (·.disc) ms.toList (wf_keyed hwf) m hm
  rw [build_map_ideal]
  simp only [resolveKinded, buildUnion, memberByKey_ideal, hfind, ih,
    Outcome.map, wrapPath]
  simp [wrapMember]

theorem rt_kinded (ms : Members) (nul : Bool) (hwf : (Ty.union ms .kinded).wf = true) (m : Member)
    (hm : m ∈ ms.toList) (v : TL) (d0 : DM)
    (ih : build Engine.ideal .repr m.ty false none d0 = .ok v) (hk : m.kind = d0.kind) :
    build Engine.ideal .repr (.union ms .kinded) nul none d0 = .ok (wrapMember m.name v) := by
  have hd : d0 ≠ .null := by
    intro h; subst h
    simp [build] at ih
  have hfind := find?_key_eq (·.kind) ms.toList (wf_kinded hwf) m hm d0.kind hk
  rw [build_kinded_eq ms nul d0 hd, hfind]
  simp only [ih, Outcome.map_ok]

theorem rt_prefix (ms : Members) (delim : Bytes) (nul : Bool)
    (hwf : (Ty.union ms (.stringprefix delim)).wf = true) (m : Member)
    (hm : m ∈ ms.toList) (v : TL) (s : Bytes)
    (ih : build Engine.ideal .repr m.ty false none (.str s) = .ok v)
    (hu : unambigMember ms.toList (.stringprefix delim) m (.str s) = true) :
    build Engine.ideal .repr (.union ms (.stringprefix delim)) nul none (.str (m.disc ++ delim ++ s))
      = .ok (wrapMember m.name v) := by
  rw [build_str] at ih
  rw [build_str]
  rw [buildScalar_union_ideal]
  simp only []
  simp only [unambigMember] at hu
  by_cases hde : delim.isEmpty = true
  · simp only [hde, if_true] at hu ⊢
    have hdn : delim = [] := List.isEmpty_iff.1 hde
    subst hdn
    simp only [List.append_nil] at hu ⊢
    rw [buildPrefixNoDelim_find]
    simp only [pickPrefix, beq_iff_eq, Option.map_eq_some_iff] at hu
    obtain ⟨m', hm', hname⟩ := hu
    have hmem' := List.mem_of_find?_eq_some hm'
    have : m' = m := by
      have h1 := find?_key_of_mem (·.name) ms.toList (wf_union hwf).2 m hm
      have h2 := find?_key_of_mem (·.name) ms.toList (wf_union hwf).2 m' hmem'
      simp only [hname] at h2
      rw [h1] at h2
      exact (Option.some.inj h2).symm
    subst this
    simp only [hm', List.drop_left, ih, Outcome.map_ok]
  · simp only [hde, Bool.false_eq_true, if_false, beq_iff_eq] at hu ⊢
    have hfind := find?_key_of_mem (·.disc) ms.toList (wf_stringprefix hwf).1 m hm
    simp only [hu, buildPrefix_find, hfind, ih, Outcome.map_ok]

/-! ## Small facts for the struct walks -/

theorem conformsStruct_cons_inv (F : List Field) (hnd : (F.map (·.name)).Nodup) (seen : List Bytes)
    (f : Field) (hf : f ∈ F) (v : TL) (es : TLKVs)
    (h : conformsStruct F seen (.cons f.name v es) = true) :
    fieldValOK f v = true ∧ conformsStruct F (f.name :: seen) es = true := by
  rw [conformsStruct_cons, find?_key_of_mem (·.name) F hnd f hf] at h
  simp only [Bool.and_eq_true] at h
  exact ⟨h.1.2, h.2⟩

theorem fieldValOK_ne_absent (f : Field) (v : TL) (hv : v ≠ .absent) :
    fieldValOK f v = conforms f.ty f.nullable v := by
  cases v <;> simp_all [fieldValOK]

theorem fieldByKey_ideal_repr (fs : List Field) (k : Bytes) :
    fieldByKey Engine.ideal .repr fs k = findIdx (fun f => f.rename == k) fs := by
  simp only [fieldByKey, ideal_renameFallback, Bool.false_eq_true, if_false]
  cases findIdx (fun f => f.rename == k) fs <;> rfl

theorem unambigFields_cons (f : Field) (fs : List Field) (k : Bytes) (v : TL) (es : TLKVs) :
    unambigFields (f :: fs) (.cons k v es) = (unambig f.ty v && unambigFields fs es) := by
  rw [unambigFields]

theorem allSome_cons_some {α : Type} (a : α) (l : List (Option α)) (ds : List α)
    (h : allSome (some a :: l) = some ds) : ∃ ds', allSome l = some ds' ∧ ds = a :: ds' := by
  simp only [allSome, Option.map_eq_some_iff] at h
  obtain ⟨r, hr, rfl⟩ := h
  exact ⟨r, hr, rfl⟩

theorem allStr_cons (d : DM) (l : List DM) (ss : List Bytes) (h : allStr (d :: l) = some ss) :
    ∃ p ss', d = .str p ∧ allStr l = some ss' ∧ ss = p :: ss' := by
  cases d <;> simp only [allStr, Option.map_eq_some_iff, reduceCtorEq] at h
  next p =>
    obtain ⟨r, hr, rfl⟩ := h
    exact ⟨p, r, rfl, hr, rfl⟩

/-! ## The round trip -/

mutual
theorem rt : (v : TL) → (ty : Ty) → (nul : Bool) → ty.wf = true → conforms ty nul v = true →
    unambig ty v = true → (d : DM) → toRepr ty nul v = some d →
    build Engine.ideal .repr ty nul none d = .ok v
  | .absent, _, _, _, _, _, _, h => by simp [toRepr] at h
  | .null, ty, nul, _, _, _, d, h => by
    simp only [toRepr] at h
    split at h
    · next hn => cases h; simp [build, hn]
    · cases h
  | .bool b, ty, nul, _, _, _, d, h => by
    cases ty <;> simp [toRepr] at h <;> subst h <;> simp [build, buildScalar, isScalar, TL.ofDM]
  | .int b, ty, nul, _, _, _, d, h => by
    cases ty <;> simp [toRepr] at h <;> subst h <;> simp [build, buildScalar, isScalar, TL.ofDM]
  | .float b, ty, nul, _, _, _, d, h => by
    cases ty <;> simp [toRepr] at h <;> subst h <;> simp [build, buildScalar, isScalar, TL.ofDM]
  | .bytes b, ty, nul, _, _, _, d, h => by
    cases ty <;> simp [toRepr] at h <;> subst h <;> simp [build, buildScalar, isScalar, TL.ofDM]
  | .link b, ty, nul, _, _, _, d, h => by
    cases ty <;> simp [toRepr] at h <;> subst h <;> simp [build, buildScalar, isScalar, TL.ofDM]
  | .str s, ty, nul, hwf, _, _, d, h => by
    cases ty with
    | str => simp [toRepr] at h; subst h; simp [build, buildScalar]
    | any => simp [toRepr] at h; subst h; simp [build, buildScalar, isScalar, TL.ofDM]
    | enum ms r =>
      simp only [toRepr] at h
      split at h
      · next m hm =>
        obtain ⟨hmem, hname⟩ := find?_mem_key (·.name) ms s m hm
        cases r with
        | str =>
          simp only [Option.some.injEq] at h; subst h
          have := find?_key_of_mem (·.rstr) ms (wf_enum_str hwf) m hmem
          simp [build, buildScalar, this, hname]
        | int =>
          simp only [Option.some.injEq] at h; subst h
          have := find?_key_of_mem (·.rint) ms (wf_enum_int hwf) m hmem
          simp [build, buildScalar, this, hname]
      · cases h
    | _ => simp [toRepr] at h
  | .list xs, ty, nul, hwf, hc, hu, d, h => by
    cases ty with
    | list ety enul =>
      simp only [toRepr, Option.map_eq_some_iff] at h
      obtain ⟨ys, hys, rfl⟩ := h
      unfold conforms at hc
      unfold unambig at hu
      have := rtList xs ety enul (by simpa [Ty.wf] using hwf) hc hu ys hys []
      rw [build]
      simp [resolveKinded, this, curList, Outcome.map, wrapPath]
    | any =>
      simp only [toRepr, TL.toDM?] at h
      split at h
      · next ys hys =>
        cases h
        have h1 : TL.ofDM (.list ys) = .list xs :=
          ofDM_of_toDM (.list xs) (.list ys) (by simp [TL.toDM?, hys])
        have h2 : (DM.list ys).noDupKeys = true := by
          rw [← anyOK_ofDM_eq, h1]; simpa [conforms] using hc
        rw [build]
        simp [resolveKinded, h2, h1, Outcome.map, wrapPath]
      · cases h
    | _ => simp [toRepr] at h
  | .map es, ty, nul, hwf, hc, hu, d, h => by
    cases ty with
    | map vty vnul =>
      simp only [toRepr, Option.map_eq_some_iff] at h
      obtain ⟨ys, hys, rfl⟩ := h
      unfold conforms at hc
      unfold unambig at hu
      have := rtMap es vty vnul (by simpa [Ty.wf] using hwf) [] hc hu ys hys [] (by simp)
      rw [build_map_ideal]
      simp [resolveKinded, this, curMap, Outcome.map, wrapPath]
    | any =>
      simp only [toRepr, TL.toDM?] at h
      split at h
      · next ys hys =>
        cases h
        have h1 : TL.ofDM (.map ys) = .map es :=
          ofDM_of_toDM (.map es) (.map ys) (by simp [TL.toDM?, hys])
        have h2 : (DM.map ys).noDupKeys = true := by
          rw [← anyOK_ofDM_eq, h1]; simpa [conforms] using hc
        rw [build_map_ideal]
        simp [resolveKinded, h2, h1, Outcome.map, wrapPath]
      · cases h
    | struct fs sr =>
      have hw := wf_struct hwf
      unfold conforms at hc
      unfold unambig at hu
      simp only [Bool.and_eq_true] at hu
      cases sr with
      | map =>
        rw [toRepr_struct_map] at h
        simp only [Option.map_eq_some_iff] at h
        obtain ⟨vals, hv, rfl⟩ := h
        have := rtStruct es fs.toList (Fields.wf_mem fs hw.1) hw.2.1 hw.2.2 fs.toList (fun _ h => h) hw.2.1 []
          hc hu.1 vals hv (fun _ => none) (fun _ _ => rfl)
        rw [finish_absorb fs.toList es vals hv hw.2.1] at this
        rw [build_map_ideal]
        simp [resolveKinded, SSt.init_none, this, Outcome.map, wrapPath]
      | listpairs =>
        rw [toRepr_struct_listpairs] at h
        simp only [Option.map_eq_some_iff] at h
        obtain ⟨vals, hv, rfl⟩ := h
        have := rtPairs es fs.toList (Fields.wf_mem fs hw.1) hw.2.1 fs.toList (fun _ h => h) hw.2.1 []
          hc hu.1 vals hv (fun _ => none) (fun _ _ => rfl)
        rw [finish_absorb fs.toList es vals hv hw.2.1] at this
        rw [build]
        simp [resolveKinded, SSt.init_none, this, Outcome.map, wrapPath]
      | tuple =>
        rw [toRepr_struct_tuple] at h
        cases hv : reprFields fs.toList es with
        | none => simp [hv] at h
        | some vals =>
          simp only [hv, Option.map_eq_some_iff] at h
          obtain ⟨ds, hds, rfl⟩ := h
          obtain ⟨n, hn⟩ := tuple_vals vals ds hds
          have := rtTuple es fs.toList (Fields.wf_mem fs hw.1) hw.2.1 [] fs.toList rfl []
            hc hu.1 vals hv ds n hn (fun _ => none) (fun _ _ => rfl)
          rw [finish_absorb fs.toList es vals hv hw.2.1] at this
          rw [build]
          simp only [List.length_nil] at this
          simp [resolveKinded, SSt.init_none, this, Outcome.map, wrapPath]
      | stringjoin delim =>
        rw [toRepr_struct_stringjoin] at h
        cases hv : reprFields fs.toList es with
        | none => simp [hv] at h
        | some vals =>
          simp only [hv] at h
          cases hds : allSome vals with
          | none => simp [hds] at h
          | some ds =>
            simp only [hds, Option.map_eq_some_iff] at h
            obtain ⟨ss, hss, rfl⟩ := h
            have hjp : joinParts fs.toList es = some ss := by simp [joinParts, hv, hds, hss]
            have hsplit : splitAll delim (joinBytes delim ss) = ss := by
              have := hu.2
              simp only [hjp, beq_iff_eq] at this
              exact this
            have hwj := wf_stringjoin hwf
            have := rtJoin es fs hw.1 (fun f hf => (hwj.2 f hf).2.1) fs.toList hw.2.1 (fun _ h => h) []
              hc hu.1 vals hv ds hds ss hss
            have hlen : ss.length = fs.toList.length := by
              have h1 := reprFields_length _ _ _ hv
              have h2 := allSome_eq_some _ _ hds
              have h3 : ∀ (l : List DM) (r : List Bytes), allStr l = some r → r.length = l.length := by
                intro l
                induction l with
                | nil => intro r hr; simp only [allStr, Option.some.injEq] at hr; subst hr; rfl
                | cons a l ih =>
                  intro r hr
                  obtain ⟨p, ss', _, hss', rfl⟩ := allStr_cons a l r hr
                  simp [ih ss' hss']
              rw [h3 ds ss hss, ← h1, h2]; simp
            rw [build_str]
            simp [buildScalar, hsplit, hlen, this]
    | union ms ur =>
      have hw := wf_union hwf
      unfold conforms at hc
      unfold unambig at hu
      match es, hc, hu, h with
      | .cons k v .nil, hc, hu, h =>
        simp only [toRepr] at h
        simp only [] at hc hu
        cases hm : ms.toList.find? (fun m => m.name == k) with
        | none => simp [hm] at hc
        | some m =>
          obtain ⟨hmem, hname⟩ := find?_mem_key (·.name) ms.toList k m hm
          simp only [hm] at hc hu h
          cases hd0 : toRepr m.ty false v with
          | none => simp [hd0] at h
          | some d0 =>
            simp only [hd0, Bool.and_eq_true] at hu h
            have ih := rt v m.ty false (Members.wf_mem ms hw.1 m hmem) hc hu.1 d0 hd0
            subst hname
            cases ur with
            | keyed =>
              simp only [Option.some.injEq] at h; subst h
              exact rt_keyed ms nul hwf m hmem v d0 ih
            | kinded =>
              simp only [Option.some.injEq] at h; subst h
              exact rt_kinded ms nul hwf m hmem v d0 ih (by simpa [unambigMember] using hu.2)
            | stringprefix delim =>
              cases d0 with
              | str s =>
                simp only [Option.some.injEq] at h; subst h
                exact rt_prefix ms delim nul hwf m hmem v s ih hu.2
              | _ => simp at h
      | .nil, hc, _, _ => simp at hc
      | .cons _ _ (.cons _ _ _), hc, _, _ => simp at hc
    | _ => simp [toRepr] at h
theorem rtList : (xs : TLs) → (ety : Ty) → (enul : Bool) → ety.wf = true →
    conformsList ety enul xs = true → unambigList ety xs = true → (ys : List DM) →
    reprList ety enul xs = some ys → (acc : List TL) →
    buildList Engine.ideal .repr ety enul acc (DMs.ofList ys) = .ok (acc ++ xs.toList)
  | .nil, _, _, _, _, _, ys, h, acc => by
    simp only [reprList, Option.some.injEq] at h; subst h
    simp [buildList, TLs.toList]
  | .cons x xs, ety, enul, hwf, hc, hu, ys, h, acc => by
    simp only [conformsList, Bool.and_eq_true] at hc
    simp only [unambigList, Bool.and_eq_true] at hu
    simp only [reprList] at h
    split at h
    · next d ds hd hds =>
      simp only [Option.some.injEq] at h; subst h
      have h1 := rt x ety enul hwf hc.1 hu.1 d hd
      have h2 := rtList xs ety enul hwf hc.2 hu.2 ds hds (acc ++ [x])
      simp only [DMs.ofList_cons, buildList_cons_ideal, h1, h2, TLs.toList]
      simp
    · cases h
theorem rtMap : (es : TLKVs) → (vty : Ty) → (vnul : Bool) → vty.wf = true → (seen : List Bytes) →
    conformsMap vty vnul seen es = true → unambigMap vty es = true → (ys : List (Bytes × DM)) →
    reprMap vty vnul es = some ys → (acc : List (Bytes × TL)) →
    (∀ k, seen.contains k = acc.any (fun p => p.1 == k)) →
    buildMap Engine.ideal .repr vty vnul acc (DMKVs.ofList ys) = .ok (acc ++ es.toList)
  | .nil, _, _, _, _, _, _, ys, h, acc, _ => by
    simp only [reprMap, Option.some.injEq] at h; subst h
    simp [buildMap, TLKVs.toList]
  | .cons k x es, vty, vnul, hwf, seen, hc, hu, ys, h, acc, hseen => by
    simp only [conformsMap, Bool.and_eq_true, Bool.not_eq_true'] at hc
    simp only [unambigMap, Bool.and_eq_true] at hu
    simp only [reprMap] at h
    split at h
    · next d ds hd hds =>
      simp only [Option.some.injEq] at h; subst h
      have h1 := rt x vty vnul hwf hc.1.2 hu.1 d hd
      have hfresh : acc.any (fun p => p.1 == k) = false := by rw [← hseen k]; exact hc.1.1
      have h2 := rtMap es vty vnul hwf (k :: seen) hc.2 hu.2 ds hds (acc ++ [(k, x)]) (by
        intro k'
        simp only [List.contains_cons, hseen k', List.any_append, List.any_cons, List.any_nil,
          Bool.or_false]
        rw [Bool.or_comm]
        congr 1
        exact Bool.beq_comm)
      simp only [DMKVs.ofList_cons, buildMap_cons_ideal, hfresh, ideal_dupMapKey, Bool.not_false, Bool.and_true,
        Bool.false_eq_true, if_false, h1, mapAppend_fresh acc k x hfresh, h2, TLKVs.toList]
      simp
    · cases h
theorem rtStruct : (es : TLKVs) → (F : List Field) → (∀ f ∈ F, f.ty.wf = true) →
    (F.map (·.name)).Nodup → (F.map (·.rename)).Nodup → (suf : List Field) → (∀ f ∈ suf, f ∈ F) →
    (suf.map (·.name)).Nodup → (seen : List Bytes) → conformsStruct F seen es = true → unambigFields suf es = true →
    (vals : List (Option DM)) → reprFields suf es = some vals → (g : Bytes → Option TL) →
    (∀ f ∈ suf, g f.name = none) →
    buildStruct Engine.ideal .repr F (SSt.ofFn F g) (DMKVs.ofList (mapEntries suf vals))
      = (SSt.ofFn F (absorb g es)).finish F
  | .nil, F, _, _, _, suf, _, _, _, _, _, vals, hv, g, _ => by
    cases suf with
    | nil =>
      simp only [reprFields, Option.some.injEq] at hv; subst hv
      simp [buildStruct, absorb]
    | cons f suf => simp [reprFields] at hv
  | .cons k v es, F, hwf, hnd, hndr, suf, hsub, hsnd, seen, hc, hu, vals, hv, g, hg => by
    cases suf with
    | nil => simp [reprFields] at hv
    | cons f suf =>
      obtain ⟨hk, vals', hv', h2⟩ := reprFields_cons_inv f suf k v es vals hv
      subst hk
      have hfF : f ∈ F := hsub f (by simp)
      obtain ⟨hfv, hc'⟩ := conformsStruct_cons_inv F hnd seen f hfF v es hc
      rw [unambigFields_cons, Bool.and_eq_true] at hu
      simp only [List.map_cons, List.nodup_cons] at hsnd
      have hnames : ∀ f' ∈ suf, f'.name ≠ f.name :=
        fun f' hf' heq => hsnd.1 (heq ▸ List.mem_map_of_mem hf')
      rw [absorb]
      rcases h2 with ⟨rfl, _, rfl⟩ | ⟨hne, d, hd, rfl⟩
      · simp only [mapEntries_none, if_true]
        exact rtStruct es F hwf hnd hndr suf (fun f' hf' => hsub f' (by simp [hf'])) hsnd.2 _ hc' hu.2 vals' hv'
          g (fun f' hf' => hg f' (by simp [hf']))
      · simp only [mapEntries_some, DMKVs.ofList_cons, hne, if_false]
        rw [fieldValOK_ne_absent f v hne] at hfv
        have ih := rt v f.ty f.nullable (hwf f hfF) hfv hu.1 d hd
        have hfind := find?_key_of_mem (·.rename) F hndr f hfF
        obtain ⟨i, hi⟩ := findIdx_of_find? _ F f hfind
        have hiF := (findIdx_some _ F i f hi).1
        rw [buildStruct_cons_ideal]
        simp only [fieldByKey_ideal_repr, hi, SSt.ofFn_isDone F g i f hiF, hg f (by simp),
          Option.isSome_none, Bool.false_and, Bool.false_eq_true, if_false, SSt.curOf_ideal, ih,
          SSt.ofFn_assign F g i f v hiF hnd]
        exact rtStruct es F hwf hnd hndr suf (fun f' hf' => hsub f' (by simp [hf'])) hsnd.2 _ hc' hu.2 vals' hv'
          _ (fun f' hf' => by
            rw [setFn_other _ _ _ _ (hnames f' hf')]; exact hg f' (by simp [hf']))
theorem rtPairs : (es : TLKVs) → (F : List Field) → (∀ f ∈ F, f.ty.wf = true) →
    (F.map (·.name)).Nodup → (suf : List Field) → (∀ f ∈ suf, f ∈ F) →
    (suf.map (·.name)).Nodup →
    (seen : List Bytes) → conformsStruct F seen es = true → unambigFields suf es = true →
    (vals : List (Option DM)) → reprFields suf es = some vals → (g : Bytes → Option TL) →
    (∀ f ∈ suf, g f.name = none) →
    buildPairs Engine.ideal F (SSt.ofFn F g) (DMs.ofList (pairEntries suf vals))
      = (SSt.ofFn F (absorb g es)).finish F
  | .nil, F, _, _, suf, _, _, _, _, _, vals, hv, g, _ => by
    cases suf with
    | nil =>
      simp only [reprFields, Option.some.injEq] at hv; subst hv
      simp [buildPairs, absorb]
    | cons f suf => simp [reprFields] at hv
  | .cons k v es, F, hwf, hnd, suf, hsub, hsnd, seen, hc, hu, vals, hv, g, hg => by
    cases suf with
    | nil => simp [reprFields] at hv
    | cons f suf =>
      obtain ⟨hk, vals', hv', h2⟩ := reprFields_cons_inv f suf k v es vals hv
      subst hk
      have hfF : f ∈ F := hsub f (by simp)
      obtain ⟨hfv, hc'⟩ := conformsStruct_cons_inv F hnd seen f hfF v es hc
      rw [unambigFields_cons, Bool.and_eq_true] at hu
      simp only [List.map_cons, List.nodup_cons] at hsnd
      have hnames : ∀ f' ∈ suf, f'.name ≠ f.name :=
        fun f' hf' heq => hsnd.1 (heq ▸ List.mem_map_of_mem hf')
      rw [absorb]
      rcases h2 with ⟨rfl, _, rfl⟩ | ⟨hne, d, hd, rfl⟩
      · simp only [pairEntries_none, if_true]
        exact rtPairs es F hwf hnd suf (fun f' hf' => hsub f' (by simp [hf'])) hsnd.2 _ hc' hu.2 vals' hv'
          g (fun f' hf' => hg f' (by simp [hf']))
      · simp only [pairEntries_some, DMs.ofList_cons, hne, if_false]
        rw [fieldValOK_ne_absent f v hne] at hfv
        have ih := rt v f.ty f.nullable (hwf f hfF) hfv hu.1 d hd
        have hfind := find?_key_of_mem (·.name) F hnd f hfF
        obtain ⟨i, hi⟩ := findIdx_of_find? _ F f hfind
        have hiF := (findIdx_some _ F i f hi).1
        rw [buildPairs]
        simp only [hi, SSt.ofFn_isDone F g i f hiF, hg f (by simp),
          Option.isSome_none, Bool.false_and, Bool.false_eq_true, if_false, SSt.curOf_ideal, ih,
          SSt.ofFn_assign F g i f v hiF hnd]
        exact rtPairs es F hwf hnd suf (fun f' hf' => hsub f' (by simp [hf'])) hsnd.2 _ hc' hu.2 vals' hv'
          _ (fun f' hf' => by
            rw [setFn_other _ _ _ _ (hnames f' hf')]; exact hg f' (by simp [hf']))
theorem rtTuple : (es : TLKVs) → (F : List Field) → (∀ f ∈ F, f.ty.wf = true) →
    (F.map (·.name)).Nodup → (pre suf : List Field) → F = pre ++ suf →
    (seen : List Bytes) → conformsStruct F seen es = true → unambigFields suf es = true →
    (vals : List (Option DM)) → reprFields suf es = some vals → (ds : List DM) → (n : Nat) →
    vals = ds.map some ++ List.replicate n none → (g : Bytes → Option TL) →
    (∀ f ∈ suf, g f.name = none) →
    buildTuple Engine.ideal F (SSt.ofFn F g) pre.length (DMs.ofList ds)
      = (SSt.ofFn F (absorb g es)).finish F
  | .nil, F, _, _, pre, suf, _, _, _, _, vals, hv, ds, n, hvals, g, _ => by
    cases suf with
    | nil =>
      simp only [reprFields, Option.some.injEq] at hv; subst hv
      have : ds = [] := by
        cases ds with
        | nil => rfl
        | cons _ _ => simp at hvals
      subst this
      simp [buildTuple, absorb]
    | cons f suf => simp [reprFields] at hv
  | .cons k v es, F, hwf, hnd, pre, suf, hF, seen, hc, hu, vals, hv, ds, n, hvals, g, hg => by
    cases ds with
    | nil =>
      simp only [List.map_nil, List.nil_append] at hvals
      subst hvals
      rw [absorb_all_absent suf _ n g hv]
      simp [buildTuple]
    | cons d ds =>
      cases suf with
      | nil => simp [reprFields] at hv
      | cons f suf =>
        obtain ⟨hk, vals', hv', h2⟩ := reprFields_cons_inv f suf k v es vals hv
        subst hk
        have hfF : f ∈ F := by rw [hF]; simp
        obtain ⟨hfv, hc'⟩ := conformsStruct_cons_inv F hnd seen f hfF v es hc
        rw [unambigFields_cons, Bool.and_eq_true] at hu
        have hnames : ∀ f' ∈ suf, f'.name ≠ f.name := by
          intro f' hf' heq
          rw [hF, List.map_append, List.map_cons] at hnd
          have := (List.nodup_cons.1 (List.nodup_append.1 hnd).2.1).1
          exact this (heq ▸ List.mem_map_of_mem hf')
        rw [absorb]
        rcases h2 with ⟨rfl, _, rfl⟩ | ⟨hne, d', hd, rfl⟩
        · simp at hvals
        · simp only [List.map_cons, List.cons_append, List.cons.injEq, Option.some.injEq] at hvals
          obtain ⟨rfl, hvals'⟩ := hvals
          simp only [DMs.ofList_cons, hne, if_false]
          rw [fieldValOK_ne_absent f v hne] at hfv
          have ih := rt v f.ty f.nullable (hwf f hfF) hfv hu.1 d' hd
          have hiF : F[pre.length]? = some f := by simp [hF]
          rw [buildTuple_cons_ideal]
          simp only [hiF, SSt.curOf_ideal, ih, SSt.ofFn_assign F g _ f v hiF hnd]
          have := rtTuple es F hwf hnd (pre ++ [f]) suf (by simp [hF]) _ hc' hu.2 vals' hv' ds n hvals'
            (setFn g f.name v) (fun f' hf' => by
              rw [setFn_other _ _ _ _ (hnames f' hf')]; exact hg f' (by simp [hf']))
          simpa using this
theorem rtJoin : (es : TLKVs) → (fs : Fields) → fs.wf = true →
    (∀ f ∈ fs.toList, f.nullable = false) → (F : List Field) → (F.map (·.name)).Nodup →
    (∀ f ∈ fs.toList, f ∈ F) → (seen : List Bytes) → conformsStruct F seen es = true →
    unambigFields fs.toList es = true → (vals : List (Option DM)) →
    reprFields fs.toList es = some vals → (ds : List DM) → allSome vals = some ds →
    (ss : List Bytes) → allStr ds = some ss →
    buildJoin Engine.ideal fs ss = .ok es.toList
  | .nil, fs, _, _, F, _, _, _, _, _, vals, hv, ds, hds, ss, hss => by
    cases fs with
    | nil =>
      simp only [Fields.toList, reprFields, Option.some.injEq] at hv; subst hv
      simp only [allSome, Option.some.injEq] at hds; subst hds
      simp only [allStr, Option.some.injEq] at hss; subst hss
      simp [buildJoin, TLKVs.toList]
    | cons _ _ _ _ _ _ => simp [Fields.toList, reprFields] at hv
  | .cons k v es, fs, hwf, hnn, F, hnd, hsub, seen, hc, hu, vals, hv, ds, hds, ss, hss => by
    cases fs with
    | nil => simp [Fields.toList, reprFields] at hv
    | cons n rn o nu t rest =>
      simp only [Fields.toList] at hv hu hsub hnn
      simp only [Fields.wf, Bool.and_eq_true] at hwf
      obtain ⟨hk, vals', hv', h2⟩ := reprFields_cons_inv _ _ k v es vals hv
      simp only [] at hk
      subst hk
      have hfF : (⟨k, rn, o, nu, t⟩ : Field) ∈ F := hsub _ (by simp)
      obtain ⟨hfv, hc'⟩ := conformsStruct_cons_inv F hnd seen ⟨k, rn, o, nu, t⟩ hfF v es hc
      rw [unambigFields_cons, Bool.and_eq_true] at hu
      have hnu : nu = false := hnn ⟨k, rn, o, nu, t⟩ (by simp)
      subst hnu
      rcases h2 with ⟨rfl, _, rfl⟩ | ⟨hne, d, hd, rfl⟩
      · simp [allSome] at hds
      · obtain ⟨ds', hds', rfl⟩ := allSome_cons_some d vals' ds hds
        obtain ⟨p, ss', rfl, hss', rfl⟩ := allStr_cons d ds' ss hss
        rw [fieldValOK_ne_absent _ v hne] at hfv
        have ih := rt v t false hwf.1 hfv hu.1 (.str p) hd
        rw [build_str] at ih
        have ih2 := rtJoin es rest hwf.2 (fun f hf => hnn f (by simp [hf])) F hnd
          (fun f hf => hsub f (by simp [hf])) _ hc' hu.2 vals' hv' ds' hds' ss' hss'
        simp only [buildJoin, ih, ih2, TLKVs.toList]
end

end Schema
end Ipld
