import Driver.Asm
import Driver.Schema
import IpldModel.Model.TypedAssembler
import IpldModel.Model.ReprAssembler
namespace Ipld.Driver
open Ipld Ipld.Asm

/-!
  Line protocol of the typed-assembler machines (`Model/TypedAssembler.lean`: type level; `Model/ReprAssembler.lean`:
  representation level):

      tasm.run [<engine>] [<level>] <ty…> OPS <calls…>  →  <out…> | built <tl-term>   /   <out…> | unfinished
                                                           unsupported      (the type is outside the machine's fragment)

  engine = ideal | bindnode | gen (default bindnode); level = type | repr (default type); types as in Driver/Schema.lean;
  calls: the ops of `asm.run`, and `R` (`Reset()` on the root builder).  One outcome per call, as `asm.run` prints them, and

      reset       the answer to `R`
      skipped     a call after one that panicked, up to the next `R` (nothing is claimed about it; the harness does not make
                  it).  Where no `R` follows, the line ends at the `panic` and the result is `unfinished`.
      unclaimed   a call in a state a refused `AssignNode` left half done (`Engine.anPartial`): no claim about its answer, up
                  to the next `R`; the result is `unclaimed` if the history ends in that state.
-/

def parseTEngine : String → Option (TAsm.Engine × RAsm.Engine)
  | "ideal" => some (TAsm.Engine.ideal, RAsm.Engine.ideal)
  | "bindnode" => some (TAsm.Engine.bindnode, RAsm.Engine.bindnode)
  | "gen" => some (TAsm.Engine.gen, RAsm.Engine.gen)
  | _ => none

/-- the calls: `parseOps` segments separated by `R` tokens -/
def parseCalls (toks : List String) : Option (List TAsm.Call) :=
  let rec split (acc : List String) (segs : List (List String)) : List String → List (List String)
    | [] => (acc.reverse :: segs).reverse
    | "R" :: rest => split [] (acc.reverse :: segs) rest
    | t :: rest => split (t :: acc) segs rest
  let segs := split [] [] toks
  let rec join : List (List String) → Option (List TAsm.Call)
    | [] => some []
    | [s] => (parseOps (s.length + 1) s).map fun ops => ops.map .op
    | s :: rest =>
      match parseOps (s.length + 1) s, join rest with
      | some ops, some cs => some (ops.map .op ++ (.reset :: cs))
      | _, _ => none
  join segs

/-- A machine as the printer sees it. -/
structure Machine (σ : Type) where
  step : σ → Op → σ × Out
  reset : σ → σ
  tainted : σ → Bool

/-- `skip`: a call panicked and no reset has come since -/
def runPrinted {σ : Type} (m : Machine σ) : Bool → σ → List TAsm.Call → σ × Bool × List String
  | skip, st, [] => (st, skip, [])
  | _, st, .reset :: cs =>
    let (st', sk, os) := runPrinted m false (m.reset st) cs
    (st', sk, "reset" :: os)
  | true, st, .op _ :: cs =>
    if TAsm.hasReset cs then
      let (st', sk, os) := runPrinted m true st cs
      (st', sk, "skipped" :: os)
    else (st, true, [])
  | false, st, .op o :: cs =>
    if m.tainted st then
      if TAsm.hasReset cs then
        let (st', sk, os) := runPrinted m false st cs
        (st', sk, "unclaimed" :: os)
      else (st, false, ["unclaimed"])
    else
      match m.step st o with
      | (st', .panic) =>
        let (st'', sk, os) := runPrinted m true st' cs
        (st'', sk, "panic" :: os)
      | (st', out) =>
        let (st'', sk, os) := runPrinted m false st' cs
        (st'', sk, showOut out :: os)

def tasmHandler : List String → Option String
  | "tasm.run" :: toks =>
    let (e, toks) := match toks with
      | t :: rest => match parseTEngine t with
        | some e => (e, rest)
        | none => ((TAsm.Engine.bindnode, RAsm.Engine.bindnode), toks)
      | [] => ((TAsm.Engine.bindnode, RAsm.Engine.bindnode), toks)
    let (repr, toks) := match toks with
      | "type" :: rest => (false, rest)
      | "repr" :: rest => (true, rest)
      | _ => (false, toks)
    match parseTyFuel (toks.length + 1) toks with
    | some (ty, "OPS" :: rest) =>
      match parseCalls rest with
      | none => some "bad-ops"
      | some calls =>
        if repr then
          if !RAsm.plainR ty then some "unsupported" else
          let m : Machine RAsm.St := { step := RAsm.step e.2, reset := fun s => RAsm.init s.ty, tainted := (·.tainted) }
          let (st, skip, outs) := runPrinted m false (RAsm.init ty) calls
          let fin :=
            if skip then "unfinished" else if st.tainted then "unclaimed" else
            match RAsm.build st with
            | some v => "built " ++ TL.toTerm v
            | none => "unfinished"
          some (" ".intercalate outs ++ " | " ++ fin)
        else
          if !TAsm.plain ty then some "unsupported" else
          let m : Machine TAsm.St := { step := TAsm.step e.1, reset := fun s => TAsm.init s.ty, tainted := (·.tainted) }
          let (st, skip, outs) := runPrinted m false (TAsm.init ty) calls
          let fin :=
            if skip then "unfinished" else if st.tainted then "unclaimed" else
            match TAsm.build st with
            | some v => "built " ++ TL.toTerm v
            | none => "unfinished"
          some (" ".intercalate outs ++ " | " ++ fin)
    | _ => some "bad-type"
  | _ => none

end Ipld.Driver
