import IpldModel.Model.Term
import IpldModel.Model.Cbor
import IpldModel.Spec.CanonCbor
import IpldModel.Spec.CborDenotes
namespace Ipld.Driver
open Ipld Ipld.Cbor

/-- hex argument; "-" stands for the empty byte string -/
def hexArg (s : String) : Option Bytes := if s == "-" then some [] else bytesOfHex s

def showR (r : R DM) : String :=
  match r with
  | .ok v => "ok " ++ v.toTerm
  | .error e => "err " ++ e.coarse ++ " " ++ reprStr e

def parseCfg (flags : String) (budget prealloc depth : String) : Option DecCfg := do
  let b ← budget.toInt?
  let p ← prealloc.toNat?
  let d ← depth.toNat?
  pure { allowLinks := flags.contains 'l', relaxed := flags.contains 'r',
         dontParseBeyondEnd := flags.contains 'e', negWrap := !flags.contains 'w',
         budget := if b = 0 then 10485760 else b,
         maxPrealloc := if p = 0 then 1024 else p,
         maxDepth := if d = 0 then 1024 else d }

/-- Commands:
    cbor.enc <term…>                    → ok <hex> <encodedLength> | err unencodable
    cbor.encplain <term…>               → same for the plain cbor codec (no links, no sorting)
    cbor.dec <hex>                      → ok <term> | err <class> <detail>       (registered dag-cbor decoder)
    cbor.decx <flags> <budget> <prealloc> <depth> <hex>   (flags ⊆ "lre", "-" for none; 0 = default)
-/
def cborHandler : List String → Option String
  | "cbor.enc" :: toks =>
    match parseTermAll toks with
    | none => some "bad-term"
    | some d =>
      match encode dagcborEnc d with
      | none => some "err unencodable"
      | some bs => some s!"ok {hexOfBytes bs} {encodedLength d}"
  | "cbor.encplain" :: toks =>
    match parseTermAll toks with
    | none => some "bad-term"
    | some d =>
      match encode plainCborEnc d with
      | none => some "err unencodable"
      | some bs => some s!"ok {hexOfBytes bs} {encodedLength d}"
  | "cbor.canon" :: toks =>
    match parseTermAll toks with
    | none => some "bad-term"
    | some d => if encodable dagcborEnc d then some s!"ok {hexOfBytes (Spec.canonEncode d)}" else some "err unencodable"
  | "cbor.denotes" :: hex :: toks =>
    match hexArg hex, parseTermAll toks with
    | some bs, some d => some (if Spec.denotesCheck d bs then "true" else "false")
    | _, _ => some "bad-args"
  | ["cbor.dec", hex] =>
    match hexArg hex with
    | none => some "bad-hex"
    | some bs => some (showR (decode dagcborDec bs))
  | ["cbor.dec"] => some (showR (decode dagcborDec []))
  | ["cbor.decx", flags, budget, prealloc, depth, hex] =>
    match hexArg hex, parseCfg flags budget prealloc depth with
    | some bs, some cfg => some (showR (decode cfg bs))
    | _, _ => some "bad-args"
  | ["cbor.decx", flags, budget, prealloc, depth] =>
    match parseCfg flags budget prealloc depth with
    | some cfg => some (showR (decode cfg []))
    | _ => some "bad-args"
  | _ => none

end Ipld.Driver
