package checks

import (
	"fmt"
	"strings"
	"sync/atomic"

	"github.com/ipld/go-ipld-prime/datamodel"
	"github.com/ipld/go-ipld-prime/node/basicnode"

	"verif/internal/core"
)

// C12 — assemblers enforce their protocol: duplicates rejected cleanly, results exact.
//
//   impl observation : per-call outcome (ok | e:repeatedKey | e:wrongKind | e:other | panic) and the built node
//   (D) correspondence: == the Lean assembler state machine (`asm.run`)
//   (O) oracle        : every call returns what the builder contract prescribes for it (the generator knows:
//                       legal call → ok, injected repeated key → repeated-key error at that call, injected
//                       unacceptable kind → error from that call) and the built node is exactly the tree of
//                       the accepted calls (rejected calls leave no trace).

func init() {
	core.Register(&core.Check{ID: "C12", Run: runC12, Replay: replayC12})
}

func protoBuilder(p string) datamodel.NodeBuilder {
	switch p {
	case "any":
		return basicnode.Prototype.Any.NewBuilder()
	case "map":
		return basicnode.Prototype.Map.NewBuilder()
	case "list":
		return basicnode.Prototype.List.NewBuilder()
	case "s:bool":
		return basicnode.Prototype.Bool.NewBuilder()
	case "s:int":
		return basicnode.Prototype.Int.NewBuilder()
	case "s:float":
		return basicnode.Prototype.Float.NewBuilder()
	case "s:str":
		return basicnode.Prototype.String.NewBuilder()
	case "s:bytes":
		return basicnode.Prototype.Bytes.NewBuilder()
	case "s:link":
		return basicnode.Prototype.Link.NewBuilder()
	}
	return nil
}

func kindToken(v core.Val) string {
	switch v.K {
	case 'n':
		return "s:null"
	case 't', 'f':
		return "s:bool"
	case 'i':
		return "s:int"
	case 'd':
		return "s:float"
	case 's':
		return "s:str"
	case 'b':
		return "s:bytes"
	case 'l':
		return "s:link"
	case '[':
		return "list"
	case '{':
		return "map"
	}
	return "any"
}

type asmCase struct {
	proto string
	ops   []core.AsmOp
	want  core.Val
}

func (a asmCase) line() string { return "asm.run " + a.proto + " " + core.OpsLine(a.ops) }

// rootInjections: calls of a kind the root prototype cannot hold, before the real history.
func rootInjections(proto string, r *core.Rand) []core.AsmOp {
	var ops []core.AsmOp
	if proto == "any" || !r.Chance(1, 3) {
		return nil
	}
	cands := []core.AsmOp{
		{Kind: "A", V: core.Int(7)}, {Kind: "A", V: core.Str("x")}, {Kind: "A", V: core.Null()}, {Kind: "A", V: core.Bool(true)},
		{Kind: "A", V: core.Float(1.5)}, {Kind: "A", V: core.Bytes([]byte{1})}, {Kind: "BM", Hint: 0}, {Kind: "BL", Hint: 0},
		{Kind: "AN", V: core.List(core.Int(1))}, {Kind: "AN", V: core.Map()}, {Kind: "AN", V: core.Int(3)}, {Kind: "AN", V: core.Str("y")},
	}
	for n := 1 + r.Intn(3); n > 0; n-- {
		op := cands[r.Intn(len(cands))]
		var k string
		switch op.Kind {
		case "BM":
			k = "map"
		case "BL":
			k = "list"
		default:
			k = kindToken(op.V)
		}
		if k == proto {
			continue
		}
		op.Expect = "e:wrongKind"
		ops = append(ops, op)
	}
	return ops
}

func c12Batch(c *core.Ctx, cases []asmCase, r *core.Rand) error {
	lines := make([]string, len(cases))
	for i, cs := range cases {
		lines[i] = cs.line()
	}
	outs, err := core.RunDriver(lines)
	if err != nil {
		return err
	}
	for i, cs := range cases {
		nb := protoBuilder(cs.proto)
		if nb == nil {
			return fmt.Errorf("no builder for %s", cs.proto)
		}
		rr := r.Fork()
		// the node of an AN call is a basicnode node or (one in three) the same data as a node of ANOTHER implementation,
		// for which no own-type shortcut applies
		io, final := core.RunOps(nb, cs.ops, func(v core.Val) (datamodel.Node, error) {
			n, err := core.BuildBasic(v, rr)
			if err == nil && rr.Chance(1, 3) {
				n = core.Foreign(n)
			}
			return n, err
		})
		impl := strings.Join(io, " ") + " | " + final
		injected := 0
		for _, op := range cs.ops {
			if op.Expect != "ok" {
				injected++
			}
		}
		c.Count(lines[i], injected > 0 || len(cs.ops) >= 6)
		c.Trace(1)
		c.Dist("proto:" + cs.proto)
		c.Dist(fmt.Sprintf("injected-rejections:%d", min(injected, 3)))
		if i < 2 {
			c.Sample(map[string]string{"case": lines[i], "impl": impl, "model": outs[i]})
		}
		// (O) per-call contract
		for j, op := range cs.ops {
			if j >= len(io) {
				break
			}
			if io[j] == "panic" {
				c.Fail("C12/panic-on-legal-history", core.Replay{Kind: "oracle", Case: lines[i], Impl: impl, Detail: fmt.Sprintf("call %d (%s) panicked", j, op.Tokens())})
				break
			}
			if op.Expect != "" && io[j] != op.Expect {
				sig := "C12/call-outcome"
				if op.Expect == "e:repeatedKey" {
					sig = "C12/repeated-key-not-rejected-at-call"
				} else if op.Expect != "ok" {
					sig = "C12/unacceptable-kind-not-reported"
				}
				c.Fail(sig, core.Replay{Kind: "oracle", Case: lines[i], Impl: impl, Expected: fmt.Sprintf("call %d (%s) → %s", j, op.Tokens(), op.Expect)})
				break
			}
		}
		// (O) result = the accepted entries in order
		want := "built " + cs.want.Term()
		if final != want {
			c.Fail("C12/result-not-accepted-entries", core.Replay{Kind: "oracle", Case: lines[i], Impl: impl, Expected: want})
		}
		// (D)
		if outs[i] != impl {
			c.Fail("C12/corr-assembler", core.Replay{Kind: "correspondence", Case: lines[i], Impl: impl, Model: outs[i]})
		}
	}
	return nil
}

func genAsmCase(r *core.Rand, cfg core.GenCfg, inject bool) asmCase {
	v := core.GenVal(r, cfg, 0)
	proto := "any"
	if r.Chance(1, 3) {
		proto = kindToken(v)
		if proto == "s:null" {
			proto = "any"
		}
		if v.K == 'i' {
			if _, ok := v.Int64(); !ok {
				proto = "any" // the int prototype's builder has no way to take a uint above int64
			}
		}
	}
	var ops []core.AsmOp
	if inject {
		ops = append(ops, rootInjections(proto, r)...)
	}
	ops = append(ops, core.GenHistory(v, r, inject, true)...)
	return asmCase{proto: proto, ops: ops, want: v}
}

func runC12(c *core.Ctx) error {
	c.Rule = "histories = a legal call sequence building a generated tree (entry shortcut / key+value / AssignNode of prebuilt nodes / any size hint) with the two pinned rejections injected at random positions (repeated key through AssembleEntry, key AssignString, key AssignNode; kinds the key position or the root prototype cannot hold), over basicnode Any/Map/List/scalar prototypes; the same over the builders of the reflection binding (inferred and caller-supplied Go types): TYPE level, value-directed on plain schemas (typed lists, String-keyed maps, structs with required / optional / nullable fields, scalars; structs around the 64-field mark) and type-directed on any schema (core.GenTypedHistory), REPRESENTATION level type-directed on any schema (map representation with renamed keys and optional fields, tuples with trailing optional fields missing, stringjoin, keyed / kinded / stringprefix unions, enums, nullable slots) - there also with kinds the VALUE position cannot hold (also where it holds several), Finish while a required field or the union's member is missing, AssignNode of a container refused part of the way through its copy (root and nested positions), struct keys that are no field (at representation level the original name of a renamed field), second / unknown keys of keyed unions, AssembleValue past the last tuple field, BeginMap on a representation that is no map - every history continued after each refusal (the last four, which the engines answer differently, against the model only) - and with a first history (complete, cut off, cut off + one more call) and a Reset in front; non-trivial = at least one injected rejection or >= 6 calls; distinct by history"
	c.Explanation = "theorems: generic builders - reject_no_effect, built_nodup, history_result, run of the canonical plan, lookup table/map agreement (frame invariant), the assembler state tables regenerated from map.go/list.go on every run; schema-bound builders, type level (Props/C12typed.lean over Model/TypedAssembler.lean) - typed_reject_no_effect, typed_repeated_key_rejected_at_call / _by_key_assembler, typed_wrong_kind_rejected, typed_assignNode_iff_conforms, typed_built_conforms (Schema.conforms, no repeated key, canonical), typed_built_is_ideal_build / typed_assignNode_is_ofType (tie to C09's ideal whole-value builder), typed_history_result, typed_reset_is_init / typed_reset_history_result / typed_built_conforms_with_resets; representation level (Props/C12repr.lean over Model/ReprAssembler.lean) - repr_reject_no_effect, repr_repeated_key_rejected_at_call / _by_key_assembler, repr_wrong_kind_rejected with repr_accepts_scalar_iff_conformsRepr / repr_accepts_begin, repr_assignNode_is_build / reprAssignNode_is_ofRepr (AssignNode on a fresh representation builder IS Schema.ofRepr of the ideal engine), repr_built_conforms (conforms, no repeated key, canonical, has a representation), repr_built_is_type_built (the plan of the representation of v builds v, under C08's unambig), repr_history_result, repr_retry / repr_retry_builds, repr_reset_is_init / repr_reset_history_result; correspondence: every generic history on asm.run, every typed history on tasm.run <engine> <type|repr> (call-by-call outcomes - with error classes at type level, accepted / refused + repeated key at representation level - and the node built)"
	c.Assumptions = []string{"generated code is driven call by call under C13 (c13Histories / c13Retry / c13Reset: both engines against the same typed-assembler models, their named deviations as engine flags)", "misuse orders are outside the quantified space", "typed-assembler models: type level - any, unions, enums and non-String map keys are outside the modelled fragment; representation level - any and the listpairs representation (the driver answers `unsupported`; the oracles still apply)", "representation level: the reflection binding accepts BeginMap on representations that are no map (engine flag RAsm.Engine.beginMapAny, reported): such a BeginMap is run against the model only, not injected into histories with expectations (core.BindnodeReprBeginMapRefused)"}
	n := c.Pick(6000, 400000)
	cfg := core.DefaultGen
	cfg.MaxDepth = 5
	for done := 0; done < n; {
		k := min(20000, n-done)
		cases := make([]asmCase, k)
		for i := range cases {
			cases[i] = genAsmCase(c.Rand, cfg, i%4 != 0)
		}
		if err := c12Batch(c, cases, c.Rand); err != nil {
			return err
		}
		done += k
	}
	return c12Typed(c, c.Rand.Fork(), c.Pick(3000, 200000))
}

func replayC12(c *core.Ctx, rp core.Replay) error {
	f := strings.Fields(rp.Case)
	if len(f) > 0 && (f[0] == "c12.typed" || f[0] == "tasm.run") {
		return replayC12Typed(c, rp)
	}
	if len(f) < 3 || f[0] != "asm.run" {
		return fmt.Errorf("bad case")
	}
	ops, err := core.ParseOps(f[2:])
	if err != nil {
		return err
	}
	// the intended tree is what the model builds from the accepted calls
	outs, err := core.RunDriver([]string{rp.Case})
	if err != nil {
		return err
	}
	var want core.Val
	if i := strings.Index(outs[0], "| built "); i >= 0 {
		want, _ = core.ParseTermString(outs[0][i+8:])
	}
	return c12Batch(c, []asmCase{{proto: f[1], ops: ops, want: want}}, c.Rand)
}

// c12Typed: the same call protocol over the typed builders of the reflection binding (type level), for types built from
// typed maps, lists, structs and scalars: legal histories with refused calls injected and the history CONTINUED after each
// (a repeated key in the three ways, a kind the key position cannot hold, a kind the VALUE position cannot hold, AssignNode
// of a container that is refused part of the way through the copy).
//
//	(O) the per-call contract and "the result is exactly the accepted entries", against the generator's expectations;
//	(D) every history is also run on the Lean typed-assembler machine (Model/TypedAssembler.lean, `tasm.run`), whose
//	    theorems (Props/C12typed.lean) are the C12 statements for schema-bound builders: call-by-call answers and the
//	    node built must be the model's (`C12/corr-typed-assembler`).
var c12WideCounter uint64

type c12TypedCase struct {
	sc    *schemaCase
	lvl   string // "type" | "repr": the builder the history runs on
	ops   []core.AsmOp
	want  string // "built …", or "" when the history has no prescribed result (correspondence only)
	line  string
	tasm  string
	impl  string
	io    []string
	final string
}

// unknownFieldTail: the history of a root struct is cut at a point where the struct assembler expects a key, a name that
// is no field is supplied there and a few value calls follow (what happens is pinned by the model only: the reflection
// binding accepts the name and then refuses every value for it).
func unknownFieldTail(ops []core.AsmOp, r *core.Rand) []core.AsmOp {
	depth := 0
	var cuts []int
	for i, op := range ops {
		if depth == 1 && (op.Kind == "AE" || op.Kind == "AK" || op.Kind == "F") && (i == 0 || ops[i-1].Kind != "AK") {
			cuts = append(cuts, i)
		}
		switch {
		case (op.Kind == "BM" || op.Kind == "BL") && op.Expect == "ok":
			depth++
		case op.Kind == "F" && op.Expect == "ok":
			depth--
		case op.Kind == "AN" && op.Expect == "ok" && depth == 0:
			return nil
		}
	}
	if len(cuts) == 0 {
		return nil
	}
	out := append([]core.AsmOp{}, ops[:cuts[r.Intn(len(cuts))]]...)
	for i := range out {
		out[i].Expect = ""
	}
	unk := []byte("no\x01field")
	if r.Bool() {
		out = append(out, core.AsmOp{Kind: "AE", Key: unk})
	} else {
		out = append(out, core.AsmOp{Kind: "AK"}, core.AsmOp{Kind: []string{"A", "AN"}[r.Intn(2)], V: core.Val{K: 's', S: unk}}, core.AsmOp{Kind: "AV"})
	}
	tail := []core.AsmOp{{Kind: "A", V: core.Int(1)}, {Kind: "BM"}, {Kind: "BL", Hint: 1}, {Kind: "AN", V: core.Str("x")}, {Kind: "AN", V: core.List(core.Int(1))}, {Kind: "A", V: core.Null()}}
	for n := 1 + r.Intn(3); n > 0; n-- {
		out = append(out, tail[r.Intn(len(tail))])
	}
	return out
}

func c12TypedRun(c *core.Ctx, cs *c12TypedCase, r *core.Rand) error {
	if cs.lvl == "" {
		cs.lvl = "type"
	}
	var nb datamodel.NodeBuilder
	var err error
	if cs.lvl == "repr" {
		nb, err = cs.sc.Eng.NewReprBuilder(cs.sc.T.Name)
	} else {
		nb, err = cs.sc.Eng.NewTypeBuilder(cs.sc.T.Name)
	}
	if err != nil {
		return err
	}
	rr := r.Fork()
	cs.io, cs.final = core.RunOps(nb, cs.ops, func(x core.Val) (datamodel.Node, error) {
		n, err := core.BuildBasic(x, rr)
		if err == nil && rr.Chance(1, 3) {
			n = core.Foreign(n) // the same data as a node of another implementation
		}
		return n, err
	})
	cs.impl = strings.Join(cs.io, " ") + " | " + cs.final
	lv := ""
	if cs.lvl == "repr" {
		lv = "repr "
	}
	cs.line = "c12.typed " + cs.sc.Eng.Name() + " " + lv + cs.sc.T.Tokens() + " OPS " + core.OpsLine(cs.ops)
	cs.tasm = core.TasmLineLvl(cs.sc.Eng.ModelName(), cs.lvl, cs.sc.T, cs.ops)
	return nil
}

// c12TypedJudge: the oracles on one executed history, then the correspondence with the model's answer.
func c12TypedJudge(c *core.Ctx, cs *c12TypedCase, model string) {
	line, impl, io, ops := cs.line, cs.impl, cs.io, cs.ops
	bad := false
	for j, op := range ops {
		if j >= len(io) {
			break
		}
		if op.Note == "before-reset" {
			continue // the first history of a reset case: whatever it does (also misuse), the Reset makes the builder new
		}
		if io[j] == "panic" {
			c.Fail("C12/panic-on-legal-history", core.Replay{Kind: "oracle", Case: line, Impl: impl, Detail: fmt.Sprintf("call %d (%s) panicked", j, op.Tokens())})
			bad = true
			break
		}
		okErr := op.Expect != "ok" && op.Expect != "reset" && op.Expect != "e:repeatedKey" && strings.HasPrefix(io[j], "e:") // any error class reports an unacceptable kind
		if op.Expect != "" && io[j] != op.Expect && !okErr {
			sig := "C12/call-outcome"
			if op.Expect == "e:repeatedKey" {
				sig = "C12/repeated-key-not-rejected-at-call"
			} else if op.Expect == "e:refusedNode" {
				sig = "C12/nonconforming-node-not-refused"
			} else if op.Expect == "reset" {
				sig = "C12/reset-refused"
			} else if op.Expect != "ok" {
				sig = "C12/unacceptable-kind-not-reported"
			} else if j > 0 {
				// a legal call that is not accepted: after a refused AssignNode it is that refusal that had an effect; after a Reset
				// the builder was not as new
				for k := j - 1; k >= 0 && ops[k].Expect != "ok"; k-- {
					if ops[k].Expect == "e:refusedNode" {
						sig = "C12/refused-assignnode-had-an-effect"
					}
				}
				if sig == "C12/call-outcome" {
					for k := j - 1; k >= 0; k-- {
						if ops[k].Kind == "R" {
							sig = "C12/reset-builder-not-as-new"
						}
					}
				}
			}
			c.Fail(sig, core.Replay{Kind: "oracle", Case: line, Impl: impl, Expected: fmt.Sprintf("call %d (%s) → %s", j, op.Tokens(), op.Expect)})
			bad = true
			break
		}
	}
	if cs.want != "" && !bad && cs.final != cs.want {
		sig := "C12/result-not-accepted-entries"
		for _, op := range ops {
			if op.Expect == "e:refusedNode" {
				sig = "C12/refused-assignnode-had-an-effect"
			}
			if op.Kind == "R" && sig == "C12/result-not-accepted-entries" {
				sig = "C12/reset-builder-not-as-new"
			}
		}
		c.Fail(sig, core.Replay{Kind: "oracle", Case: line, Impl: impl, Expected: cs.want})
	}
	// (D) the typed-assembler machine
	if model == "unsupported" {
		c.Dist("typed-model:type-outside-the-fragment")
		return
	}
	// type level: call by call with the error classes; representation level: accepted / refused (+ the repeated-key class)
	if d := core.TasmCompare(impl, model, cs.lvl != "repr"); d != "" {
		c.Fail("C12/corr-typed-assembler", core.Replay{Kind: "correspondence", Case: cs.tasm, Impl: impl, Model: model, Detail: d + "; history " + line})
	}
}

func c12TypedBatch(c *core.Ctx, cases []*c12TypedCase) error {
	lines := make([]string, len(cases))
	for i, cs := range cases {
		lines[i] = cs.tasm
	}
	outs, err := core.RunDriver(lines)
	if err != nil {
		return err
	}
	for i, cs := range cases {
		c12TypedJudge(c, cs, outs[i])
	}
	return nil
}

func c12Typed(c *core.Ctx, r *core.Rand, n int) error {
	cfg := core.DefaultSchemaCfg
	var batch []*c12TypedCase
	flush := func() error {
		err := c12TypedBatch(c, batch)
		batch = batch[:0]
		return err
	}
	for i := 0; i < n; i++ {
		// three ways to draw a history: value-directed on a plain type (type level); type-directed (core.GenTypedHistory: the
		// schema prescribes which calls are refused) at type level; type-directed at representation level on any schema
		mode := []string{"value", "typed", "repr", "typed", "repr"}[i%5]
		var t *core.SType
		wide := i%16 == 5
		switch {
		case wide:
			mode = "value"
			// a struct around the 64-field mark (one machine word of field flags): the last fields are supplied twice
			t = &core.SType{K: "struct", Name: fmt.Sprintf("C12W%d", atomic.AddUint64(&c12WideCounter, 1)), SRepr: "map"}
			for f := 0; f < []int{63, 64, 65, 66, 70, 130}[r.Intn(6)]; f++ {
				fn := fmt.Sprintf("f%d", f)
				t.Fields = append(t.Fields, core.SField{Name: fn, Rename: fn, T: &core.SType{K: []string{"int", "str", "bool"}[r.Intn(3)], Name: fmt.Sprintf("C12W%d", atomic.AddUint64(&c12WideCounter, 1))}})
			}
		case mode == "repr" || mode == "typed" && i%2 == 0:
			t = core.GenSchema(r, cfg)
		default:
			t = core.GenPlainSchema(r, 0)
		}
		if t.K != "map" && t.K != "list" && t.K != "struct" && t.K != "union" {
			continue
		}
		sc, err := newSchemaCase(t)
		if err != nil {
			return fmt.Errorf("c12 typed: %v (%s)", err, t.Tokens())
		}
		v := core.GenInhabitant(t, r, cfg, false)
		inject := i%4 != 0
		lvl := "type"
		var ops []core.AsmOp
		want := "built " + v.Term()
		switch mode {
		case "value":
			ops = core.GenHistoryOpts(core.TypeInput(v), r, core.HistoryOpts{Inject: inject, WrongKindValues: inject && !wide, RefusedAssignNode: inject && !wide})
			if !wide && i%7 == 2 {
				ops = append(core.ResetPrefix(t, "type", r, cfg), ops...)
			}
		default:
			if mode == "repr" {
				lvl = "repr"
			}
			if i%9 == 4 {
				// a call the engines answer differently: pinned by the model of the engine only, the history ends there
				o, what, ok := core.GenTypedHistoryOdd(t, lvl, v, r, cfg)
				if !ok {
					continue
				}
				if ops = o; what != "" {
					want = ""
					c.Dist("typed-odd:" + lvl + ":" + what)
				}
			} else {
				o, ok := core.GenTypedHistory(t, lvl, v, r, cfg, core.TypedHistoryOpts{Inject: inject, Reset: i%4 == 1})
				if !ok {
					continue // a value without representation (a tuple with an absent field before a present one)
				}
				ops = o
			}
		}
		if wide && len(ops) > 2 && ops[0].Kind == "BM" && ops[len(ops)-1].Kind == "F" {
			// every field has been supplied: each of the last three once more, in the two ways a key can arrive
			fin := ops[len(ops)-1]
			ops = ops[:len(ops)-1]
			for k := 1; k <= 3 && k <= len(t.Fields); k++ {
				fn := []byte(t.Fields[len(t.Fields)-k].Name)
				if k%2 == 1 {
					ops = append(ops, core.AsmOp{Kind: "AE", Key: fn, Expect: "e:repeatedKey"})
				} else {
					ops = append(ops, core.AsmOp{Kind: "AK", Expect: "ok"}, core.AsmOp{Kind: "A", V: core.Val{K: 's', S: fn}, Expect: "e:repeatedKey"})
				}
			}
			ops = append(ops, fin)
			c.Dist("wide-struct-repeated-late-field")
		}
		if mode == "value" && t.K == "struct" && !wide && i%8 == 3 {
			if cut := unknownFieldTail(ops, r); cut != nil {
				ops, want = cut, ""
				c.Dist("typed-struct-unknown-field-name")
			}
		}
		cs := &c12TypedCase{sc: sc, lvl: lvl, ops: ops, want: want}
		if err := c12TypedRun(c, cs, r); err != nil {
			return err
		}
		injected := 0
		for _, op := range ops {
			if op.Expect != "ok" {
				injected++
			}
			if op.Note != "" && op.Note != "before-reset" {
				c.Dist("typed-injected:" + lvl + ":" + op.Note)
			}
		}
		c.Count(cs.line, injected > 0 || len(ops) >= 6)
		c.Dist("proto:typed-" + lvl + "-" + t.K)
		c.Dist("typed-history:" + mode)
		if i < 2 {
			c.Sample(map[string]string{"case": cs.line, "impl": cs.impl})
		}
		batch = append(batch, cs)
		if len(batch) >= 4000 {
			if err := flush(); err != nil {
				return err
			}
		}
	}
	return flush()
}

// replayC12Typed re-executes a `c12.typed <engine> <type…> OPS <ops…>` or `tasm.run <engine> <type…> OPS <ops…>` case: the
// history on the builder the line determines, the per-call answers and the node built against the model's.
func replayC12Typed(c *core.Ctx, rp core.Replay) error {
	f := strings.Fields(rp.Case)
	if len(f) < 4 {
		return fmt.Errorf("bad case")
	}
	lvl, tt := "type", f[2:]
	if tt[0] == "repr" || tt[0] == "type" {
		lvl, tt = tt[0], tt[1:]
	}
	t, rest, err := core.ParseSType(tt)
	if err != nil {
		return err
	}
	if len(rest) == 0 || rest[0] != "OPS" {
		return fmt.Errorf("bad case: no OPS")
	}
	ops, err := core.ParseOps(rest[1:])
	if err != nil {
		return err
	}
	sc, err := newSchemaCase(t)
	if err != nil {
		return err
	}
	// whatever comes before the last Reset carries no expectation (it may be cut off, refused or misuse)
	for last := len(ops) - 1; last >= 0; last-- {
		if ops[last].Kind == "R" {
			for i := 0; i < last; i++ {
				ops[i].Note = "before-reset"
			}
			ops[last].Expect = "reset"
			break
		}
	}
	cs := &c12TypedCase{sc: sc, lvl: lvl, ops: ops}
	if err := c12TypedRun(c, cs, c.Rand); err != nil {
		return err
	}
	// the intended node is what the contract's machine (no engine deviation) builds from the accepted calls
	ideal, err := core.RunDriver([]string{core.TasmLineLvl("ideal", lvl, t, ops)})
	if err != nil {
		return err
	}
	if i := strings.Index(ideal[0], "| built "); i >= 0 {
		cs.want = ideal[0][i+2:]
	}
	c.Count(cs.line, true)
	return c12TypedBatch(c, []*c12TypedCase{cs})
}
