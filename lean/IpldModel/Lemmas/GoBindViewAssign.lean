/-
  C19 (binding model): what a well-typed Go value shows conforms to the schema type, is its own normal form, and is
  rebuilt into the normalised Go value - `view_good` and its companions, by mutual structural recursion on the Go value.
-/
import IpldModel.Lemmas.GoBindBasic
import IpldModel.Lemmas.SchemaRound1
import IpldModel.Lemmas.SchemaConf
namespace Ipld
namespace GoBind
open Schema

/-! ## `any` -/

mutual
theorem toDM_ofDM : (d : DM) → TL.toDM? (TL.ofDM d) = some d
  | .null => rfl
  | .bool _ => rfl
  | .int _ => rfl
  | .float _ => rfl
  | .str _ => rfl
  | .bytes _ => rfl
  | .link _ => rfl
  | .list xs => by simp [TL.ofDM, TL.toDM?, toDMs_ofDMs xs]
  | .map es => by simp [TL.ofDM, TL.toDM?, toDMKVs_ofDMKVs es]
theorem toDMs_ofDMs : (xs : DMs) → TLs.toDMs? (TLs.ofDMs xs) = some xs
  | .nil => rfl
  | .cons x xs => by simp [TLs.ofDMs, TLs.toDMs?, toDM_ofDM x, toDMs_ofDMs xs]
theorem toDMKVs_ofDMKVs : (es : DMKVs) → TLKVs.toDMKVs? (TLKVs.ofDMKVs es) = some es
  | .nil => rfl
  | .cons k x xs => by simp [TLKVs.ofDMKVs, TLKVs.toDMKVs?, toDM_ofDM x, toDMKVs_ofDMKVs xs]
end

theorem normalize_any (v : TL) : normalize .any v = v := by
  cases v <;> simp [normalize]

/-- a `Node` holding `d` is rebuilt as a `Node` holding `d` -/
theorem assignC_node (d : DM) (nul : Bool) (h : conforms .any false (TL.ofDM d) = true) :
    assignC .node .any nul (TL.ofDM d) = some (.node d) := by
  cases d with
  | null => simp [TL.ofDM, conforms] at h
  | list xs =>
    have := toDM_ofDM (.list xs)
    simp only [TL.ofDM] at this
    simp [TL.ofDM, assignC, unptr, wrapFor, isBare, this]
  | map es =>
    have := toDM_ofDM (.map es)
    simp only [TL.ofDM] at this
    simp [TL.ofDM, assignC, unptr, wrapFor, isBare, this]
  | _ => simp [TL.ofDM, assignC, unptr, wrapFor, isBare]

/-! ## A present value in a nullable slot: a fresh pointer -/

theorem assignC_ptr (g1 : GoTy) (t : Ty) (nul : Bool) (v : TL) (hc : compatible g1 t false = true) (hn : v ≠ .null) :
    assignC (.ptr g1) t nul v = (assignC g1 t false v).map .ptr := by
  obtain ⟨g0, hu1, hu2, hw⟩ : ∃ g0, unptr nul (.ptr g1) = some g0 ∧ unptr false g1 = some g0 ∧
      ∀ x, wrapFor (.ptr g1) x = .ptr (wrapFor g1 x) := by
    cases hg : notPtr g1
    · cases g1 <;> simp [notPtr] at hg
      rename_i g2
      simp only [compatible, Bool.and_eq_true, Bool.false_or] at hc
      exact ⟨g2, rfl, unptr_ptr false hc.1, fun x => by rw [wrapFor_ptr x hc.1]; rfl⟩
    · exact ⟨g1, unptr_ptr nul hg, unptr_notPtr hg, fun x => by rw [wrapFor_ptr x hg, wrapFor_notPtr x hg]⟩
  have hw' : wrapFor (.ptr g1) = GoVal.ptr ∘ wrapFor g1 := funext hw
  cases v with
  | null => exact absurd rfl hn
  | absent => simp [assignC]
  | bool _ => unfold assignC; simp only [hu1, hu2, hw', Option.map_map]
  | int _ => unfold assignC; simp only [hu1, hu2, hw', Option.map_map]
  | float _ => unfold assignC; simp only [hu1, hu2, hw', Option.map_map]
  | str _ => unfold assignC; simp only [hu1, hu2, hw', Option.map_map]
  | bytes _ => unfold assignC; simp only [hu1, hu2, hw', Option.map_map]
  | link _ => unfold assignC; simp only [hu1, hu2, hw', Option.map_map]
  | list _ => unfold assignC; simp only [hu1, hu2, hw', Option.map_map]
  | map _ => unfold assignC; simp only [hu1, hu2, hw', Option.map_map]

/-! ## Normalisation -/

theorem norm_nilPtrs : (n : Nat) → (nilPtrs n).norm = nilPtrs n
  | 0 => rfl
  | n + 1 => by simp [nilPtrs, GoVals.norm, GoVal.norm, norm_nilPtrs n]

theorem allNil_eq : (gfs : GoFields) → (ms : List Member) → (xs : GoVals) → allNil gfs ms xs = true →
    xs = nilPtrs gfs.length
  | .nil, [], .nil, _ => rfl
  | .nil, [], .cons _ _, h => by simp [allNil] at h
  | .nil, _ :: _, _, h => by simp [allNil] at h
  | .cons _ _ _, [], _, h => by simp [allNil] at h
  | .cons _ _ _, _ :: _, .nil, h => by simp [allNil] at h
  | .cons _ g gfs, _ :: ms, .cons x xs, h => by
    simp only [allNil, Bool.and_eq_true] at h
    cases x <;> simp at h
    simp [GoFields.length, nilPtrs, allNil_eq gfs ms xs h.2]

theorem lookup_norm : (vals : GoKVs) → (k : Bytes) → vals.norm.lookup k = (vals.lookup k).map GoVal.norm
  | .nil, _ => rfl
  | .cons k0 v es, k => by
    simp only [GoKVs.norm, GoKVs.lookup]
    split
    · rfl
    · exact lookup_norm es k

/-! ## Maps, structs and unions from their parts -/

theorem lookupAll_spec (tvs : List (Bytes × TL)) : (ks : List Bytes) → (es : List (Bytes × TL)) →
    lookupAll tvs ks = some es → es.map (·.1) = ks ∧ ∀ e ∈ es, tvs.lookup e.1 = some e.2
  | [], es, h => by simp [lookupAll] at h; subst h; simp
  | k :: ks, es, h => by
    simp only [lookupAll, zipSome_eq_some] at h
    obtain ⟨v, r, hv, hr, rfl⟩ := h
    obtain ⟨h1, h2⟩ := lookupAll_spec tvs ks r hr
    refine ⟨by simp [h1], ?_⟩
    intro e he
    simp only [List.mem_cons] at he
    rcases he with rfl | he
    · exact hv
    · exact h2 e he

theorem normalizeMap_ofList (vt : Ty) : (es : List (Bytes × TL)) → (∀ e ∈ es, normalize vt e.2 = e.2) →
    normalizeMap vt (TLKVs.ofList es) = TLKVs.ofList es
  | [], _ => rfl
  | (k, v) :: es, h => by
    simp only [TLKVs.ofList_cons, normalizeMap, h (k, v) (by simp),
      normalizeMap_ofList vt es (fun e he => h e (by simp [he]))]

theorem keysOf_ofList (es : List (Bytes × TL)) :
    keysOf (TLKVs.ofList es) = if (es.map (·.1)).isEmpty then none else some (es.map (·.1)) := by
  cases es with
  | nil => rfl
  | cons e es => obtain ⟨k, v⟩ := e; simp [TLKVs.ofList, keysOf, TLKVs.toList]

theorem assignKVs_ofList (g : GoTy) (t : Ty) (nul : Bool) (vals : GoKVs) : (es : List (Bytes × TL)) →
    (∀ e ∈ es, ∃ x, vals.lookup e.1 = some x ∧ assignC g t nul e.2 = some x.norm) →
    assignKVs g t nul (TLKVs.ofList es) =
      some (GoKVs.ofList ((es.map (·.1)).filterMap fun k => (vals.norm.lookup k).map fun v => (k, v)))
  | [], _ => rfl
  | (k, v) :: es, h => by
    obtain ⟨x, hx, hax⟩ := h (k, v) (by simp)
    have ih := assignKVs_ofList g t nul vals es (fun e he => h e (by simp [he]))
    simp only [TLKVs.ofList_cons, assignKVs, hax, ih, zipSome_some, List.map_cons, List.filterMap_cons,
      lookup_norm, hx, Option.map_some, GoKVs.ofList]

theorem entriesOK_keys : (fs : List Field) → (es : List (Bytes × TL)) → entriesOK fs es →
    es.map (·.1) = fs.map (·.name)
  | [], [], _ => rfl
  | [], _ :: _, h => by simp [entriesOK] at h
  | _ :: _, [], h => by simp [entriesOK] at h
  | f :: fs, e :: es, h => by
    simp only [entriesOK] at h
    simp [h.1, entriesOK_keys fs es h.2.2]

/-- every value of a canonical struct value is its own normal form -/
def normOK : List Field → List (Bytes × TL) → Prop
  | [], [] => True
  | f :: fs, e :: es => normalize f.ty e.2 = e.2 ∧ normOK fs es
  | _, _ => False

theorem normalizeStruct_self (F : List Field) (hnd : (F.map (·.name)).Nodup) : (suf : List Field) →
    (es : List (Bytes × TL)) → (∀ f ∈ suf, f ∈ F) → entriesOK suf es → normOK suf es →
    normalizeStruct F (TLKVs.ofList es) = TLKVs.ofList es
  | [], [], _, _, _ => rfl
  | [], _ :: _, _, h, _ => by simp [entriesOK] at h
  | _ :: _, [], _, h, _ => by simp [entriesOK] at h
  | f :: suf, (k, v) :: es, hsub, hE, hN => by
    simp only [entriesOK] at hE
    simp only [normOK] at hN
    obtain ⟨hk, _, hE'⟩ := hE
    have hk' : k = f.name := hk
    subst hk'
    have hfind := find?_key_of_mem (·.name) F hnd f (hsub f (by simp))
    simp only [TLKVs.ofList_cons, normalizeStruct, hfind, hN.1,
      normalizeStruct_self F hnd suf es (fun f' hf' => hsub f' (by simp [hf'])) hE' hN.2]

/-- a canonical struct value with normal values is its own normal form -/
theorem normalize_struct_self (fs : Fields) (sr : StructRepr) (hnd : (fs.toList.map (·.name)).Nodup)
    (ws : TLKVs) (hE : entriesOK fs.toList ws.toList) (hN : normOK fs.toList ws.toList) :
    normalize (.struct fs sr) (.map ws) = .map ws := by
  have h1 := normalizeStruct_self fs.toList hnd fs.toList ws.toList (fun _ h => h) hE hN
  rw [TLKVs.ofList_toList] at h1
  have h2 := canonFields_self fs.toList ws.toList [] (entriesOK_keys _ _ hE) (by simp) hnd
  simp only [List.nil_append] at h2
  simp only [normalize, h1, h2, TLKVs.ofList_toList]

theorem getElem?_inj_of_nodup_key {α β : Type} (key : α → β) (l : List α) (hnd : (l.map key).Nodup)
    (i j : Nat) (a : α) (hi : l[i]? = some a) (hj : l[j]? = some a) : i = j := by
  have hi' : i < (l.map key).length := by
    rw [List.length_map]; exact (List.getElem?_eq_some_iff.1 hi).1
  apply (List.getElem?_inj hi' hnd).1
  rw [List.getElem?_map, List.getElem?_map, hi, hj]

/-! ## What a well-typed value shows -/

mutual
theorem view_good : (gv : GoVal) → (g : GoTy) → (t : Ty) → (nul : Bool) → t.wf = true →
    compatible g t nul = true → wt g t nul gv = true → ∀ v, view g t nul gv = some v →
    conforms t nul v = true ∧ normalize t v = v ∧ assignC g t nul v = some gv.norm
  | .nilPtr, g, t, nul, _, _, hwt, v, hv => by
    cases nul <;> simp [wt] at hwt
    cases g <;> simp at hwt
    simp [view] at hv; subst hv
    exact ⟨by simp [conforms], by simp [normalize], by simp [assignC, GoVal.norm]⟩
  | .ptr x, g, t, nul, hwf, hc, hwt, v, hv => by
    cases g <;> simp [wt] at hwt
    rename_i g1
    simp only [view] at hv
    have hc1 := compatible_ptr hc
    obtain ⟨h1, h2, h3⟩ := view_good x g1 t false hwf hc1 hwt v hv
    have hn : v ≠ .null := by intro h; subst h; simp [conforms] at h1
    exact ⟨conforms_mono_nul t nul v h1, h2, by rw [assignC_ptr _ _ _ _ hc1 hn, h3]; simp [GoVal.norm]⟩
  | .nilBare, g, t, nul, _, _, hwt, v, hv => by
    simp only [wt, Bool.and_eq_true] at hwt
    obtain ⟨rfl, hb⟩ := hwt
    simp [view, hb] at hv; subst hv
    refine ⟨by simp [conforms], by simp [normalize], ?_⟩
    cases g <;> simp [isBare] at hb <;> simp [assignC, isBare, GoVal.norm, hb]
  | .bool b, g, t, nul, _, _, hwt, v, hv => by
    cases nul <;> simp [wt] at hwt
    cases g <;> cases t <;> simp at hwt
    simp [view] at hv; subst hv
    simp [conforms, normalize, assignC, unptr, wrapFor, GoVal.norm]
  | .float b, g, t, nul, _, _, hwt, v, hv => by
    cases nul <;> simp [wt] at hwt
    cases g <;> cases t <;> simp at hwt
    simp [view] at hv; subst hv
    simp [conforms, normalize, assignC, unptr, wrapFor, GoVal.norm]
  | .bytes b, g, t, nul, _, _, hwt, v, hv => by
    cases nul <;> cases g <;> cases t <;> simp [wt] at hwt <;> simp [view, hwt] at hv <;> subst hv <;>
      simp [conforms, normalize, assignC, unptr, wrapFor, GoVal.norm, hwt]
  | .link b, g, t, nul, _, _, hwt, v, hv => by
    cases nul <;> cases g <;> cases t <;> simp [wt] at hwt <;> simp [view, hwt] at hv <;> subst hv <;>
      simp [conforms, normalize, assignC, unptr, wrapFor, GoVal.norm, hwt]
  | .int i, g, t, nul, hwf, _, hwt, v, hv => by
    cases nul <;> simp [wt] at hwt
    cases t with
    | int =>
      cases g <;> simp at hwt
      simp [view] at hv
      subst hv
      simp [conforms, normalize, assignC, unptr, wrapFor, GoVal.norm, hwt]
    | enum ms r =>
      cases r <;> cases g <;> simp at hwt
      rename_i k _
      simp only [view, Bool.false_eq_true, if_false, Option.map_eq_some_iff] at hv
      obtain ⟨m, hm, rfl⟩ := hv
      obtain ⟨hmem, hri⟩ := find?_mem_key (·.rint) ms i m hm
      have hnd : (ms.map (·.name)).Nodup := by
        have := hwf; simp only [Ty.wf, Bool.and_eq_true, nodupBytes_iff] at this; exact this.1
      have hfind := find?_key_of_mem (·.name) ms hnd m hmem
      refine ⟨?_, by simp [normalize], ?_⟩
      · simp only [conforms, List.any_eq_true]
        exact ⟨m, hmem, by simp⟩
      · simp [assignC, unptr, wrapFor, hfind, hri, enumStore_fits k i hwt.1, GoVal.norm]
    | _ => cases g <;> simp at hwt
  | .str b, g, t, nul, _, _, hwt, v, hv => by
    cases nul <;> simp [wt] at hwt
    cases g <;> cases t <;> simp at hwt
    · simp [view] at hv; subst hv
      simp [conforms, normalize, assignC, unptr, wrapFor, GoVal.norm]
    · simp [view] at hv; subst hv
      refine ⟨?_, by simp [normalize], ?_⟩
      · simp only [conforms, List.any_eq_true]
        obtain ⟨m, hm, hn⟩ := hwt
        exact ⟨m, hm, by simp [hn]⟩
      · simp [assignC, unptr, wrapFor, GoVal.norm, hwt]
  | .node d, g, t, nul, _, _, hwt, v, hv => by
    cases g <;> cases t <;> simp [wt, isBare] at hwt
    simp [view, isBare] at hv; subst hv
    refine ⟨conforms_mono_nul _ nul _ hwt, normalize_any _, ?_⟩
    rw [assignC_node d nul hwt]; rfl
  | .nilSlice, g, t, nul, _, _, hwt, v, hv => by
    cases nul <;> simp [wt] at hwt
    cases g <;> cases t <;> simp at hwt
    simp [view] at hv; subst hv
    simp [conforms, conformsList, normalize, normalizeList, assignC, unptr, wrapFor, GoVal.norm, assignList]
  | .slice xs, g, t, nul, hwf, hc, hwt, v, hv => by
    cases g <;> cases t <;> simp [wt, isBare] at hwt
    rename_i ge et enul
    simp only [view, isBare, Bool.not_true, Bool.and_false, Bool.false_eq_true, if_false,
      Option.map_eq_some_iff] at hv
    obtain ⟨ws, hws, rfl⟩ := hv
    have hwf' : et.wf = true := by simpa [Ty.wf] using hwf
    have hc' : compatible ge et enul = true := by simpa [compatible] using hc
    obtain ⟨h1, h2, h3⟩ := viewList_good xs ge et enul hwf' hc' hwt ws hws
    refine ⟨by unfold conforms; exact h1, by simp only [normalize, h2], ?_⟩
    simp [assignC, unptr, wrapFor, isBare, h3, GoVal.norm]
  | .struct vs, g, t, nul, hwf, hc, hwt, v, hv => by
    cases nul <;> simp [wt] at hwt
    cases g <;> cases t <;> simp at hwt
    · -- a struct
      rename_i gfs fs sr
      have hw3 := wf_struct hwf
      have hc' : compatFields gfs fs.toList = true := by simpa [compatible] using hc
      simp only [view, Bool.false_eq_true, if_false, Option.map_eq_some_iff] at hv
      obtain ⟨ws, hws, rfl⟩ := hv
      obtain ⟨hE, hN, hA⟩ := viewFields_good vs gfs fs.toList (Fields.wf_mem fs hw3.1) hc' hwt ws hws
      refine ⟨?_, normalize_struct_self fs sr hw3.2.1 ws hE hN, ?_⟩
      · have := conforms_struct_of_entriesOK fs sr false hw3.2.1 ws.toList hE
        rwa [TLKVs.ofList_toList] at this
      · simp [assignC, unptr, wrapFor, hA, GoVal.norm]
    · -- a union
      rename_i gfs ms ur
      have hw3 := wf_union hwf
      have hc' : compatMembers gfs ms.toList = true := by simpa [compatible] using hc
      simp only [view, Bool.false_eq_true, if_false] at hv
      obtain ⟨i, g1, m, a, x, hg1, hmi, rfl, h1, h2, h3, h4⟩ :=
        viewUnion_good vs gfs ms.toList (Members.wf_mem ms hw3.1) hc' hwt v hv
      have hmem := List.mem_of_getElem? hmi
      have hfind := find?_key_of_mem (·.name) ms.toList hw3.2 m hmem
      obtain ⟨i', hfi⟩ := findIdx_of_find? _ _ _ hfind
      have hi' := (findIdx_some _ _ i' m hfi).1
      have := getElem?_inj_of_nodup_key (·.name) ms.toList hw3.2 i' i m hi' hmi
      subst this
      refine ⟨?_, ?_, ?_⟩
      · unfold conforms; simp only [hfind]; exact h1
      · simp only [normalize, hfind, h2]
      · simp [assignC, unptr, wrapFor, hfi, hg1, h3, GoVal.norm, h4]
  | .omap keys vnil vals, g, t, nul, hwf, hc, hwt, v, hv => by
    cases nul <;> simp [wt] at hwt
    cases g <;> cases t <;> simp at hwt
    rename_i gv0 vt vnul
    obtain ⟨⟨⟨⟨⟨hnk, _⟩, _⟩, _⟩, _⟩, hwk⟩ := hwt
    have hwf' : vt.wf = true := by simpa [Ty.wf] using hwf
    have hc' : compatible gv0 vt vnul = true := by simpa [compatible] using hc
    simp only [view, Bool.false_eq_true, if_false] at hv
    cases h3 : viewKVs gv0 vt vnul vals with
    | none => simp [h3] at hv
    | some tvs =>
      simp only [h3, Option.map_eq_some_iff] at hv
      obtain ⟨es, hes, rfl⟩ := hv
      have hall := viewKVs_good vals gv0 vt vnul hwf' hc' hwk tvs h3
      obtain ⟨hesk, hesl⟩ := lookupAll_spec tvs _ es hes
      have hnd : (es.map (·.1)).Nodup := by rw [hesk]; exact (nodupBytes_iff _).1 hnk
      refine ⟨?_, ?_, ?_⟩
      · unfold conforms
        exact conformsMap_ofList vt vnul es [] hnd (by simp) (fun e he => (hall e.1 e.2 (hesl e he)).1)
      · simp only [normalize, normalizeMap_ofList vt es (fun e he => (hall e.1 e.2 (hesl e he)).2.1)]
      · have := assignKVs_ofList gv0 vt vnul vals es (fun e he => (hall e.1 e.2 (hesl e he)).2.2)
        simp [assignC, unptr, wrapFor, this, GoVal.norm, keysOf_ofList, hesk]
theorem viewList_good : (xs : GoVals) → (g : GoTy) → (t : Ty) → (nul : Bool) → t.wf = true →
    compatible g t nul = true → wtList g t nul xs = true → ∀ ws, viewList g t nul xs = some ws →
    conformsList t nul ws = true ∧ normalizeList t ws = ws ∧ assignList g t nul ws = some xs.norm
  | .nil, g, t, nul, _, _, _, ws, hv => by
    simp [viewList] at hv; subst hv
    simp [conformsList, normalizeList, assignList, GoVals.norm]
  | .cons x xs, g, t, nul, hwf, hc, hwt, ws, hv => by
    simp only [wtList, Bool.and_eq_true] at hwt
    simp only [viewList, zipSome_eq_some] at hv
    obtain ⟨a, r, ha, hr, rfl⟩ := hv
    obtain ⟨h1, h2, h3⟩ := view_good x g t nul hwf hc hwt.1 a ha
    obtain ⟨h4, h5, h6⟩ := viewList_good xs g t nul hwf hc hwt.2 r hr
    simp [conformsList, normalizeList, assignList, GoVals.norm, h1, h2, h3, h4, h5, h6]
theorem viewKVs_good : (vals : GoKVs) → (g : GoTy) → (t : Ty) → (nul : Bool) → t.wf = true →
    compatible g t nul = true → wtKVs g t nul vals = true → ∀ tvs, viewKVs g t nul vals = some tvs →
    ∀ k tv, tvs.lookup k = some tv →
      conforms t nul tv = true ∧ normalize t tv = tv ∧ ∃ x, vals.lookup k = some x ∧ assignC g t nul tv = some x.norm
  | .nil, g, t, nul, _, _, _, tvs, hv, k, tv, hl => by
    simp [viewKVs] at hv; subst hv; simp at hl
  | .cons k0 x es, g, t, nul, hwf, hc, hwt, tvs, hv, k, tv, hl => by
    simp only [wtKVs, Bool.and_eq_true] at hwt
    simp only [viewKVs, zipSome_eq_some] at hv
    obtain ⟨a, r, ha, hr, rfl⟩ := hv
    by_cases hk : k = k0
    · subst hk
      simp only [List.lookup, beq_self_eq_true, Option.some.injEq] at hl
      subst hl
      obtain ⟨h1, h2, h3⟩ := view_good x g t nul hwf hc hwt.1 a ha
      exact ⟨h1, h2, x, by simp [GoKVs.lookup], h3⟩
    · have h1 : (k == k0) = false := by simpa using hk
      have h2 : (k0 == k) = false := by simpa using fun e : k0 = k => hk e.symm
      simp only [List.lookup, h1] at hl
      obtain ⟨h3, h4, y, hy, h5⟩ := viewKVs_good es g t nul hwf hc hwt.2 r hr k tv hl
      exact ⟨h3, h4, y, by simp [GoKVs.lookup, h2, hy], h5⟩
theorem viewFields_good : (vs : GoVals) → (gfs : GoFields) → (fs : List Field) →
    (∀ f ∈ fs, f.ty.wf = true) → compatFields gfs fs = true → wtFields gfs fs vs = true →
    ∀ ws, viewFields gfs fs vs = some ws →
    entriesOK fs ws.toList ∧ normOK fs ws.toList ∧ assignFields gfs fs ws = some vs.norm
  | .nil, gfs, fs, _, _, hwt, ws, hv => by
    cases gfs <;> cases fs <;> simp [wtFields] at hwt
    simp [viewFields] at hv; subst hv
    simp [entriesOK, normOK, TLKVs.toList, assignFields, GoVals.norm]
  | .cons x xs, gfs, fs, hwf, hc, hwt, ws, hv => by
    cases gfs with
    | nil => simp [wtFields] at hwt
    | cons n g gfs =>
      cases fs with
      | nil => simp [wtFields] at hwt
      | cons f fs =>
        rw [compatFields_cons] at hc
        rw [wtFields_cons] at hwt
        rw [viewFields_cons] at hv
        simp only [Bool.and_eq_true] at hc hwt
        simp only [zipSome_eq_some] at hv
        obtain ⟨a, r, ha, hr, rfl⟩ := hv
        obtain ⟨h4, h5, h6⟩ := viewFields_good xs gfs fs (fun f' hf' => hwf f' (by simp [hf'])) hc.2 hwt.2 r hr
        have hcF := hc.1.2
        have hwF := hwt.1
        unfold compatField at hcF
        unfold wtField at hwF
        unfold viewField at ha
        have hwff := hwf f (by simp)
        suffices hfield : fieldValOK f a = true ∧ normalize f.ty a = a ∧ assignField g f a = some x.norm by
          obtain ⟨k1, k2, k3⟩ := hfield
          refine ⟨?_, ?_, ?_⟩
          · simp only [TLKVs.toList, entriesOK]; exact ⟨trivial, k1, h4⟩
          · simp only [TLKVs.toList, normOK]; exact ⟨k2, h5⟩
          · rw [assignFields_cons]; simp [k3, h6, GoVals.norm]
        unfold assignField
        cases hs : fslot g f.opt f.nullable with
        | value =>
          simp only [hs] at hcF hwF ha ⊢
          obtain ⟨h1, h2, h3⟩ := view_good x g f.ty f.nullable hwff hcF hwF a ha
          exact ⟨fieldValOK_of_conforms f a h1, h2, h3⟩
        | optPtr g1 =>
          obtain ⟨ho, rfl⟩ := fslot_optPtr hs
          simp only [hs] at hcF hwF ha ⊢
          cases x with
          | nilPtr =>
            simp only [Option.some.injEq] at ha
            subst ha
            exact ⟨by simp [fieldValOK, ho], by simp [normalize], by simp [GoVal.norm]⟩
          | ptr v =>
            simp only at ha hwF
            obtain ⟨h1, h2, h3⟩ := view_good v g1 f.ty f.nullable hwff (by simp only [Bool.and_eq_true] at hcF; exact hcF.2) hwF a ha
            have hne := conforms_ne_absent _ _ _ h1
            exact ⟨fieldValOK_of_conforms f a h1, h2, by simp [hne, h3, GoVal.norm]⟩
          | _ => simp at hwF
        | optBare =>
          obtain ⟨ho, hn, hb⟩ := fslot_optBare hs
          simp only [hs] at hcF hwF ha ⊢
          by_cases hx : x = .nilBare
          · subst hx
            simp only [if_true, Option.some.injEq] at ha
            subst ha
            exact ⟨by simp [fieldValOK, ho], by simp [normalize], by simp [GoVal.norm]⟩
          · simp only [hx, if_false, decide_false, Bool.false_or, Bool.and_eq_true] at ha hwF
            obtain ⟨h1, h2, h3⟩ := view_good x g f.ty false hwff hcF hwF.2 a ha
            have hne := conforms_ne_absent _ _ _ h1
            refine ⟨fieldValOK_of_conforms f a (by rw [hn]; exact h1), h2, by simp [hne, h3]⟩
        | bad => simp [hs] at hcF
theorem viewUnion_good : (vs : GoVals) → (gfs : GoFields) → (ms : List Member) →
    (∀ m ∈ ms, m.ty.wf = true) → compatMembers gfs ms = true → wtUnion gfs ms vs = true →
    ∀ v, viewUnion gfs ms vs = some v →
    ∃ i g1 m a x, gfs.get? i = some (.ptr g1) ∧ ms[i]? = some m ∧ v = .map (.cons m.name a .nil) ∧
      conforms m.ty false a = true ∧ normalize m.ty a = a ∧ assignC g1 m.ty false a = some x ∧
      vs.norm = unionVals gfs.length i x
  | .nil, gfs, ms, _, _, hwt, v, hv => by
    cases gfs <;> cases ms <;> simp [wtUnion] at hwt
  | .cons x xs, gfs, ms, hwf, hc, hwt, v, hv => by
    cases gfs with
    | nil => simp [wtUnion] at hwt
    | cons n g gfs =>
      cases ms with
      | nil => simp [wtUnion] at hwt
      | cons m ms =>
        unfold compatMembers at hc
        simp only [Bool.and_eq_true] at hc
        cases x with
        | nilPtr =>
          simp only [wtUnion, Bool.and_eq_true] at hwt
          simp only [viewUnion] at hv
          obtain ⟨i, g1, m', a, y, hg1, hmi, rfl, h1, h2, h3, h4⟩ :=
            viewUnion_good xs gfs ms (fun m' hm' => hwf m' (by simp [hm'])) hc.2 hwt.2 v hv
          exact ⟨i + 1, g1, m', a, y, by simp [GoFields.get?, hg1], by simp [hmi], rfl, h1, h2, h3,
            by simp [GoVals.norm, GoVal.norm, GoFields.length, unionVals, h4]⟩
        | ptr w =>
          cases g <;> simp at hc
          rename_i g1
          simp only [wtUnion, Bool.and_eq_true] at hwt
          simp only [viewUnion, Option.map_eq_some_iff] at hv
          obtain ⟨a, ha, rfl⟩ := hv
          obtain ⟨h1, h2, h3⟩ := view_good w g1 m.ty false (hwf m (by simp)) hc.1.2 hwt.1 a ha
          have hnil := allNil_eq gfs ms xs hwt.2
          exact ⟨0, g1, m, a, w.norm, by simp [GoFields.get?], by simp, rfl, h1, h2, h3,
            by simp [GoVals.norm, GoVal.norm, GoFields.length, unionVals, hnil, norm_nilPtrs]⟩
        | _ => simp [wtUnion] at hwt
end

/-- root form: building what a wrapped value shows and unwrapping gives the normalised value -/
theorem view_assign (g : GoTy) (t : Ty) (gv : GoVal) (v : TL) (hwf : t.wf = true)
    (hc : compatible g t false = true) (hwt : wt g t false gv = true) (hv : view g t false gv = some v) :
    assign g t v = some gv.norm := by
  obtain ⟨h1, h2, h3⟩ := view_good gv g t false hwf hc hwt v hv
  simp [assign, h1, h2, h3]

end GoBind
end Ipld
