/-
  Model of the bundled block stores (`storage/memstore`, `storage/fsstore`, `storage/sharding`),
  DESIGN §5 C17/C18.  Core Lean only.

  C17: a store is a key-value map for arbitrary binary keys; the filesystem store maps a key to the
       path  base / shard (escape key)  and touches nothing else.
  C18: filesystem writes are atomic: an inode-level file system, writer processes issuing the
       operation sequence of `PutStream`/commit/`move`/`haveDir`, readers, and a scheduler that
       interleaves them arbitrarily and may stop (crash) or fail any step.
-/
import IpldModel.Model.DM
namespace Ipld
namespace Store

/-! ## The specification: a write-once key-value map -/

abbrev Kv := List (Bytes × Bytes)

def Kv.get (s : Kv) (k : Bytes) : Option Bytes :=
  match s with
  | [] => none
  | (k', v) :: r => if k' = k then some v else Kv.get r k

/-- memstore `Put`: an existing key keeps its content -/
def Kv.put (s : Kv) (k v : Bytes) : Kv :=
  match s.get k with
  | some _ => s
  | none => (k, v) :: s

def Kv.has (s : Kv) (k : Bytes) : Bool := (s.get k).isSome

/-! ## base32 (RFC 4648 standard alphabet, no padding): fsstore's default escaping function -/

def b32StdChar (n : Nat) : UInt8 := if n < 26 then UInt8.ofNat (65 + n) else UInt8.ofNat (50 + (n - 26))

def bits8 (b : UInt8) : List Bool := (List.range 8).map fun i => b.toNat / 2 ^ (7 - i) % 2 = 1

def bitsOf (bs : Bytes) : List Bool := bs.flatMap bits8

def bitsToNat (l : List Bool) : Nat := l.foldl (fun acc b => acc * 2 + (if b then 1 else 0)) 0

/-- groups of five bits, the last one padded with zero bits -/
def chunk5 : Nat → List Bool → List (List Bool)
  | 0, _ => []
  | fuel + 1, l =>
    if l.isEmpty then [] else
    let c := l.take 5
    (c ++ List.replicate (5 - c.length) false) :: chunk5 fuel (l.drop 5)

def b32Std (bs : Bytes) : Bytes :=
  let bits := bitsOf bs
  (chunk5 (bits.length + 1) bits).map fun c => b32StdChar (bitsToNat c)

def isB32Char (c : UInt8) : Bool := (65 ≤ c.toNat && c.toNat ≤ 90) || (50 ≤ c.toNat && c.toNat ≤ 55)

/-! ## fsstore: key ↦ path components under the base directory -/

/-- a sharding function in the calling convention of `storage/sharding`: appends to `shards` -/
abbrev Sharder := Bytes → List Bytes → List Bytes

/-- `pathForKey` (components after the base path) -/
def pathForKey (escape : Bytes → Bytes) (shard : Sharder) (key : Bytes) : List Bytes :=
  shard (escape key) []

def stagingDir : Bytes := ".temp".toUTF8.toList

/-- a path component that keeps a path inside the directory it is joined to -/
def safeComponent (c : Bytes) : Bool :=
  !c.isEmpty && c.all (fun b => isB32Char b || b == 0x30) -- base32 alphabet or the '0' of the short-key padding

/-! ## the filesystem as a key-value map: files by path -/

abbrev Files := List (List Bytes × Bytes)

def Files.read (fs : Files) (p : List Bytes) : Option Bytes :=
  match fs with
  | [] => none
  | (q, v) :: r => if q = p then some v else Files.read r p

/-- rename into place: the path now holds the new content -/
def Files.write (fs : Files) (p : List Bytes) (v : Bytes) : Files := (p, v) :: fs

def fsPut (escape : Bytes → Bytes) (shard : Sharder) (fs : Files) (k v : Bytes) : Files :=
  fs.write (pathForKey escape shard k) v

def fsGet (escape : Bytes → Bytes) (shard : Sharder) (fs : Files) (k : Bytes) : Option Bytes :=
  fs.read (pathForKey escape shard k)

/-! ## C18: inode-level model of concurrent writers, readers, crashes and failures -/

structure Inode where
  content : Bytes := []
  sealed : Bool := false      -- the writing descriptor was closed
  deriving Repr, DecidableEq

/-- a name in the store directory: a staging file or the destination path of a key -/
inductive Name where
  | staging (w : Nat)         -- the randomly named staging file of writer `w`
  | dest (key : Bytes)
  deriving Repr, DecidableEq

structure Fs where
  inodes : List Inode := []
  names : List (Name × Nat) := []       -- directory entries: name ↦ inode number
  dirs : List Bytes := []               -- keys whose shard directory exists
  deriving Repr

def Fs.lookup (fs : Fs) (n : Name) : Option Nat :=
  match fs.names.find? (fun e => e.1 = n) with
  | some e => some e.2
  | none => none

def Fs.unbind (fs : Fs) (n : Name) : Fs := { fs with names := fs.names.filter (fun e => e.1 ≠ n) }

/-- `rename(2)`: atomically make `to` refer to the inode `from` referred to (replacing), `from` disappears -/
def Fs.rename (fs : Fs) (from_ to : Name) : Fs :=
  match fs.lookup from_ with
  | none => fs
  | some i => { (fs.unbind from_).unbind to with names := (to, i) :: ((fs.unbind from_).unbind to).names }

def setInode (l : List Inode) (i : Nat) (f : Inode → Inode) : List Inode :=
  l.mapIdx fun j x => if j = i then f x else x

/-- where a writer stands in the operation sequence of Put / PutStream+commit -/
inductive Phase where
  | start                     -- nothing done yet
  | writing (left : List Bytes)   -- staging file created; chunks still to write
  | closed                    -- descriptor closed after the last chunk (about to rename)
  | needDir                   -- first rename failed with ENOENT: create the shard directory
  | done                      -- renamed into place
  | aborted                   -- write failed: staging file closed and removed
  | dead                      -- the process was killed, or gave up on an error, at some point
  deriving Repr, DecidableEq

structure Writer where
  key : Bytes
  chunks : List Bytes          -- the content, as the caller hands it over
  inode : Nat := 0
  phase : Phase := .start
  deriving Repr

/-- what the environment does to a step: let it happen, make it fail, or kill the process before it -/
inductive Fate where | ok | fail | kill
  deriving Repr, DecidableEq

structure World where
  fs : Fs := {}
  writers : List Writer := []
  deriving Repr

def setWriter (l : List Writer) (i : Nat) (w : Writer) : List Writer :=
  l.mapIdx fun j x => if j = i then w else x

/-- One step of writer `wi` under fate `f`: the next filesystem operation of
    PutStream → Write* → commit(Close, move(Rename [, haveDir(Mkdir), Rename])). -/
def stepWriter (wd : World) (wi : Nat) (f : Fate) : World :=
  match wd.writers[wi]? with
  | none => wd
  | some w =>
    if f = .kill then { wd with writers := setWriter wd.writers wi { w with phase := .dead } } else
    match w.phase with
    | .start =>
      -- os.OpenFile(staging, O_CREATE|O_EXCL)
      if f = .fail then { wd with writers := setWriter wd.writers wi { w with phase := .dead } } else
      let i := wd.fs.inodes.length
      { fs := { wd.fs with inodes := wd.fs.inodes ++ [{}], names := (.staging wi, i) :: wd.fs.names },
        writers := setWriter wd.writers wi { w with inode := i, phase := .writing w.chunks } }
    | .writing [] =>
      -- f.Close()
      if f = .fail then { wd with writers := setWriter wd.writers wi { w with phase := .dead } } else
      { fs := { wd.fs with inodes := setInode wd.fs.inodes w.inode fun n => { n with sealed := true } },
        writers := setWriter wd.writers wi { w with phase := .closed } }
    | .writing (c :: rest) =>
      -- wr.Write(chunk); on failure Put calls the committer with the empty key: Close + Remove
      if f = .fail then
        { fs := ({ wd.fs with inodes := setInode wd.fs.inodes w.inode fun n => { n with sealed := true } }).unbind (.staging wi),
          writers := setWriter wd.writers wi { w with phase := .aborted } }
      else
        { fs := { wd.fs with inodes := setInode wd.fs.inodes w.inode fun n => { n with content := n.content ++ c } },
          writers := setWriter wd.writers wi { w with phase := .writing rest } }
    | .closed =>
      -- os.Rename(staging, dest)
      if f = .fail then { wd with writers := setWriter wd.writers wi { w with phase := .dead } } else
      if wd.fs.dirs.contains w.key then
        { fs := wd.fs.rename (.staging wi) (.dest w.key), writers := setWriter wd.writers wi { w with phase := .done } }
      else { wd with writers := setWriter wd.writers wi { w with phase := .needDir } }
    | .needDir =>
      -- haveDir: os.Mkdir (EEXIST from a racing writer is not an error for the retry), then Rename again
      if f = .fail then { wd with writers := setWriter wd.writers wi { w with phase := .dead } } else
      { fs := { wd.fs with dirs := w.key :: wd.fs.dirs }, writers := setWriter wd.writers wi { w with phase := .closed } }
    | _ => wd

/-- a schedule: which writer moves next, and what the environment does to that step -/
abbrev Schedule := List (Nat × Fate)

def run (wd : World) : Schedule → World
  | [] => wd
  | (wi, f) :: rest => run (stepWriter wd wi f) rest

/-- what a reader sees under a key right now: `open` resolves the name to an inode, `read` returns its bytes -/
def readKey (wd : World) (key : Bytes) : Option Bytes :=
  match wd.fs.lookup (.dest key) with
  | none => none
  | some i => (wd.fs.inodes[i]?).map (·.content)

/-- the content committed for a key: what its writers were given (the write-once premise says they agree) -/
def committed (wd : World) (key : Bytes) : Option Bytes :=
  (wd.writers.find? (fun w => w.key = key)).map fun w => w.chunks.flatten

/-- all writers of one key carry the same content -/
def WriteOnce (ws : List Writer) : Prop :=
  ∀ w₁ ∈ ws, ∀ w₂ ∈ ws, w₁.key = w₂.key → w₁.chunks.flatten = w₂.chunks.flatten

def initWorld (ws : List (Bytes × List Bytes)) : World :=
  { writers := ws.map fun e => { key := e.1, chunks := e.2 } }

end Store
end Ipld

namespace Ipld
namespace Store

/-! ## The bundled sharding functions (`storage/sharding`), as the model states them
    (the regenerated `shard_*_src` are proved equal to these in Props/C17) -/

def zeros (n : Nat) : Bytes := List.replicate n 0x30

def sub (key : Bytes) (lo hi : Nat) : Bytes := (key.drop lo).take (hi - lo)

def shardR12 : Sharder := fun key shards =>
  let l := key.length
  if l > 2 then shards ++ [sub key (l - 3) (l - 1), key] else shards ++ [zeros 2, key]

def shardR122 : Sharder := fun key shards =>
  let l := key.length
  if l > 4 then shards ++ [sub key (l - 5) (l - 3), sub key (l - 3) (l - 1), key]
  else if l > 2 then shards ++ [zeros 2, sub key (l - 3) (l - 1), key]
  else shards ++ [zeros 2, zeros 2, key]

def shardR133 : Sharder := fun key shards =>
  let l := key.length
  if l > 6 then shards ++ [sub key (l - 7) (l - 4), sub key (l - 4) (l - 1), key]
  else if l > 3 then shards ++ [zeros 3, sub key (l - 4) (l - 1), key]
  else shards ++ [zeros 3, zeros 3, key]

/-- the hook points a successful `Put` passes, in order (`dirExists`: does the shard directory exist already?) -/
def putTrace (dirExists : Bool) : List String :=
  ["staged", "before-write", "before-close", "closed", "before-rename"] ++
  (if dirExists then [] else ["before-mkdir", "before-rename-retry"]) ++ ["renamed"]

end Store
end Ipld
