/-
  Go semantics the translator's output refers to (DESIGN §4).  Core Lean only.
  Integer arithmetic is wrapped exactly as Go wraps int64 / uint64; strings are byte lists.
-/
import IpldModel.Model.DM
namespace Ipld

/-- two's-complement wrap of an integer into int64 -/
def wrapI64 (x : Int) : Int := (x + 9223372036854775808) % 18446744073709551616 - 9223372036854775808
/-- wrap of an integer into uint64 -/
def wrapU64 (x : Int) : Int := x % 18446744073709551616

def inI64 (x : Int) : Prop := -9223372036854775808 ≤ x ∧ x ≤ 9223372036854775807
def inU64 (x : Int) : Prop := 0 ≤ x ∧ x ≤ 18446744073709551615

theorem wrapI64_id {x : Int} (h : inI64 x) : wrapI64 x = x := by
  unfold wrapI64; unfold inI64 at h; omega

theorem wrapU64_id {x : Int} (h : inU64 x) : wrapU64 x = x := by
  unfold wrapU64; unfold inU64 at h; omega

/-- Go `len` of a string -/
def goLen (s : Bytes) : Int := (s.length : Int)

/-- Go `s[lo:hi]` (the caller shows `0 ≤ lo ≤ hi ≤ len s`; outside that range Go panics) -/
def goSlice (s : Bytes) (lo hi : Int) : Bytes := (s.drop lo.toNat).take (hi.toNat - lo.toNat)

/-- Go string `<` : bytewise lexicographic, a proper prefix is smaller -/
def strLt : Bytes → Bytes → Bool
  | [], [] => false
  | [], _ :: _ => true
  | _ :: _, [] => false
  | a :: as, b :: bs => if a.toNat < b.toNat then true else if b.toNat < a.toNat then false else strLt as bs

end Ipld
