import IpldModel.Model.Term
import IpldModel.Model.StorageHelpers
namespace Ipld.Driver
open Ipld Ipld.Store Ipld.StoreHelp

def shHex (h : String) : Option Bytes := if h == "-" then some [] else bytesOfHex h
def shShow (b : Bytes) : String := if b.isEmpty then "-" else hexOfBytes b
def shOpt : Option Bytes → String
  | some b => shShow b
  | none => "none"

/-- storehelp.run <caps> <faults> <pre> <key> <piece…>
      caps:   letters  v (own PutVec)  s (own PutStream)  g (own GetStream)  p (own Peek)   or -
      faults: letters  P (Put/commit refuses)  O (stream does not open)  then optionally W<k> (k-th write fails)   or -
      pre:    content already stored under the key (hex, '-' empty) or `none`
    → `<ok|err> <Get key> <GetStream key> <Peek key>` after storage.PutVec(store, key, pieces)  (hex, '-' empty, `none` = error) -/
def storeHelpHandler : List String → Option String
  | "storehelp.run" :: caps :: faults :: pre :: key :: pieces =>
    let fl := (faults.splitOn "W")
    let flags := fl.headD ""
    let fw : Option Nat := match fl with
      | [_, k] => k.toNat?
      | _ => none
    let has (s : String) (c : Char) : Bool := s.toList.contains c
    let failPut := has flags 'P'
    let ownVec : Kv → Bytes → List Bytes → Kv × Bool := fun s k ps =>
      if failPut || (match fw with | some j => decide (j < ps.length) | none => false) then (s, false) else (s.put k ps.flatten, true)
    let st : Impl := {
      failPut := failPut, failOpen := has flags 'O', failWrite := fw,
      ownStream := has caps 's',
      ownPutVec := if has caps 'v' then some ownVec else none,
      ownGetStream := if has caps 'g' then some (fun s k => s.get k) else none,
      ownPeek := if has caps 'p' then some (fun s k => s.get k) else none }
    match shHex key, pieces.mapM shHex, (if pre == "none" then some none else (shHex pre).map some) with
    | some k, some ps, some pre =>
      let s0 : Kv := match pre with
        | some v => Kv.put [] k v
        | none => []
      let r := putVec st s0 k ps
      some ((if r.2 then "ok" else "err") ++ " " ++ shOpt (StoreHelp.get r.1 k) ++ " " ++ shOpt (getStream st r.1 k) ++ " " ++ shOpt (peek st r.1 k))
    | _, _, _ => some "bad-args"
  | _ => none

end Ipld.Driver
