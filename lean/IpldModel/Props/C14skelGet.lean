/-
  C14 (companion) — path resolution (Progress.get) as transcribed into Walk.get.
  Recorded by tools/pin_skeletons.py from the source the models were transcribed from; property-tie theorems only.
-/
import IpldModel.Generated.FocusSkeletons
namespace Ipld.Props.C14

/-- (T) statement skeleton of `Progress.get` (traversal/focus.go) — segment-by-segment lookup, links loaded on the way (model: `Walk.get`): the statements on this run are the recorded ones. -/
theorem focusGet_is_transcribed : Ipld.Generated.focusGet_skel_src = [
  "prog.init()",
  "segments := p.Segments()",
  "var prev datamodel.Node // for LinkContext",
  "i, seg := range segments",
  ". if prog.Budget != nil",
  ". . prog.Budget.NodeBudget--",
  ". . if prog.Budget.NodeBudget <= 0",
  ". . . return nil, &ErrBudgetExceeded{BudgetKind: \"node\", Path: prog.Path}",
  ". switch n.Kind()",
  ". case datamodel.Kind_Invalid",
  ". . panic(fmt.Errorf(\"invalid node encountered at %q\", p.Truncate(i)))",
  ". case datamodel.Kind_Map",
  ". . next, err := n.LookupByString(seg.String())",
  ". . if err != nil",
  ". . . return nil, fmt.Errorf(\"error traversing segment %q on node at %q: %w\", seg, p.Truncate(i), err)",
  ". . prev, n = n, next",
  ". case datamodel.Kind_List",
  ". . intSeg, err := seg.Index()",
  ". . if err != nil",
  ". . . return nil, fmt.Errorf(\"error traversing segment %q on node at %q: the segment cannot be parsed as a number and the node is a list\", seg, p.Truncate(i))",
  ". . next, err := n.LookupByIndex(intSeg)",
  ". . if err != nil",
  ". . . return nil, fmt.Errorf(\"error traversing segment %q on node at %q: %w\", seg, p.Truncate(i), err)",
  ". . prev, n = n, next",
  ". default",
  ". . return nil, fmt.Errorf(\"cannot traverse node at %q: %w\", p.Truncate(i), fmt.Errorf(\"cannot traverse terminals\"))",
  ". for ; n.Kind() == datamodel.Kind_Link; ",
  ". . lnk, _ := n.AsLink()",
  ". . if prog.Budget != nil",
  ". . . if prog.Budget.LinkBudget <= 0",
  ". . . . return nil, &ErrBudgetExceeded{BudgetKind: \"link\", Path: prog.Path, Link: lnk}",
  ". . . prog.Budget.LinkBudget--",
  ". . lnkCtx := linking.LinkContext{Ctx: prog.Cfg.Ctx, LinkPath: p.Truncate(i), LinkNode: n, ParentNode: prev}",
  ". . np, err := prog.Cfg.LinkTargetNodePrototypeChooser(lnk, lnkCtx)",
  ". . if err != nil",
  ". . . return nil, fmt.Errorf(\"error traversing node at %q: could not load link %q: %w\", p.Truncate(i+1), lnk, err)",
  ". . prev = n",
  ". . n, err = prog.Cfg.LinkSystem.Load(lnkCtx, lnk, np)",
  ". . if err != nil",
  ". . . return nil, fmt.Errorf(\"error traversing node at %q: could not load link %q: %w\", p.Truncate(i+1), lnk, err)",
  ". . if trackProgress",
  ". . . prog.LastBlock.Path = p.Truncate(i + 1)",
  ". . . prog.LastBlock.Link = lnk",
  "if trackProgress",
  ". prog.Path = prog.Path.Join(p)",
  "return n, nil"
] := rfl

end Ipld.Props.C14
