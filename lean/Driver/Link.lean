import IpldModel.Model.Link
namespace Ipld.Driver
open Ipld Ipld.Link

/-- The theorems hold for every hash function; the driver instantiates `H` by the table of verdicts the
    harness measured with the real hash (does the prefix the decoder pulled hash to the link? does the
    whole deliverable stream?). -/
def tableH (pre all : Bytes) (pOk aOk : Bool) : Nat → Bytes → Bytes := fun _ b =>
  if b = all then (if aOk then [1] else [0]) else if b = pre then (if pOk then [1] else [0]) else [0]

def toyLink : Lnk := ⟨1, 0x71, 0x12, [1]⟩

def synth (n : Nat) : Bytes := (List.range n).map fun i => UInt8.ofNat (i % 251)

def showRes : Res → String
  | .ok => "ok" | .hashMismatch => "hashMismatch" | .ioErr => "ioErr" | .decodeErr => "decodeErr"

def tf (s : String) : Bool := s == "t"

/-- link.fill <trusted> <pulled> <failed> <failAt|-> <len> <prefixHashOk> <allHashOk>
    link.loadraw <failAt|-> <len> <allHashOk>
    link.store <nwrites> <encFails> <writerFailsAt|->           → committed | failed -/
def linkHandler : List String → Option String
  | ["link.fill", trusted, pulled, failed, failAt, len, pOk, aOk] =>
    match pulled.toNat?, len.toNat? with
    | some k, some n =>
      let fa := if failAt == "-" then none else failAt.toNat?
      let s : Stream := { data := synth n, failAt := fa }
      let d : DecRun := { pulled := k, failed := tf failed }
      let H := tableH (s.deliverable.take k) s.deliverable (tf pOk) (tf aOk)
      some (showRes (fill H (tf trusted) toyLink s d))
    | _, _ => some "bad-args"
  | ["link.loadraw", failAt, len, aOk] =>
    match len.toNat? with
    | some n =>
      let fa := if failAt == "-" then none else failAt.toNat?
      let s : Stream := { data := synth n, failAt := fa }
      let H := tableH [] s.data false (tf aOk)
      some (showRes (loadRaw H toyLink s).1)
    | none => some "bad-args"
  | ["link.store", nw, encFails, wf] =>
    match nw.toNat? with
    | some n =>
      let e : EncRun := { writes := (List.range n).map fun i => [UInt8.ofNat i], encFails := tf encFails,
                          writerFailsAt := if wf == "-" then none else wf.toNat? }
      some (match store (fun _ _ => [1]) ⟨1, 0x71, 0x12, -1⟩ e with
        | .committed _ _ => "committed" | .failed => "failed" | .panicked => "panicked")
    | none => some "bad-args"
  | _ => none

end Ipld.Driver
