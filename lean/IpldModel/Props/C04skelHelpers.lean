/-
  C04 (companion) — the codec helper API (ipld.Encode and friends) as used with the DAG-JSON codec.
  Recorded by tools/pin_skeletons.py from the source the models were transcribed from; property-tie theorems only.
-/
import IpldModel.Generated.CodecHelperSkeletons
namespace Ipld.Props.C04

/-- (T) statement skeleton of `Encode` (codecHelpers.go) — a buffer of the call's own, handed to the caller: the statements on this run are the recorded ones. -/
theorem helperEncode_is_transcribed : Ipld.Generated.helperEncode_skel_src = [
  "var buf bytes.Buffer",
  "err := EncodeStreaming(&buf, n, encFn)",
  "return buf.Bytes(), err"
] := rfl

/-- (T) statement skeleton of `EncodeStreaming` (codecHelpers.go) — typed nodes are encoded through their representation: the statements on this run are the recorded ones. -/
theorem helperEncodeStreaming_is_transcribed : Ipld.Generated.helperEncodeStreaming_skel_src = [
  "if tn, ok := n.(schema.TypedNode); ok",
  ". n = tn.Representation()",
  "return encFn(n, wr)"
] := rfl

/-- (T) statement skeleton of `DecodeStreamingUsingPrototype` (codecHelpers.go) — the prototype's representation for typed prototypes; build after a successful decode only: the statements on this run are the recorded ones. -/
theorem helperDecodeStreaming_is_transcribed : Ipld.Generated.helperDecodeStreaming_skel_src = [
  "if tnp, ok := np.(schema.TypedPrototype); ok",
  ". np = tnp.Representation()",
  "nb := np.NewBuilder()",
  "if err := decFn(nb, r); err != nil",
  ". return nil, err",
  "return nb.Build(), nil"
] := rfl

end Ipld.Props.C04
