/-
  C17 (companion) — the generic storage helpers (`storage/funcs.go`, model `Model/StorageHelpers.lean`) keep a store a
  faithful key-value map: a successful `PutVec` is one `Put` of the concatenation of the pieces on every route, the
  committer of `PutStream` is one `Put` of everything written (the fallback's only once), and the read fallbacks
  `GetStream` / `Peek` return exactly `Get`'s bytes.
  Tie to the code: the statement skeletons of these functions (`C17skelHelpers`) and the correspondence
  `C17/corr-storage-helpers` (go/internal/checks/c17helpers.go, driver `storehelp.run`): `storage.PutVec` then `Get`,
  `storage.GetStream`, `storage.Peek` over a fake store with every capability set, refusing `Put`s, streams that do not
  open and writes failing at piece k, compared with this model.  Property theorems only.
-/
import IpldModel.Lemmas.StorageHelpers
import IpldModel.Props.C18helpers
namespace Ipld.Props.C17
open Ipld Ipld.Store Ipld.StoreHelp

/-- A successful `PutVec` leaves the contents of `Put key (concatenation of the pieces)`: the store's own `PutVec`
    (assumed all-or-nothing), its stream, or the helpers' buffer. -/
theorem putVec_ok_is_put_of_concat (st : Impl) (hv : st.VecAtomic) (s : Kv) (key : Bytes) (pieces : List Bytes)
    (h : (putVec st s key pieces).2 = true) : (putVec st s key pieces).1 = s.put key pieces.flatten := by
  rcases Ipld.Props.C18.putVec_atomic st hv s key pieces with e | e
  · rw [e] at h; cases h
  · rw [e]

/-- …and when nothing fails it does succeed, on both synthesised routes. -/
theorem putVec_succeeds (st : Impl) (hf : st.ownPutVec = none) (hp : st.failPut = false) (ho : st.failOpen = false)
    (hw : st.failWrite = none) (s : Kv) (key : Bytes) (pieces : List Bytes) :
    putVec st s key pieces = (s.put key pieces.flatten, true) := by
  have hv : st.VecAtomic := by intro f h; rw [hf] at h; cases h
  rcases Ipld.Props.C18.putVec_atomic st hv s key pieces with e | e
  · exfalso
    unfold putVec at e
    rw [hf] at e
    simp only at e
    cases hs : putStream st with
    | none => simp [putStream, ho] at hs; split at hs <;> cases hs
    | some w =>
      rw [hs] at e; simp only at e
      have hok := writeAll_nofail st hw pieces w
      cases hwa : writeAll st w pieces with
      | mk w' ok =>
        rw [hwa] at hok e; simp only at hok; subst hok
        simp only [Stream.commit, put, hp] at e
        obtain ⟨_, hu, _, _⟩ := putStream_fresh st w hs
        obtain ⟨_, _, hu'⟩ := writeAll_ok st pieces w w' hwa
        rw [hu', hu] at e
        simp at e
  · exact e

/-- `PutStream`'s committer: after writing `pieces` to the stream it hands out (the store's own or the buffer), the
    first commit is exactly `Put key (everything written)`. -/
theorem putStream_commit_is_put (st : Impl) (w w' : Stream) (ho : putStream st = some w) (pieces : List Bytes)
    (hw : writeAll st w pieces = (w', true)) (s : Kv) (key : Bytes) :
    (w'.commit st s key).1 = put st s key pieces.flatten := by
  obtain ⟨hb, hu, _, _⟩ := putStream_fresh st w ho
  obtain ⟨hb', _, hu'⟩ := writeAll_ok st pieces w w' hw
  rw [commit_unused st s w' key (by rw [hu', hu]), hb', hb, List.nil_append]

/-- The fallback committer works once: a second use returns an error and stores nothing. -/
theorem putStream_commit_once (st : Impl) (hs : st.ownStream = false) (w : Stream) (ho : putStream st = some w)
    (s s' : Kv) (key key' : Bytes) : ((w.commit st s key).2.commit st s' key').1 = (s', false) := by
  obtain ⟨_, hu, _, hown⟩ := putStream_fresh st w ho
  rw [hs] at hown
  simp [Stream.commit, hown, hu]

/-- The helpers' buffer never refuses a write: on that route only `Put` can fail. -/
theorem putStream_buffer_takes_all (st : Impl) (hs : st.ownStream = false) (w : Stream) (ho : putStream st = some w)
    (pieces : List Bytes) : (writeAll st w pieces).2 = true := by
  obtain ⟨_, _, _, hown⟩ := putStream_fresh st w ho
  exact writeAll_buffer st pieces w (by rw [hown, hs])

/-- `GetStream` without a streaming store: the reader yields exactly `Get`'s bytes (and fails exactly when `Get` does). -/
theorem getStream_is_get (st : Impl) (h : st.ownGetStream = none) (s : Kv) (k : Bytes) : getStream st s k = s.get k := by
  simp [getStream, h, StoreHelp.get]

/-- `Peek` without a peekable store: exactly `Get`'s bytes. -/
theorem peek_is_get (st : Impl) (h : st.ownPeek = none) (s : Kv) (k : Bytes) : peek st s k = s.get k := by
  simp [peek, h, StoreHelp.get]

/-- With the capability the helper hands back what the store's own method returns. -/
theorem getStream_peek_own (st : Impl) (f g : Kv → Bytes → Option Bytes) (hf : st.ownGetStream = some f) (hg : st.ownPeek = some g)
    (s : Kv) (k : Bytes) : getStream st s k = f s k ∧ peek st s k = g s k := by
  simp [getStream, peek, hf, hg]

/-! ### non-vacuity -/

example : getStream {} [([1], [7, 8])] [1] = some [7, 8] ∧ peek {} [([1], [7, 8])] [2] = none ∧
    (putVec {} [([1], [7, 8])] [1] [[9]]).1 = [([1], [7, 8])] := by decide

example : putStream { ownStream := true, failOpen := true } = none ∧ (putStream {}).isSome = true := by decide

end Ipld.Props.C17
