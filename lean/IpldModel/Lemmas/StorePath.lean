/-
  Lemmas about the sharding functions, path components and string literals (C17 A2, A3, A5).  Core Lean only.
-/
import IpldModel.Model.Store
import IpldModel.Generated.Sharding
import IpldModel.Lemmas.Base32
namespace Ipld.Store
open Ipld.Generated

/-! ### bytes of string literals -/

theorem byteArray_toList_loop (data : Array UInt8) : ∀ (n i : Nat) (r : List UInt8), n = data.size - i →
    ByteArray.toList.loop ⟨data⟩ i r = r.reverse ++ data.toList.drop i := by
  intro n
  induction n with
  | zero =>
    intro i r h
    rw [ByteArray.toList.loop.eq_1]
    have : ¬ i < (ByteArray.mk data).size := by show ¬ i < data.size; omega
    simp only [this, if_false]
    have : data.toList.length ≤ i := by rw [Array.length_toList]; omega
    simp [List.drop_eq_nil_of_le this]
  | succ n ih =>
    intro i r h
    rw [ByteArray.toList.loop.eq_1]
    have hi : i < (ByteArray.mk data).size := by show i < data.size; omega
    simp only [hi, if_true]
    rw [ih (i+1) _ (by omega)]
    have hi' : i < data.size := hi
    have hlen : i < data.toList.length := by rw [Array.length_toList]; exact hi'
    rw [List.drop_eq_getElem_cons hlen]
    have : (ByteArray.mk data).get! i = data.toList[i] := by
      show data[i]! = _
      simp [hi']
    rw [this]
    simp

theorem byteArray_toList_eq (bs : ByteArray) : bs.toList = bs.data.toList := by
  cases bs with
  | mk data => rw [ByteArray.toList, byteArray_toList_loop data _ 0 [] rfl]; simp

theorem utf8_ofList (l : List Char) : (String.ofList l).toUTF8.toList = l.flatMap String.utf8EncodeChar := by
  rw [byteArray_toList_eq]
  simp [String.toUTF8, List.utf8Encode]

theorem dot_bytes : ".".toUTF8.toList = [0x2e] := by
  have : "." = String.ofList ['.'] := rfl
  rw [this, utf8_ofList]; decide

theorem dotdot_bytes : "..".toUTF8.toList = [0x2e, 0x2e] := by
  have : ".." = String.ofList ['.', '.'] := rfl
  rw [this, utf8_ofList]; decide

theorem stagingDir_bytes : stagingDir = [0x2e, 0x74, 0x65, 0x6d, 0x70] := by
  have : ".temp" = String.ofList ['.', 't', 'e', 'm', 'p'] := rfl
  unfold stagingDir
  rw [this, utf8_ofList]; decide

/-! ### the translated sharders compute the model sharders -/

/-- the index expressions `len key - a` of the sharders do not wrap for keys shorter than 2^63 -/
theorem wrap_len_sub (key : Bytes) (a : Int) (h0 : 0 ≤ a) (ha : a ≤ 8) (hl : key.length < 2 ^ 63) :
    wrapI64 (goLen key - a) = goLen key - a := by
  apply wrapI64_id
  unfold inI64 goLen
  omega

theorem goSlice_eq_sub (key : Bytes) (a b : Nat) (ha : a ≤ key.length) (hb : b ≤ a) :
    goSlice key ((key.length : Int) - (a : Int)) ((key.length : Int) - (b : Int)) =
      sub key (key.length - a) (key.length - b) := by
  unfold goSlice sub
  have h1 : ((key.length : Int) - (a : Int)).toNat = key.length - a := by omega
  have h2 : ((key.length : Int) - (b : Int)).toNat = key.length - b := by omega
  rw [h1, h2]

/-- a slice expression of the translated code, under the branch condition that guards it -/
theorem slice_src (key : Bytes) (a b : Nat) (ha8 : a ≤ 8) (hb : b ≤ a) (ha : a ≤ key.length) (hl : key.length < 2 ^ 63) :
    goSlice key (wrapI64 (goLen key - (a : Int))) (wrapI64 (goLen key - (b : Int))) =
      sub key (key.length - a) (key.length - b) := by
  rw [wrap_len_sub key a (by omega) (by omega) hl, wrap_len_sub key b (by omega) (by omega) hl]
  exact goSlice_eq_sub key a b ha hb

/-- the bounds of a slice expression of the translated code are in range (Go would panic otherwise) -/
theorem slice_in_range (key : Bytes) (a b : Int) (hb : 0 ≤ b) (hba : b ≤ a) (ha8 : a ≤ 8)
    (hcond : goLen key > a - 1) (hl : key.length < 2 ^ 63) :
    0 ≤ wrapI64 (goLen key - a) ∧ wrapI64 (goLen key - a) ≤ wrapI64 (goLen key - b) ∧
      wrapI64 (goLen key - b) ≤ goLen key := by
  rw [wrap_len_sub key a (by omega) (by omega) hl, wrap_len_sub key b (by omega) (by omega) hl]
  omega

/-- the bounds of a Go slice expression `s[lo:hi]` are legal (no panic) -/
def SliceOk (s : Bytes) (lo hi : Int) : Prop := 0 ≤ lo ∧ lo ≤ hi ∧ hi ≤ goLen s

theorem zeros2 : ([48, 48] : Bytes) = zeros 2 := by decide
theorem zeros3 : ([48, 48, 48] : Bytes) = zeros 3 := by decide

theorem goLen_gt (key : Bytes) (n : Nat) : (goLen key > (n : Int)) ↔ key.length > n := by
  unfold goLen; omega


/-! ### shape of the sharders' output -/

/-- a shard directory name: `n` zeros of padding, or `n` consecutive characters of the key -/
def ShardPart (n : Nat) (key c : Bytes) : Prop :=
  c = zeros n ∨ ∃ lo hi, c = sub key lo hi ∧ hi = lo + n ∧ hi ≤ key.length

/-- the output of a sharder on the empty list: shard directory names, then the key itself -/
def ShardShape (n : Nat) (sh : Sharder) : Prop :=
  ∀ key, ∃ pre, sh key [] = pre ++ [key] ∧ ∀ c ∈ pre, ShardPart n key c

theorem shardPart_sub (n : Nat) (key : Bytes) (lo hi : Nat) (h : hi = lo + n) (hh : hi ≤ key.length) :
    ShardPart n key (sub key lo hi) := Or.inr ⟨lo, hi, rfl, h, hh⟩

theorem shardR12_shape : ShardShape 2 shardR12 := by
  intro key
  unfold shardR12
  by_cases h : key.length > 2
  · refine ⟨[sub key (key.length - 3) (key.length - 1)], by simp [h], ?_⟩
    intro c hc
    simp only [List.mem_singleton] at hc
    subst hc
    exact shardPart_sub 2 key _ _ (by omega) (by omega)
  · refine ⟨[zeros 2], by simp [h], ?_⟩
    intro c hc
    simp only [List.mem_singleton] at hc
    exact Or.inl hc

theorem shardR122_shape : ShardShape 2 shardR122 := by
  intro key
  unfold shardR122
  by_cases h4 : key.length > 4
  · refine ⟨[sub key (key.length - 5) (key.length - 3), sub key (key.length - 3) (key.length - 1)], by simp [h4], ?_⟩
    intro c hc
    simp only [List.mem_cons, List.not_mem_nil, or_false] at hc
    rcases hc with rfl | rfl
    · exact shardPart_sub 2 key _ _ (by omega) (by omega)
    · exact shardPart_sub 2 key _ _ (by omega) (by omega)
  · by_cases h2 : key.length > 2
    · refine ⟨[zeros 2, sub key (key.length - 3) (key.length - 1)], by simp [h4, h2], ?_⟩
      intro c hc
      simp only [List.mem_cons, List.not_mem_nil, or_false] at hc
      rcases hc with rfl | rfl
      · exact Or.inl rfl
      · exact shardPart_sub 2 key _ _ (by omega) (by omega)
    · refine ⟨[zeros 2, zeros 2], by simp [h4, h2], ?_⟩
      intro c hc
      simp only [List.mem_cons, List.not_mem_nil, or_false] at hc
      rcases hc with rfl | rfl <;> exact Or.inl rfl

theorem shardR133_shape : ShardShape 3 shardR133 := by
  intro key
  unfold shardR133
  by_cases h4 : key.length > 6
  · refine ⟨[sub key (key.length - 7) (key.length - 4), sub key (key.length - 4) (key.length - 1)], by simp [h4], ?_⟩
    intro c hc
    simp only [List.mem_cons, List.not_mem_nil, or_false] at hc
    rcases hc with rfl | rfl
    · exact shardPart_sub 3 key _ _ (by omega) (by omega)
    · exact shardPart_sub 3 key _ _ (by omega) (by omega)
  · by_cases h2 : key.length > 3
    · refine ⟨[zeros 3, sub key (key.length - 4) (key.length - 1)], by simp [h4, h2], ?_⟩
      intro c hc
      simp only [List.mem_cons, List.not_mem_nil, or_false] at hc
      rcases hc with rfl | rfl
      · exact Or.inl rfl
      · exact shardPart_sub 3 key _ _ (by omega) (by omega)
    · refine ⟨[zeros 3, zeros 3], by simp [h4, h2], ?_⟩
      intro c hc
      simp only [List.mem_cons, List.not_mem_nil, or_false] at hc
      rcases hc with rfl | rfl <;> exact Or.inl rfl

theorem shape_getLast {n : Nat} {sh : Sharder} (h : ShardShape n sh) (key : Bytes) :
    (sh key []).getLast? = some key := by
  obtain ⟨pre, e, _⟩ := h key
  rw [e]; simp

theorem shardPart_length {n : Nat} {key c : Bytes} (h : ShardPart n key c) : c.length = n := by
  rcases h with rfl | ⟨lo, hi, rfl, e, hh⟩
  · simp [zeros]
  · simp only [sub, List.length_take, List.length_drop]; omega

theorem shardPart_mem {n : Nat} {key c : Bytes} (h : ShardPart n key c) : ∀ b ∈ c, b = 0x30 ∨ b ∈ key := by
  intro b hb
  rcases h with rfl | ⟨lo, hi, rfl, e, hh⟩
  · exact Or.inl (List.eq_of_mem_replicate hb)
  · exact Or.inr (List.mem_of_mem_drop (List.mem_of_mem_take hb))

/-! ### safe path components -/

theorem safeComponent_iff (c : Bytes) :
    safeComponent c = true ↔ c ≠ [] ∧ ∀ b ∈ c, isB32Char b = true ∨ b = 0x30 := by
  unfold safeComponent
  cases c with
  | nil => simp
  | cons a r => simp [List.all_eq_true]

theorem safe_of_shape {n : Nat} {sh : Sharder} (h : ShardShape n sh) (hn : 0 < n) (key : Bytes) (hk : key ≠ [])
    (hall : ∀ b ∈ key, isB32Char b = true) : ∀ c ∈ sh key [], safeComponent c = true := by
  obtain ⟨pre, e, hp⟩ := h key
  intro c hc
  rw [e, List.mem_append, List.mem_singleton] at hc
  rw [safeComponent_iff]
  rcases hc with hc | rfl
  · have hl := shardPart_length (hp c hc)
    refine ⟨fun x => by rw [x] at hl; simp at hl; omega, ?_⟩
    intro b hb
    rcases shardPart_mem (hp c hc) b hb with h0 | hm
    · exact Or.inr h0
    · exact Or.inl (hall b hm)
  · exact ⟨hk, fun b hb => Or.inl (hall b hb)⟩

theorem safe_props (c : Bytes) (h : safeComponent c = true) :
    c ≠ [] ∧ c ≠ ".".toUTF8.toList ∧ c ≠ "..".toUTF8.toList ∧ c ≠ stagingDir ∧ (0x2f : UInt8) ∉ c ∧ (0 : UInt8) ∉ c := by
  rw [safeComponent_iff] at h
  obtain ⟨hne, hall⟩ := h
  have hdot : (0x2e : UInt8) ∉ c := fun hm => by
    have := hall _ hm; revert this; decide
  rw [dot_bytes, dotdot_bytes, stagingDir_bytes]
  refine ⟨hne, ?_, ?_, ?_, ?_, ?_⟩
  · intro e; subst e; exact hdot (by simp)
  · intro e; subst e; exact hdot (by simp)
  · intro e; subst e; exact hdot (by simp)
  · intro hm; have := hall _ hm; revert this; decide
  · intro hm; have := hall _ hm; revert this; decide

/-- the bundled sharders, with the width of their shard directory names -/
inductive Bundled : Nat → Sharder → Prop where
  | r12 : Bundled 2 shardR12
  | r122 : Bundled 2 shardR122
  | r133 : Bundled 3 shardR133

theorem bundled_shape {n : Nat} {sh : Sharder} (hb : Bundled n sh) : ShardShape n sh := by
  cases hb with
  | r12 => exact shardR12_shape
  | r122 => exact shardR122_shape
  | r133 => exact shardR133_shape

end Ipld.Store
