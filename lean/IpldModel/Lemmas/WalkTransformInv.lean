/-
  A generic invariant principle for the transform's log (any outcome, also runs that end in an error): a predicate
  `Pos` on positions (path, node) inherited by the children the transform can enter, and a predicate `Q` on the log
  kept by requests and by calls at `Pos` positions, give `Q` of the final log.  Instance: every call of the callback
  is made with the node `get` resolves the call's path to.
-/
import IpldModel.Lemmas.WalkTransform
import IpldModel.Lemmas.WalkGet
namespace Ipld
namespace WalkT
open Sel Walk Spec

section
variable (cfg : Cfg) (fn : TFn) (Pos : Path → DM → Prop) (Q : List Event → Prop)
  (q_load : ∀ es c, Q es → Q (.load c :: es))
  (q_call : ∀ es path n, Q es → Pos path n → Q (callEvent path n :: es))
  (pos_child : ∀ path n ps v, Pos path n → (ps, v) ∈ children n → (∀ c, v ≠ .link c) → Pos (path ++ [ps]) v)
  (pos_link : ∀ path n ps c blk, Pos path n → (ps, .link c) ∈ children n → storeGet cfg.store c = some blk →
    cfg.skip.contains c = false → Pos (path ++ [ps]) blk)

/-- `rec` keeps `Q` when entered at a `Pos` position -/
def Keeps (rec : Path → DM → S → St → TR) : Prop :=
  ∀ path n s st, Q st.events → Pos path n → Q (rec path n s st).1.events

include q_load pos_child pos_link in
theorem tChild_inv {rec : Path → DM → S → St → TR} (hrec : Keeps Pos Q rec) (path : Path) (n : DM) (s : S)
    (attn : Option (List Seg)) (ps : Seg) (v : DM) (st : St) (hq : Q st.events) (hp : Pos path n)
    (hm : (ps, v) ∈ children n) : Q (tChild cfg rec path n s attn ps v st).1.events := by
  by_cases ha : attended attn ps = true
  · rw [tChild_attended _ _ _ _ _ _ _ _ _ ha]
    split
    · exact hq
    · exact hq
    · exact hq
    · split
      · rename_i c
        have hev := linkStep_events_cases cfg c st
        have hsome := @linkStep_some cfg c st
        generalize linkStep cfg c st = ls at hev hsome
        obtain ⟨st', r⟩ := ls
        simp only at hev hsome
        have hq' : Q st'.events := by
          rcases hev with h | h <;> rw [h]
          · exact hq
          · exact q_load _ _ hq
        cases r with
        | error e => exact hq'
        | ok o =>
          cases o with
          | none => exact hq'
          | some blk =>
            obtain ⟨h1, h2, _⟩ := hsome rfl
            exact hrec _ _ _ _ hq' (pos_link _ _ _ _ _ hp hm h1 h2)
      · rename_i hnl
        exact hrec _ _ _ _ hq (pos_child _ _ _ _ hp hm (fun c hc => hnl c hc))
  · rw [tChild_pass _ _ _ _ _ _ _ _ _ (Or.inl (by simpa using ha))]
    exact hq

include q_load pos_child pos_link in
theorem iterate_inv {rec : Path → DM → S → St → TR} (hrec : Keeps Pos Q rec) (path : Path) (n : DM) (s : S)
    (attn : Option (List Seg)) (hp : Pos path n) :
    ∀ (l : List (Seg × DM)) (st : St), Q st.events → (∀ x ∈ l, x ∈ children n) →
      Q (iterate (tChild cfg rec path n s attn) l st).1.events
  | [], st, hq, _ => by rw [iterate_nil]; exact hq
  | (ps, v) :: rest, st, hq, hl => by
    rw [iterate_cons]
    have h1 := tChild_inv cfg Pos Q q_load pos_child pos_link hrec path n s attn ps v st hq hp
      (hl _ (List.mem_cons_self ..))
    generalize tChild cfg rec path n s attn ps v st = r1 at h1
    obtain ⟨st1, r1⟩ := r1
    cases r1 with
    | error e => exact h1
    | ok v' =>
      have h2 := iterate_inv hrec path n s attn hp rest st1 h1 (fun x hx => hl x (List.mem_cons_of_mem _ hx))
      simp only
      generalize iterate (tChild cfg rec path n s attn) rest st1 = r2 at h2
      obtain ⟨st2, r2⟩ := r2
      cases r2 <;> exact h2

include q_load pos_child pos_link in
theorem descend_inv {rec : Path → DM → S → St → TR} (hrec : Keeps Pos Q rec) (path : Path) (n : DM) (s : S)
    (st : St) (hq : Q st.events) (hp : Pos path n) : Q (descend cfg rec path n s st).1.events := by
  unfold descend
  split
  · unfold iterateNode
    have h := iterate_inv cfg Pos Q q_load pos_child pos_link hrec path n s (interests s) hp (children n) st hq
      (fun x hx => hx)
    generalize iterate (tChild cfg rec path n s (interests s)) (children n) st = r at h
    obtain ⟨st', r⟩ := r
    cases r <;> exact h
  · exact hq

include q_load q_call pos_child pos_link in
theorem walkT_inv : ∀ (fuel : Nat), Keeps Pos Q (walkT cfg fn fuel)
  | 0 => by intro path n s st hq _; rw [walkT_zero]; exact hq
  | fuel + 1 => by
    have ih := walkT_inv fuel
    intro path n s st hq hp
    rw [walkT_succ]
    cases h : checkNode st with
    | error e => exact hq
    | ok st1 =>
      have he := checkNode_events h
      have hq1 : Q st1.events := by rw [he]; exact hq
      simp only
      rw [tBody_eq]
      split
      · exact hq1
      · have hq2 : Q (callSt path n st1).events := q_call _ _ _ hq1 hp
        split
        · split
          · exact hq2
          · exact hq2
          · exact descend_inv cfg Pos Q q_load pos_child pos_link ih path n s _ hq2 hp
        · exact descend_inv cfg Pos Q q_load pos_child pos_link ih path n s _ hq1 hp

end

/-- a logged event is a request, or a call made with the node `get` resolves its path to -/
def CallResolves (store : List (Bytes × DM)) (F : Nat) (root : DM) (e : Event) : Prop :=
  (∃ c, e = .load c) ∨ ∃ p m, e = .visit p m .matched ∧ get store F root p = .ok m

/-- every call of the callback — in any run, whatever its outcome — is made with the node currently at its path -/
theorem walkT_calls_resolve (cfg : Cfg) (fn : TFn) (F : Nat) (root : DM) (hroot : root.NoDup)
    (hstore : StoreOk cfg.store) (fuel : Nat) (nb lb : Option Int) (s : S) :
    ∀ e ∈ (run cfg fn fuel nb lb root s).events, CallResolves cfg.store (F + 2) root e := by
  have h := walkT_inv cfg fn (fun path n => get cfg.store (F + 2) root path = .ok n ∧ n.NoDup)
    (fun es => ∀ e ∈ es, CallResolves cfg.store (F + 2) root e)
    (fun es c hq e he => by
      rcases List.mem_cons.1 he with rfl | he
      · exact Or.inl ⟨c, rfl⟩
      · exact hq e he)
    (fun es path n hq hp e he => by
      rcases List.mem_cons.1 he with rfl | he
      · exact Or.inr ⟨path, n, rfl, hp.1⟩
      · exact hq e he)
    (fun path n ps v hp hm hnl => by
      refine ⟨?_, children_noDup hp.2 hm⟩
      rw [get_snoc _ _ _ _ _ _ hp.1, children_getStep _ _ hp.2 hm]
      exact followLinks_nonlink _ _ _ hnl)
    (fun path n ps c blk hp hm hs hk => by
      obtain ⟨hb1, hb2⟩ := hstore c blk hs
      refine ⟨?_, hb1⟩
      rw [get_snoc _ _ _ _ _ _ hp.1, children_getStep _ _ hp.2 hm]
      exact followLinks_link _ _ _ _ hs hb2)
    fuel [] root s { nodeBudget := nb, linkBudget := lb } (by intro e he; cases he) ⟨rfl, hroot⟩
  intro e he
  unfold run at he
  simp only [List.mem_reverse] at he
  exact h e he

theorem run_calls_resolve_any (cfg : Cfg) (fn : TFn) (F : Nat) (root : DM) (hroot : root.NoDup)
    (hstore : StoreOk cfg.store) (fuel : Nat) (nb lb : Option Int) (s : S) (p : Path) (m : DM)
    (hc : (p, m) ∈ callsOf (run cfg fn fuel nb lb root s).events) :
    get cfg.store (F + 2) root p = .ok m := by
  unfold callsOf matchesOf at hc
  rw [List.mem_filterMap] at hc
  obtain ⟨e, he, hx⟩ := hc
  cases e with
  | load c => simp at hx
  | visit q n rs =>
    cases rs with
    | candidate => simp at hx
    | matched =>
      simp only [Option.some.injEq, Prod.mk.injEq] at hx
      obtain ⟨rfl, rfl⟩ := hx
      rcases walkT_calls_resolve cfg fn F root hroot hstore fuel nb lb s _ he with ⟨c, hc⟩ | ⟨p', m', h1, h2⟩
      · cases hc
      · cases h1; exact h2

end WalkT
end Ipld
