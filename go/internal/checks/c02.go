package checks

import (
	"bytes"
	"encoding/hex"
	"fmt"
	"github.com/ipfs/go-cid"
	mh "github.com/multiformats/go-multihash"
	"strings"

	ipld "github.com/ipld/go-ipld-prime"
	"github.com/ipld/go-ipld-prime/codec"
	"github.com/ipld/go-ipld-prime/codec/dagcbor"
	"github.com/ipld/go-ipld-prime/datamodel"
	"github.com/ipld/go-ipld-prime/node/basicnode"

	"verif/internal/core"
)

// C02 — DAG-CBOR encoding is canonical, order-independent, and round-trips.
//
// Per case (a value v and k insertion orders of it):
//   impl observation : hex(dagcbor.Encode(node)), dagcbor.EncodedLength(node), Decode(bytes) read back
//   (D) correspondence: impl bytes / length == model `cbor.enc`
//   (O) oracle        : bytes == Spec canonEncode (driver `cbor.canon`), identical across insertion orders and plans,
//                       EncodedLength == len(bytes), Decode(bytes) == v with maps in canonical order.

func init() {
	core.Register(&core.Check{ID: "C02", Run: runC02, Replay: replayC02, Search: searchC02})
}

type c02obs struct {
	hex    string
	encLen int64
	lenErr error
	dec    string
	err    error
}

func c02Observe(v core.Val, r *core.Rand) c02obs {
	var o c02obs
	n, err := core.BuildBasic(v, r)
	if err != nil {
		o.err = fmt.Errorf("build: %w", err)
		return o
	}
	var buf bytes.Buffer
	if err := dagcbor.Encode(n, &buf); err != nil {
		o.err = fmt.Errorf("encode: %w", err)
		return o
	}
	o.hex = hex.EncodeToString(buf.Bytes())
	o.encLen, o.lenErr = dagcbor.EncodedLength(n)
	nb := basicnode.Prototype.Any.NewBuilder()
	if err := dagcbor.Decode(nb, bytes.NewReader(buf.Bytes())); err != nil {
		o.dec = "err " + err.Error()
		return o
	}
	dv, err := core.ReadNode(nb.Build())
	if err != nil {
		o.dec = "err read " + err.Error()
		return o
	}
	o.dec = dv.Term()
	return o
}

func c02Check(c *core.Ctx, v core.Val, orders []core.Val, r *core.Rand, modelEnc, specCanon string) {
	line := "cbor.enc " + v.Term()
	var first c02obs
	for i, o := range orders {
		var rr *core.Rand
		if i > 0 {
			rr = r
		}
		obs := c02Observe(o, rr)
		if obs.err != nil {
			c.Fail("C02/encode-error", core.Replay{Kind: "oracle", Case: "cbor.enc " + o.Term(), Impl: obs.err.Error(), Detail: "encodable value refused"})
			return
		}
		if i == 0 {
			first = obs
		} else if obs.hex != first.hex {
			c.Fail("C02/order-dependent", core.Replay{Kind: "oracle", Case: "cbor.enc " + o.Term(), Impl: obs.hex, Expected: first.hex,
				Detail: "a different insertion order / assembly plan of the same value encodes differently; reference order: " + v.Term()})
		}
		if obs.lenErr != nil {
			sig := "C02/encodedlength-error"
			if containsBigUint(o) {
				sig = "C02/encodedlength-uint-above-int64"
			}
			c.Fail(sig, core.Replay{Kind: "oracle", Case: "cbor.enc " + o.Term(), Impl: "EncodedLength error: " + obs.lenErr.Error(), Expected: fmt.Sprint(len(obs.hex) / 2)})
		} else if int(obs.encLen) != len(obs.hex)/2 {
			c.Fail("C02/encodedlength-mismatch", core.Replay{Kind: "oracle", Case: "cbor.enc " + o.Term(), Impl: fmt.Sprint(obs.encLen), Expected: fmt.Sprint(len(obs.hex) / 2)})
		}
		want := v.Sorted(core.LessCbor).Term()
		if v.Depth() > 1024 {
			// beyond the decoder's default nesting limit the encoding is still the canonical one (compared with the model
			// above); decoding it back is refused by the limit (C10), which is the only acceptable way not to round-trip
			if !strings.Contains(obs.dec, "depth") {
				c.Fail("C02/roundtrip", core.Replay{Kind: "oracle", Case: "cbor.enc " + o.Term(), Impl: obs.dec, Expected: "refused by the nesting limit", Detail: "a value nested deeper than the decoder's limit"})
			}
		} else if obs.dec != want {
			c.Fail("C02/roundtrip", core.Replay{Kind: "oracle", Case: "cbor.enc " + o.Term(), Impl: obs.dec, Expected: want, Detail: "Decode(Encode(v)) is not v in canonical order"})
		}
	}
	// Spec oracle: canonical bytes
	if specCanon != "" {
		if specCanon != "ok "+first.hex {
			c.Fail("C02/non-canonical", core.Replay{Kind: "oracle", Case: line, Impl: first.hex, Expected: specCanon, Detail: "bytes differ from Spec.canonEncode"})
		}
	}
	// correspondence with the model encoder
	if modelEnc != "" {
		f := strings.Fields(modelEnc)
		if len(f) != 3 || f[0] != "ok" {
			c.Fail("C02/corr-model-refuses", core.Replay{Kind: "correspondence", Case: line, Impl: first.hex, Model: modelEnc})
		} else {
			if f[1] != first.hex {
				c.Fail("C02/corr-bytes", core.Replay{Kind: "correspondence", Case: line, Impl: first.hex, Model: f[1]})
			}
			if first.lenErr == nil && f[2] != fmt.Sprint(first.encLen) {
				c.Fail("C02/corr-encodedlength", core.Replay{Kind: "correspondence", Case: line, Impl: fmt.Sprint(first.encLen), Model: f[2]})
			}
		}
	}
}

func containsBigUint(v core.Val) bool {
	if v.K == 'i' {
		_, ok := v.Int64()
		return !ok
	}
	for _, x := range v.L {
		if containsBigUint(x) {
			return true
		}
	}
	for _, e := range v.M {
		if containsBigUint(e.V) {
			return true
		}
	}
	return false
}

func hasMapWith2(v core.Val) bool {
	if v.K == '{' && len(v.M) >= 2 {
		return true
	}
	for _, x := range v.L {
		if hasMapWith2(x) {
			return true
		}
	}
	for _, e := range v.M {
		if hasMapWith2(e.V) {
			return true
		}
	}
	return false
}

func c02Batch(c *core.Ctx, vals []core.Val) error {
	lines := make([]string, 0, 2*len(vals))
	for _, v := range vals {
		t := v.Term()
		lines = append(lines, "cbor.enc "+t, "cbor.canon "+t)
	}
	outs, err := core.RunDriver(lines)
	if err != nil {
		return err
	}
	for i, v := range vals {
		r := c.Rand.Fork()
		orders := []core.Val{v, core.Shuffle(v, r), core.Shuffle(v, r)}
		c02Check(c, v, orders, r, outs[2*i], outs[2*i+1])
		c.Count(v.Term(), hasMapWith2(v))
		c.Trace(1)
		c.Dist(fmt.Sprintf("size<=%d", bucket(v.Size())))
		if i < 3 {
			c.Sample(map[string]string{"case": lines[2*i], "model": outs[2*i]})
		}
	}
	return nil
}

func bucket(n int) int {
	b := 1
	for b < n {
		b *= 4
	}
	return b
}

func c02Boundary() []core.Val {
	var vals []core.Val
	for _, u := range []uint64{0, 23, 24, 255, 256, 65535, 65536, 1<<32 - 1, 1 << 32, 1<<63 - 1, 1 << 63, 1<<64 - 1} {
		vals = append(vals, core.Uint(u))
		if u <= 1<<63-1 {
			vals = append(vals, core.Int(-1-int64(u)))
		}
	}
	for _, n := range []int{0, 23, 24, 255, 256, 65535, 65536} {
		vals = append(vals, core.Str(strings.Repeat("k", n)), core.Bytes(bytes.Repeat([]byte{7}, n)))
		l := core.Val{K: '['}
		for i := 0; i < n && n <= 256; i++ {
			l.L = append(l.L, core.Int(int64(i)))
		}
		if n <= 256 {
			vals = append(vals, l)
			m := core.Val{K: '{'}
			for i := 0; i < n; i++ {
				m.M = append(m.M, core.KV{K: []byte(fmt.Sprintf("%c%d", 'a'+i%7, i)), V: core.Null()})
			}
			vals = append(vals, m)
		}
	}
	// nesting around the decoder's default depth limit (the encoder has none): 1022 … 1026 levels around a scalar
	for _, depth := range []int{1022, 1023, 1024, 1025, 1026} {
		v := core.Int(7)
		for i := 0; i < depth; i++ {
			if i%2 == 0 {
				v = core.List(v)
			} else {
				v = core.Map(core.KV{K: []byte("k"), V: v})
			}
		}
		vals = append(vals, v)
	}
	// long links: identity multihashes of 120 … 300 bytes (binary CID around 128 and 256 bytes)
	for _, dl := range []int{120, 123, 124, 125, 126, 200, 251, 252, 253, 300} {
		m, _ := mh.Encode(bytes.Repeat([]byte{0xab}, dl), mh.IDENTITY)
		vals = append(vals, core.Link(cid.NewCidV1(0x55, m).Bytes()), core.List(core.Link(cid.NewCidV1(0x71, m).Bytes()), core.Int(1)))
	}
	// equal-length multi-byte keys differing late, prefix keys, empty key
	vals = append(vals, core.Map(core.KV{K: []byte("ab"), V: core.Int(1)}, core.KV{K: []byte("aa"), V: core.Int(2)},
		core.KV{K: []byte("b"), V: core.Int(3)}, core.KV{K: []byte(""), V: core.Int(4)}, core.KV{K: []byte("a\xff"), V: core.Int(5)},
		core.KV{K: []byte("a\x00"), V: core.Int(6)}, core.KV{K: []byte("aaa"), V: core.Int(7)}))
	return vals
}

func runC02(c *core.Ctx) error {
	c.Rule = "values drawn by core.GenVal (boundary ints/lengths, arbitrary-byte keys incl. equal-length keys differing in one byte, all CID versions) plus a fixed boundary table; each value is built in 3 insertion orders / assembly plans with basicnode; non-trivial = contains a map with >= 2 entries; distinct by canonical term"
	c.Explanation = "theorems: model encoder = Spec.canonEncode, permutation invariance, head shortest/injective, EncodedLength, decode∘encode; generated facts: uintLength_src, comparator; correspondence: impl bytes vs model bytes"
	c.Assumptions = []string{"refmt CBOR encoder modelled by hand (emitMajorPlusLen); sort.Slice assumed to return a sorted permutation", "typed implementations (bindnode, generated) reach this check through C08/C13"}
	if err := c02Batch(c, c02Boundary()); err != nil {
		return err
	}
	c02StreamRoots(c, c.Rand.Fork())
	c02FailedEncodes(c, c.Rand.Fork(), c.Pick(150, 10000))
	c02HelperHistories(c, c.Rand.Fork(), c.Pick(150, 10000), dagcbor.Encode, func(n datamodel.Node) ([]byte, error) {
		var buf bytes.Buffer
		err := dagcbor.Encode(n, &buf)
		return buf.Bytes(), err
	}, "C02")
	n := c.Pick(3000, 200000)
	cfg := core.DefaultGen
	for done := 0; done < n; {
		k := 5000
		if n-done < k {
			k = n - done
		}
		vals := make([]core.Val, k)
		for i := range vals {
			vals[i] = core.GenVal(c.Rand, cfg, 0)
		}
		if err := c02Batch(c, vals); err != nil {
			return err
		}
		done += k
	}
	return nil
}

// limitWriter accepts `limit` bytes and then fails (the failing write takes what still fits).
type limitWriter struct {
	buf   bytes.Buffer
	limit int
}

func (w *limitWriter) Write(p []byte) (int, error) {
	room := w.limit - w.buf.Len()
	if room >= len(p) {
		return w.buf.Write(p)
	}
	if room > 0 {
		w.buf.Write(p[:room])
	}
	return max(room, 0), fmt.Errorf("writer full")
}

// c02FailedEncodes: the encoding is a function of the value alone - also right after an encode that failed.  A value is
// encoded into a writer that fails at every offset in turn (all offsets for short encodings, sampled otherwise); the
// bytes that got through are a prefix of the canonical encoding, an error is reported, and the NEXT encode (of the same
// and of another value, on the same goroutine) produces exactly the canonical bytes, as does EncodedLength.
func c02FailedEncodes(c *core.Ctx, r *core.Rand, n int) {
	cfg := core.DefaultGen
	cfg.MaxDepth, cfg.MaxWidth = 3, 4
	for i := 0; i < n; i++ {
		v := core.GenVal(r, cfg, 0)
		w := core.GenVal(r, cfg, 0)
		nv, err1 := core.BuildBasic(v, nil)
		nw, err2 := core.BuildBasic(w, nil)
		if err1 != nil || err2 != nil {
			continue
		}
		var canonV, canonW bytes.Buffer
		if dagcbor.Encode(nv, &canonV) != nil || dagcbor.Encode(nw, &canonW) != nil {
			continue
		}
		total := canonV.Len()
		var offsets []int
		if total <= 64 {
			for k := 0; k < total; k++ {
				offsets = append(offsets, k)
			}
		} else {
			for k := 0; k < 24; k++ {
				offsets = append(offsets, r.Intn(total))
			}
		}
		hasLink := strings.Contains(v.Term(), " l") || v.K == 'l'
		for _, off := range offsets {
			caseID := fmt.Sprintf("c02.failed-encode fail-at=%d %s THEN %s", off, v.Term(), w.Term())
			lw := &limitWriter{limit: off}
			err := dagcbor.Encode(nv, lw)
			c.Count(caseID, hasLink)
			if err == nil {
				c.Fail("C02/failed-write-not-reported", core.Replay{Kind: "oracle", Case: caseID, Impl: "nil", Expected: "an error: the writer failed after " + fmt.Sprint(off) + " bytes"})
			}
			if !bytes.HasPrefix(canonV.Bytes(), lw.buf.Bytes()) {
				c.Fail("C02/partial-output-not-a-prefix", core.Replay{Kind: "oracle", Case: caseID, Impl: hex.EncodeToString(lw.buf.Bytes()), Expected: hex.EncodeToString(canonV.Bytes())})
			}
			for which, pair := range [][2]interface{}{{nw, canonW.Bytes()}, {nv, canonV.Bytes()}} {
				var again bytes.Buffer
				nd := pair[0].(datamodel.Node)
				if err := dagcbor.Encode(nd, &again); err != nil || !bytes.Equal(again.Bytes(), pair[1].([]byte)) {
					c.Fail("C02/encode-after-failed-encode-differs", core.Replay{Kind: "oracle", Case: caseID, Impl: hex.EncodeToString(again.Bytes()) + fmt.Sprint(" ", err), Expected: hex.EncodeToString(pair[1].([]byte)),
						Detail: []string{"the other value", "the same value"}[which] + " encoded right after the failed encode"})
				}
				if l, err := dagcbor.EncodedLength(nd); err != nil || l != int64(len(pair[1].([]byte))) {
					c.Fail("C02/encodedlength-mismatch", core.Replay{Kind: "oracle", Case: caseID, Impl: fmt.Sprint(l, err), Expected: fmt.Sprint(len(pair[1].([]byte)))})
				}
			}
		}
		c.Dist("failed-encode-histories")
		if hasLink {
			c.Dist("failed-encode-histories:with-link")
		}
	}
}

// c02HelperHistories: what an encode handed back is the caller's.  Through the helper API (ipld.Encode, ipld.Marshal with
// the codec's encoder) several values are encoded one after another on one goroutine, every result is kept, and after
// each further encode every earlier result still holds exactly the canonical bytes of ITS value.
func c02HelperHistories(c *core.Ctx, r *core.Rand, n int, enc codec.Encoder, canon func(datamodel.Node) ([]byte, error), pfx string) {
	cfg := core.DefaultGen
	cfg.MaxDepth, cfg.MaxWidth, cfg.BigUint, cfg.Floats = 3, 4, false, false
	for i := 0; i < n; i++ {
		type kept struct {
			term       string
			got, canon []byte
		}
		var hist []kept
		for k := 2 + r.Intn(5); k > 0; k-- {
			v := core.GenVal(r, cfg, 0)
			nd, err := core.BuildBasic(v, nil)
			if err != nil {
				continue
			}
			want, err := canon(nd)
			if err != nil {
				continue
			}
			got, err := ipld.Encode(nd, enc)
			if err != nil {
				c.Fail(pfx+"/helper-encode-fails", core.Replay{Kind: "oracle", Case: pfx + ".helper-history " + v.Term(), Impl: err.Error()})
				continue
			}
			hist = append(hist, kept{v.Term(), got, append([]byte{}, want...)})
			var terms []string
			for _, h := range hist {
				terms = append(terms, h.term)
			}
			caseID := pfx + ".helper-history " + strings.Join(terms, " ; ")
			c.Count(caseID, len(hist) >= 2)
			for j, h := range hist {
				if !bytes.Equal(h.got, h.canon) {
					c.Fail(pfx+"/returned-bytes-changed-by-later-encode", core.Replay{Kind: "oracle", Case: caseID, Impl: hex.EncodeToString(h.got), Expected: hex.EncodeToString(h.canon),
						Detail: fmt.Sprintf("the bytes ipld.Encode returned for value %d, looked at again after %d further encode(s)", j, len(hist)-1-j)})
					hist[j].got = append([]byte{}, h.canon...)
				}
			}
		}
		c.Dist("helper-histories")
	}
}

// c02StreamRoots: the encoding is a function of the value, not of the node that holds it: reader-backed bytes nodes (a
// node implementation of its own, which an encoder may treat specially) at every head boundary, as the ROOT handed to the
// encoder and nested, encode to the bytes the plain bytes node of the same content encodes to, with the same
// EncodedLength, and decode back.
func c02StreamRoots(c *core.Ctx, r *core.Rand) {
	lens := []int{0, 1, 23, 24, 255, 256, 65535, 65536}
	if c.Thorough() {
		lens = append(lens, 65534, 65537, 1<<20, 1<<24-1, 1<<24)
	}
	for _, L := range lens {
		data := r.Bytes(L)
		plain := basicnode.NewBytes(data)
		var want bytes.Buffer
		if err := dagcbor.Encode(plain, &want); err != nil {
			continue
		}
		for _, shape := range []string{"root", "in-list", "in-map"} {
			stream := basicnode.NewBytesFromReader(core.StreamSource(r, data))
			var nd datamodel.Node = stream
			wantBytes := want.Bytes()
			if shape != "root" {
				nb := basicnode.Prototype.Any.NewBuilder()
				nbp := basicnode.Prototype.Any.NewBuilder()
				if shape == "in-list" {
					la, _ := nb.BeginList(1)
					la.AssembleValue().AssignNode(stream)
					la.Finish()
					lp, _ := nbp.BeginList(1)
					lp.AssembleValue().AssignNode(plain)
					lp.Finish()
				} else {
					ma, _ := nb.BeginMap(1)
					va, _ := ma.AssembleEntry("k")
					va.AssignNode(stream)
					ma.Finish()
					mp, _ := nbp.BeginMap(1)
					vp, _ := mp.AssembleEntry("k")
					vp.AssignNode(plain)
					mp.Finish()
				}
				nd = nb.Build()
				var wb bytes.Buffer
				dagcbor.Encode(nbp.Build(), &wb)
				wantBytes = wb.Bytes()
			}
			caseID := fmt.Sprintf("c02.stream-bytes %s len=%d", shape, L)
			c.Count(caseID, true)
			c.Dist("stream-bytes:" + shape)
			var got bytes.Buffer
			err := dagcbor.Encode(nd, &got)
			if err != nil || !bytes.Equal(got.Bytes(), wantBytes) {
				c.Fail("C02/encoding-depends-on-node-implementation", core.Replay{Kind: "oracle", Case: caseID, Impl: hex.EncodeToString(truncateBytes(got.Bytes(), 24)) + fmt.Sprintf("… (%d bytes, err %v)", got.Len(), err),
					Expected: hex.EncodeToString(truncateBytes(wantBytes, 24)) + fmt.Sprintf("… (%d bytes)", len(wantBytes)), Detail: "a reader-backed bytes node against the plain bytes node of the same content"})
			}
			if l, err := dagcbor.EncodedLength(nd); err != nil || l != int64(len(wantBytes)) {
				c.Fail("C02/encodedlength-mismatch", core.Replay{Kind: "oracle", Case: caseID, Impl: fmt.Sprint(l, err), Expected: fmt.Sprint(len(wantBytes))})
			}
			nb := basicnode.Prototype.Any.NewBuilder()
			// (decoded with an allocation budget that pays for the content: the DEFAULT budget refusing a 16 MiB string is
			// C10's bound at work, not a failure to round-trip)
			if err := (dagcbor.DecodeOptions{AllowLinks: true, AllocationBudget: int64(L) + 1<<20}).Decode(nb, bytes.NewReader(got.Bytes())); err != nil {
				c.Fail("C02/own-output-not-decodable", core.Replay{Kind: "oracle", Case: caseID, Impl: err.Error(), Expected: "decodes"})
			}
		}
	}
}

func searchC02(c *core.Ctx) error { return nil }

func replayC02(c *core.Ctx, rp core.Replay) error {
	f := strings.Fields(rp.Case)
	if len(f) < 2 {
		return fmt.Errorf("bad case")
	}
	v, err := core.ParseTermString(strings.Join(f[1:], " "))
	if err != nil {
		return err
	}
	return c02Batch(c, []core.Val{v})
}
