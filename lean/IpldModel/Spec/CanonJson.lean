/-
  Spec: what DAG-JSON can express and in which order it writes maps, written from the DAG-JSON
  specification (https://ipld.io/specs/codecs/dag-json/spec/), not from the code:

    * map keys are written in bytewise (lexical) order;
    * a map `{"/": <string>}` is a link and a map `{"/": {"bytes": <string>}}` is a byte string, so a
      data-model map of exactly one of these two shapes cannot be expressed (`Expressible` excludes them);
    * integers are int64, floats are finite, links are valid CIDs (`JsonDomain`).

  Definitions only.
-/
import IpldModel.Spec.CanonCbor
import IpldModel.Model.JsonTok
namespace Ipld
namespace Spec

/-- insert an entry into a bytewise-sorted entry list (before the first strictly greater key) -/
def insertKVLex (k : Bytes) (v : DM) : DMKVs → DMKVs
  | .nil => .cons k v .nil
  | .cons k' v' es => if bytewiseLE k k' then .cons k v (.cons k' v' es) else .cons k' v' (insertKVLex k v es)

mutual
/-- The value with every map in bytewise key order. -/
def canonLex : DM → DM
  | .list xs => .list (canonLexList xs)
  | .map es => .map (canonLexKVs es)
  | d => d
def canonLexList : DMs → DMs
  | .nil => .nil
  | .cons x xs => .cons (canonLex x) (canonLexList xs)
def canonLexKVs : DMKVs → DMKVs
  | .nil => .nil
  | .cons k v es => insertKVLex k (canonLex v) (canonLexKVs es)
end

/-- The two map shapes DAG-JSON reserves: `{"/": <string>}` and `{"/": {"bytes": <string>}}`. -/
def Reserved (es : DMKVs) : Prop :=
  (∃ s, es = .cons Json.slash (.str s) .nil) ∨
  (∃ s, es = .cons Json.slash (.map (.cons Json.bytesWord (.str s) .nil)) .nil)

mutual
/-- No map anywhere in the value has one of the two reserved shapes. -/
def Expressible : DM → Prop
  | .list xs => ExpressibleList xs
  | .map es => ¬ Reserved es ∧ ExpressibleKVs es
  | _ => True
def ExpressibleList : DMs → Prop
  | .nil => True
  | .cons x xs => Expressible x ∧ ExpressibleList xs
def ExpressibleKVs : DMKVs → Prop
  | .nil => True
  | .cons _ v es => Expressible v ∧ ExpressibleKVs es
end

mutual
/-- The scalars DAG-JSON can carry: int64 integers, finite floats, valid CIDs. -/
def JsonDomain : DM → Prop
  | .int i => Json.inInt64 i = true
  | .float f => Json.finiteBits f = true
  | .link c => cidValid c = true
  | .list xs => JsonDomainList xs
  | .map es => JsonDomainKVs es
  | _ => True
def JsonDomainList : DMs → Prop
  | .nil => True
  | .cons x xs => JsonDomain x ∧ JsonDomainList xs
def JsonDomainKVs : DMKVs → Prop
  | .nil => True
  | .cons _ v es => JsonDomain v ∧ JsonDomainKVs es
end

mutual
/-- Parameter hypothesis on the CID text codec: every link in the value survives `cidText`/`cidParse`. -/
def CidTextOK : DM → Prop
  | .link c => Json.cidParse (Json.cidText c) = some c
  | .list xs => CidTextOKList xs
  | .map es => CidTextOKKVs es
  | _ => True
def CidTextOKList : DMs → Prop
  | .nil => True
  | .cons x xs => CidTextOK x ∧ CidTextOKList xs
def CidTextOKKVs : DMKVs → Prop
  | .nil => True
  | .cons _ v es => CidTextOK v ∧ CidTextOKKVs es
end

mutual
/-- Nesting depth as DAG-JSON sees it: bytes and links are written as maps, so they count one level. -/
def jsonDepth : DM → Nat
  | .list xs => jsonDepthList xs + 1
  | .map es => jsonDepthKVs es + 1
  | .bytes _ => 1
  | .link _ => 1
  | _ => 0
def jsonDepthList : DMs → Nat
  | .nil => 0
  | .cons x xs => max (jsonDepth x) (jsonDepthList xs)
def jsonDepthKVs : DMKVs → Nat
  | .nil => 0
  | .cons _ v es => max (jsonDepth v) (jsonDepthKVs es)
end

end Spec
end Ipld
