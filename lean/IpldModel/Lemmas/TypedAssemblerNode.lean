/-
  Typed assemblers: `AssignNode` is the whole-value builder.  The copy `putNode` makes of a node `v` into a value
  assembler of a plain type `t` is accepted exactly when `v` conforms to `t` (`Schema.conforms`, and every integer fits
  int64), and what it delivers is the canonical typed value `Schema.normalize t v` - which is what C09's ideal builder
  `Schema.build Engine.ideal .type` returns.  By mutual structural recursion on the node.
-/
import IpldModel.Lemmas.TypedAssemblerCalls
namespace Ipld
namespace TAsm
open Ipld.Asm (Op Out ErrClass)
open Ipld.Schema (Ty Fields Field TL TLs TLKVs canonFields conforms conformsList conformsMap conformsStruct
  normalize normalizeList normalizeMap normalizeStruct)

theorem andThen_assoc (r : St × Out) (f g : St → St × Out) :
    andThen (andThen r f) g = andThen r (fun s => andThen (f s) g) := by
  obtain ⟨s, o⟩ := r
  cases o <;> rfl

theorem andThen_of_ok {r : St × Out} {s1 : St} (h : r = (s1, .ok)) (f : St → St × Out) : andThen r f = f s1 := by
  rw [h]; rfl

theorem andThen_of_err {r : St × Out} (h : ∃ s' c, r = (s', .err c)) (f : St → St × Out) :
    ∃ s' c, andThen r f = (s', .err c) := by
  obtain ⟨s', c, rfl⟩ := h
  exact ⟨s', c, rfl⟩

/-- nothing is accepted by bindnode's error assembler -/
theorem putNode_errAsm {e : Engine} {s : St} (hp : pos s = .errAsm) (v : DM) : ∃ s' c, putNode e s v = (s', .err c) := by
  have hbl : stepPrim e s (.beginList 0) = (s, .err .other) := by rw [stepPrim_at_errAsm hp]; rfl
  have hbm : stepPrim e s (.beginMap 0) = (s, .err .other) := by rw [stepPrim_at_errAsm hp]; rfl
  have hsc : ∀ d, Asm.isScalar d = true → stepPrim e s (.assign d) = (s, .err .other) := by
    intro d hd; rw [stepPrim_at_errAsm hp]; simp [errPrim, hd]
  cases v with
  | list xs => exact ⟨s, .other, by simp only [putNode, hbl]; rfl⟩
  | map es => exact ⟨s, .other, by simp only [putNode, hbm]; rfl⟩
  | null => exact ⟨s, .other, by simp only [putNode]; exact hsc _ rfl⟩
  | bool _ => exact ⟨s, .other, by simp only [putNode]; exact hsc _ rfl⟩
  | int _ => exact ⟨s, .other, by simp only [putNode]; exact hsc _ rfl⟩
  | float _ => exact ⟨s, .other, by simp only [putNode]; exact hsc _ rfl⟩
  | str _ => exact ⟨s, .other, by simp only [putNode]; exact hsc _ rfl⟩
  | bytes _ => exact ⟨s, .other, by simp only [putNode]; exact hsc _ rfl⟩
  | link _ => exact ⟨s, .other, by simp only [putNode]; exact hsc _ rfl⟩

theorem ofDM_ne_absent (d : DM) : TL.ofDM d ≠ .absent := by
  cases d <;> simp [TL.ofDM]

theorem fieldValOK_ofDM (f : Field) (d : DM) :
    Schema.fieldValOK f (TL.ofDM d) = conforms f.ty f.nullable (TL.ofDM d) := by
  cases d <;> simp [Schema.fieldValOK, TL.ofDM]

/-- the scalar case: accepted iff the value conforms (an int within int64), and it is delivered as it is -/
theorem putNode_scalar {e : Engine} {s : St} {t : Ty} {nul : Bool} (hp : pos s = .value t nul)
    (hpl : plain t = true) {d : DM} (hs : Asm.isScalar d = true) :
    ((conforms t nul (TL.ofDM d) && int64s d) = true →
        stepPrim e s (.assign d) = deliver s (normalize t (TL.ofDM d))) ∧
    ((conforms t nul (TL.ofDM d) && int64s d) = false → ∃ s' c, stepPrim e s (.assign d) = (s', .err c)) := by
  rw [stepPrim_at_value hp]
  have hiff := scalarOut_ok_iff hpl nul hs
  have hint : (∀ i, d = .int i → inInt64 i = true) ↔ int64s d = true := by
    cases d <;> first | (cases hs; done) | simp [int64s]
  have hnorm : normalize t (TL.ofDM d) = TL.ofDM d := by
    cases d <;> first | (cases hs; done) | simp [TL.ofDM, normalize]
  constructor
  · intro h
    simp only [Bool.and_eq_true] at h
    have hok : scalarOut t nul d = .ok := hiff.2 ⟨h.1, hint.2 h.2⟩
    simp only [valuePrim, hok, hnorm]
  · intro h
    have hne : scalarOut t nul d ≠ .ok := by
      intro hok
      have := hiff.1 hok
      rw [this.1, hint.1 this.2] at h
      cases h
    have hnp := scalarOut_ne_panic (ty := t) (nul := nul) hs
    simp only [valuePrim]
    cases ho : scalarOut t nul d with
    | ok => exact absurd ho hne
    | err c => exact ⟨s, c, rfl⟩
    | panic => exact absurd ho hnp

/-- the accepted keys of a frame, as the `seen` list of `conformsMap` / `conformsStruct` -/
def SeenIs (seen : List Bytes) (es : List (Bytes × TL)) : Prop := ∀ k, seen.contains k = hasKey es k

theorem SeenIs.nil : SeenIs [] [] := by intro k; simp [hasKey]

theorem SeenIs.snoc {seen : List Bytes} {es : List (Bytes × TL)} (h : SeenIs seen es) (k : Bytes) (v : TL) :
    SeenIs (k :: seen) (es ++ [(k, v)]) := by
  intro k'
  have := h k'
  simp only [hasKey] at this ⊢
  simp only [List.contains_cons, List.any_append, List.any_cons, List.any_nil, Bool.or_false, this]
  rw [Bool.or_comm]
  congr 1
  exact Bool.eq_iff_iff.2 ⟨fun h => by simpa using (by simpa using h : k' = k).symm, fun h => by simpa using (by simpa using h : k = k').symm⟩

mutual
/-- `putNode` into a value assembler of a plain type: accepted iff the node conforms, and then the canonical value is
    delivered. -/
theorem putNode_spec {e : Engine} (he : e.keyAsmDupMapKey = false) : (v : DM) → (s : St) → (t : Ty) → (nul : Bool) →
    pos s = .value t nul → plain t = true →
    ((conforms t nul (TL.ofDM v) && int64s v) = true → putNode e s v = deliver s (normalize t (TL.ofDM v))) ∧
    ((conforms t nul (TL.ofDM v) && int64s v) = false → ∃ s' c, putNode e s v = (s', .err c))
  | .list ys, s, t, nul, hp, hpl => by
    obtain ⟨T, fr, r, tt⟩ := s
    cases t with
    | list ety enul =>
      have hb : stepPrim e ⟨T, fr, r, tt⟩ (.beginList 0) = (⟨T, .list ety enul [] false :: fr, r, tt⟩, .ok) := by
        rw [stepPrim_at_value hp]; rfl
      obtain ⟨h1, h2⟩ := putList_spec he ys T ety enul [] fr r tt (by simpa [plain] using hpl)
      simp only [putNode, andThen_of_ok hb, TL.ofDM, int64s]
      constructor
      · intro h
        have hc : (conformsList ety enul (TLs.ofDMs ys) && int64sL ys) = true := by
          simpa [conforms] using h
        rw [andThen_of_ok (h1 hc)]
        simp [stepPrim, normalize, Schema.TLs.ofList_toList]
      · intro h
        have hc : (conformsList ety enul (TLs.ofDMs ys) && int64sL ys) = false := by
          simpa [conforms] using h
        exact andThen_of_err (h2 hc) _
    | _ =>
      all_goals
        refine ⟨fun h => ?_, fun _ => ?_⟩
        · simp_all [conforms, TL.ofDM, plain]
        · exact ⟨_, .wrongKind, by simp only [putNode]; rw [stepPrim_at_value hp]; rfl⟩
  | .map kvs, s, t, nul, hp, hpl => by
    obtain ⟨T, fr, r, tt⟩ := s
    cases t with
    | map vty vnul =>
      have hb : stepPrim e ⟨T, fr, r, tt⟩ (.beginMap 0) = (⟨T, .map vty vnul [] .init :: fr, r, tt⟩, .ok) := by
        rw [stepPrim_at_value hp]; rfl
      obtain ⟨h1, h2⟩ := putKVs_map_spec he kvs T vty vnul [] [] fr r tt (by simpa [plain] using hpl) SeenIs.nil
      simp only [putNode, andThen_of_ok hb, TL.ofDM, int64s]
      constructor
      · intro h
        have hc : (conformsMap vty vnul [] (TLKVs.ofDMKVs kvs) && int64sM kvs) = true := by
          simpa [conforms] using h
        rw [andThen_of_ok (h1 hc)]
        simp [stepPrim, normalize, Schema.TLKVs.ofList_toList]
      · intro h
        have hc : (conformsMap vty vnul [] (TLKVs.ofDMKVs kvs) && int64sM kvs) = false := by
          simpa [conforms] using h
        exact andThen_of_err (h2 hc) _
    | struct F rp =>
      have hb : stepPrim e ⟨T, fr, r, tt⟩ (.beginMap 0) = (⟨T, .struct F.toList [] .init :: fr, r, tt⟩, .ok) := by
        rw [stepPrim_at_value hp]; rfl
      have hpf : ∀ f ∈ F.toList, plain f.ty = true := plainFields_mem F (by simpa [plain] using hpl)
      obtain ⟨h1, h2⟩ := putKVs_struct_spec he kvs T F.toList [] [] fr r tt hpf SeenIs.nil
      simp only [putNode, andThen_of_ok hb, TL.ofDM, int64s]
      constructor
      · intro h
        have hc : (conformsStruct F.toList [] (TLKVs.ofDMKVs kvs) && int64sM kvs) = true := by
          simpa [conforms] using h
        rw [h1 hc]
        simp [normalize]
      · intro h
        have hc : (conformsStruct F.toList [] (TLKVs.ofDMKVs kvs) && int64sM kvs) = false := by
          simpa [conforms] using h
        exact h2 hc
    | _ =>
      all_goals
        refine ⟨fun h => ?_, fun _ => ?_⟩
        · simp_all [conforms, TL.ofDM, plain]
        · exact ⟨_, .wrongKind, by simp only [putNode]; rw [stepPrim_at_value hp]; rfl⟩
  | .null, s, t, nul, hp, hpl => by simp only [putNode]; exact putNode_scalar hp hpl rfl
  | .bool _, s, t, nul, hp, hpl => by simp only [putNode]; exact putNode_scalar hp hpl rfl
  | .int _, s, t, nul, hp, hpl => by simp only [putNode]; exact putNode_scalar hp hpl rfl
  | .float _, s, t, nul, hp, hpl => by simp only [putNode]; exact putNode_scalar hp hpl rfl
  | .str _, s, t, nul, hp, hpl => by simp only [putNode]; exact putNode_scalar hp hpl rfl
  | .bytes _, s, t, nul, hp, hpl => by simp only [putNode]; exact putNode_scalar hp hpl rfl
  | .link _, s, t, nul, hp, hpl => by simp only [putNode]; exact putNode_scalar hp hpl rfl
/-- the elements of a list node into an open list frame -/
theorem putList_spec {e : Engine} (he : e.keyAsmDupMapKey = false) : (ys : DMs) → (T : Ty) → (ety : Ty) →
    (enul : Bool) → (xs : List TL) → (rest : List Frame) → (r : Option TL) → (tt : Bool) → plain ety = true →
    ((conformsList ety enul (TLs.ofDMs ys) && int64sL ys) = true →
        putList e ⟨T, .list ety enul xs false :: rest, r, tt⟩ ys =
          (⟨T, .list ety enul (xs ++ (normalizeList ety (TLs.ofDMs ys)).toList) false :: rest, r, tt⟩, .ok)) ∧
    ((conformsList ety enul (TLs.ofDMs ys) && int64sL ys) = false →
        ∃ s' c, putList e ⟨T, .list ety enul xs false :: rest, r, tt⟩ ys = (s', .err c))
  | .nil, T, ety, enul, xs, rest, r, tt, _ => by
    simp [putList, TLs.ofDMs, conformsList, int64sL, normalizeList, TLs.toList]
  | .cons y ys, T, ety, enul, xs, rest, r, tt, hpl => by
    have hav : stepPrim e ⟨T, .list ety enul xs false :: rest, r, tt⟩ .assembleValue =
        (⟨T, .list ety enul xs true :: rest, r, tt⟩, .ok) := rfl
    obtain ⟨n1, n2⟩ := putNode_spec he y ⟨T, .list ety enul xs true :: rest, r, tt⟩ ety enul
      (by simp [pos, posOf]) hpl
    simp only [putList, andThen_of_ok hav, TLs.ofDMs, conformsList, int64sL, normalizeList, TLs.toList]
    cases hy : (conforms ety enul (TL.ofDM y) && int64s y) with
    | true =>
      obtain ⟨l1, l2⟩ := putList_spec he ys T ety enul (xs ++ [normalize ety (TL.ofDM y)]) rest r tt hpl
      have hd : putNode e ⟨T, .list ety enul xs true :: rest, r, tt⟩ y =
          (⟨T, .list ety enul (xs ++ [normalize ety (TL.ofDM y)]) false :: rest, r, tt⟩, .ok) := by
        rw [n1 hy]; rfl
      rw [andThen_of_ok hd]
      simp only [Bool.and_eq_true] at hy
      constructor
      · intro h
        have hc : (conformsList ety enul (TLs.ofDMs ys) && int64sL ys) = true := by
          simp only [Bool.and_eq_true] at h ⊢; exact ⟨h.1.2, h.2.2⟩
        rw [l1 hc]; simp
      · intro h
        have hc : (conformsList ety enul (TLs.ofDMs ys) && int64sL ys) = false := by
          simp only [hy.1, hy.2, Bool.true_and] at h; exact h
        exact l2 hc
    | false =>
      constructor
      · intro h
        exfalso
        simp only [Bool.and_eq_true] at h
        rw [h.1.1, h.2.1] at hy; cases hy
      · intro _
        exact andThen_of_err (n2 hy) _
/-- the entries of a map node into an open typed-map frame that expects a key -/
theorem putKVs_map_spec {e : Engine} (he : e.keyAsmDupMapKey = false) : (kvs : DMKVs) → (T : Ty) → (vty : Ty) →
    (vnul : Bool) → (es : List (Bytes × TL)) → (seen : List Bytes) → (rest : List Frame) → (r : Option TL) →
    (tt : Bool) → plain vty = true → SeenIs seen es →
    ((conformsMap vty vnul seen (TLKVs.ofDMKVs kvs) && int64sM kvs) = true →
        putKVs e ⟨T, .map vty vnul es .init :: rest, r, tt⟩ kvs =
          (⟨T, .map vty vnul (es ++ (normalizeMap vty (TLKVs.ofDMKVs kvs)).toList) .init :: rest, r, tt⟩, .ok)) ∧
    ((conformsMap vty vnul seen (TLKVs.ofDMKVs kvs) && int64sM kvs) = false →
        ∃ s' c, putKVs e ⟨T, .map vty vnul es .init :: rest, r, tt⟩ kvs = (s', .err c))
  | .nil, T, vty, vnul, es, seen, rest, r, tt, _, _ => by
    simp [putKVs, TLKVs.ofDMKVs, conformsMap, int64sM, normalizeMap, TLKVs.toList]
  | .cons k v kvs, T, vty, vnul, es, seen, rest, r, tt, hpl, hseen => by
    have hak : stepPrim e ⟨T, .map vty vnul es .init :: rest, r, tt⟩ .assembleKey =
        (⟨T, .map vty vnul es .midKey :: rest, r, tt⟩, .ok) := rfl
    simp only [putKVs, andThen_of_ok hak, TLKVs.ofDMKVs, conformsMap, int64sM, normalizeMap, TLKVs.toList]
    cases hk : hasKey es k with
    | true =>
      have hkey : stepPrim e ⟨T, .map vty vnul es .midKey :: rest, r, tt⟩ (.assign (.str k)) =
          (⟨T, .map vty vnul es .init :: rest, r, tt⟩, .err .repeatedKey) := by
        simp [stepPrim, keyPrim, supplyKey, hk, he]
      constructor
      · intro h
        exfalso
        simp only [hseen k, hk, Bool.not_true, Bool.false_and] at h
        cases h
      · intro _
        exact andThen_of_err ⟨_, _, hkey⟩ _
    | false =>
      have hkey : stepPrim e ⟨T, .map vty vnul es .midKey :: rest, r, tt⟩ (.assign (.str k)) =
          (⟨T, .map vty vnul es (.expectValue k) :: rest, r, tt⟩, .ok) := by
        simp [stepPrim, keyPrim, supplyKey, hk]
      have hav : stepPrim e ⟨T, .map vty vnul es (.expectValue k) :: rest, r, tt⟩ .assembleValue =
          (⟨T, .map vty vnul es (.midValue k) :: rest, r, tt⟩, .ok) := rfl
      obtain ⟨n1, n2⟩ := putNode_spec he v ⟨T, .map vty vnul es (.midValue k) :: rest, r, tt⟩ vty vnul
        (by simp [pos, posOf]) hpl
      rw [andThen_of_ok hkey, andThen_of_ok hav]
      simp only [hseen k, hk, Bool.not_false, Bool.true_and]
      cases hv : (conforms vty vnul (TL.ofDM v) && int64s v) with
      | true =>
        obtain ⟨l1, l2⟩ := putKVs_map_spec he kvs T vty vnul (es ++ [(k, normalize vty (TL.ofDM v))]) (k :: seen)
          rest r tt hpl (hseen.snoc k _)
        have hd : putNode e ⟨T, .map vty vnul es (.midValue k) :: rest, r, tt⟩ v =
            (⟨T, .map vty vnul (es ++ [(k, normalize vty (TL.ofDM v))]) .init :: rest, r, tt⟩, .ok) := by
          rw [n1 hv]; rfl
        rw [andThen_of_ok hd]
        simp only [Bool.and_eq_true] at hv
        constructor
        · intro h
          have hc : (conformsMap vty vnul (k :: seen) (TLKVs.ofDMKVs kvs) && int64sM kvs) = true := by
            simp only [Bool.and_eq_true] at h ⊢; exact ⟨h.1.2, h.2.2⟩
          rw [l1 hc]; simp
        · intro h
          have hc : (conformsMap vty vnul (k :: seen) (TLKVs.ofDMKVs kvs) && int64sM kvs) = false := by
            simp only [hv.1, hv.2, Bool.true_and] at h; exact h
          exact l2 hc
      | false =>
        constructor
        · intro h
          exfalso
          simp only [Bool.and_eq_true] at h
          rw [h.1.1, h.2.1] at hv; cases hv
        · intro _
          exact andThen_of_err (n2 hv) _
/-- the entries of a map node into an open struct frame that expects a key, and then `Finish` -/
theorem putKVs_struct_spec {e : Engine} (he : e.keyAsmDupMapKey = false) : (kvs : DMKVs) → (T : Ty) →
    (fs : List Field) → (es : List (Bytes × TL)) → (seen : List Bytes) → (rest : List Frame) → (r : Option TL) →
    (tt : Bool) → (∀ f ∈ fs, plain f.ty = true) → SeenIs seen es →
    ((conformsStruct fs seen (TLKVs.ofDMKVs kvs) && int64sM kvs) = true →
        andThen (putKVs e ⟨T, .struct fs es .init :: rest, r, tt⟩ kvs) (fun s2 => stepPrim e s2 .finish) =
          deliver ⟨T, rest, r, tt⟩
            (.map (TLKVs.ofList (canonFields fs (es ++ (normalizeStruct fs (TLKVs.ofDMKVs kvs)).toList))))) ∧
    ((conformsStruct fs seen (TLKVs.ofDMKVs kvs) && int64sM kvs) = false →
        ∃ s' c, andThen (putKVs e ⟨T, .struct fs es .init :: rest, r, tt⟩ kvs) (fun s2 => stepPrim e s2 .finish)
          = (s', .err c))
  | .nil, T, fs, es, seen, rest, r, tt, _, hseen => by
    have hall : fs.all (fun f => f.opt || seen.contains f.name) = fs.all (fun f => f.opt || hasKey es f.name) := by
      congr 1; funext f; rw [hseen]
    simp only [putKVs, andThen_ok, TLKVs.ofDMKVs, conformsStruct, int64sM, normalizeStruct, TLKVs.toList,
      List.append_nil, Bool.and_true, hall]
    constructor
    · intro h; simp [stepPrim, h]
    · intro h; exact ⟨⟨T, .struct fs es .init :: rest, r, tt⟩, .other, by simp [stepPrim, h]⟩
  | .cons k v kvs, T, fs, es, seen, rest, r, tt, hpl, hseen => by
    have hak : stepPrim e ⟨T, .struct fs es .init :: rest, r, tt⟩ .assembleKey =
        (⟨T, .struct fs es .midKey :: rest, r, tt⟩, .ok) := rfl
    simp only [putKVs, andThen_of_ok hak, andThen_assoc, TLKVs.ofDMKVs, Schema.conformsStruct_cons, int64sM,
      normalizeStruct, TLKVs.toList]
    cases hf : fs.find? (fun f => f.name == k) with
    | none =>
      have hfo : fieldOf fs k = none := hf
      refine ⟨fun h => by simp at h, fun _ => ?_⟩
      cases hu : e.unknownAtKey with
      | true =>
        have hkey : stepPrim e ⟨T, .struct fs es .midKey :: rest, r, tt⟩ (.assign (.str k)) =
            (⟨T, .struct fs es .init :: rest, r, tt⟩, .err .other) := by
          simp [stepPrim, keyPrim, supplyKey, hfo, hu]
        exact andThen_of_err ⟨_, _, hkey⟩ _
      | false =>
        have hkey : stepPrim e ⟨T, .struct fs es .midKey :: rest, r, tt⟩ (.assign (.str k)) =
            (⟨T, .struct fs es (.expectValue k) :: rest, r, tt⟩, .ok) := by
          simp [stepPrim, keyPrim, supplyKey, hfo, hu]
        have hav : stepPrim e ⟨T, .struct fs es (.expectValue k) :: rest, r, tt⟩ .assembleValue =
            (⟨T, .struct fs es (.midValue k) :: rest, r, tt⟩, .ok) := rfl
        rw [andThen_of_ok hkey, andThen_of_ok hav]
        exact andThen_of_err
          (putNode_errAsm (s := ⟨T, .struct fs es (.midValue k) :: rest, r, tt⟩) (by simp [pos, posOf, hfo]) v) _
    | some f =>
      have hfo : fieldOf fs k = some f := hf
      simp only [fieldValOK_ofDM]
      cases hk : hasKey es k with
      | true =>
        have hkey : stepPrim e ⟨T, .struct fs es .midKey :: rest, r, tt⟩ (.assign (.str k)) =
            (⟨T, .struct fs es .init :: rest, r, tt⟩, .err .repeatedKey) := by
          simp [stepPrim, keyPrim, supplyKey, hfo, hk]
        constructor
        · intro h
          exfalso
          simp only [hseen k, hk, Bool.not_true, Bool.false_and] at h
          cases h
        · intro _
          exact andThen_of_err ⟨_, _, hkey⟩ _
      | false =>
        have hkey : stepPrim e ⟨T, .struct fs es .midKey :: rest, r, tt⟩ (.assign (.str k)) =
            (⟨T, .struct fs es (.expectValue k) :: rest, r, tt⟩, .ok) := by
          simp [stepPrim, keyPrim, supplyKey, hfo, hk]
        have hav : stepPrim e ⟨T, .struct fs es (.expectValue k) :: rest, r, tt⟩ .assembleValue =
            (⟨T, .struct fs es (.midValue k) :: rest, r, tt⟩, .ok) := rfl
        obtain ⟨n1, n2⟩ := putNode_spec he v ⟨T, .struct fs es (.midValue k) :: rest, r, tt⟩ f.ty f.nullable
          (by simp [pos, posOf, hfo]) (hpl f (List.mem_of_find?_eq_some hf))
        rw [andThen_of_ok hkey, andThen_of_ok hav]
        simp only [hseen k, hk, Bool.not_false, Bool.true_and]
        cases hv : (conforms f.ty f.nullable (TL.ofDM v) && int64s v) with
        | true =>
          obtain ⟨l1, l2⟩ := putKVs_struct_spec he kvs T fs (es ++ [(k, normalize f.ty (TL.ofDM v))]) (k :: seen)
            rest r tt hpl (hseen.snoc k _)
          have hd : putNode e ⟨T, .struct fs es (.midValue k) :: rest, r, tt⟩ v =
              (⟨T, .struct fs (es ++ [(k, normalize f.ty (TL.ofDM v))]) .init :: rest, r, tt⟩, .ok) := by
            rw [n1 hv]; simp [deliver, hfo]
          rw [andThen_of_ok hd]
          simp only [Bool.and_eq_true] at hv
          constructor
          · intro h
            have hc : (conformsStruct fs (k :: seen) (TLKVs.ofDMKVs kvs) && int64sM kvs) = true := by
              simp only [Bool.and_eq_true] at h ⊢; exact ⟨h.1.2, h.2.2⟩
            rw [l1 hc]; simp
          · intro h
            have hc : (conformsStruct fs (k :: seen) (TLKVs.ofDMKVs kvs) && int64sM kvs) = false := by
              simp only [hv.1, hv.2, Bool.true_and] at h; exact h
            exact l2 hc
        | false =>
          constructor
          · intro h
            exfalso
            simp only [Bool.and_eq_true] at h
            rw [h.1.1, h.2.1] at hv; cases hv
          · intro _
            exact andThen_of_err (n2 hv) _
end

/-- `AssignNode` at a value assembler of a plain type: see `typed_assignNode_iff_conforms` (Props/C12typed.lean) -/
theorem step_assignNode_spec {e : Engine} (he : e.keyAsmDupMapKey = false) {s : St} {t : Ty}
    {nul : Bool} (ht : s.tainted = false) (hp : pos s = .value t nul) (hpl : plain t = true) (v : DM) :
    ((conforms t nul (TL.ofDM v) && int64s v) = true →
      step e s (.assignNode v) = ((deliver s (normalize t (TL.ofDM v))).1, .ok)) ∧
    ((conforms t nul (TL.ofDM v) && int64s v) = false →
      ∃ c, step e s (.assignNode v) = (s, .err c) ∨
        (e.anPartial = true ∧ step e s (.assignNode v) = ({ s with tainted := true }, .err c))) := by
  obtain ⟨h1, h2⟩ := putNode_spec he v s t nul hp hpl
  have hdo := deliver_ok_of_pos hp (normalize t (TL.ofDM v))
  rw [step_of_not_tainted ht]
  by_cases hr : isRec v = true
  · simp only [stepU, hr, if_true]
    constructor
    · intro hc
      rw [h1 hc]
      rcases hd : deliver s (normalize t (TL.ofDM v)) with ⟨s', o⟩
      rw [hd] at hdo
      simp only at hdo; subst hdo
      rfl
    · intro hc
      obtain ⟨s', c, hpn⟩ := h2 hc
      rw [hpn]
      refine ⟨c, ?_⟩
      simp only
      split
      · rename_i hb
        simp only [Bool.and_eq_true] at hb
        exact Or.inr ⟨hb.1, rfl⟩
      · exact Or.inl rfl
  · have hr' : isRec v = false := by simpa using hr
    have hpn : putNode e s v = stepPrim e s (.assign v) := by
      cases v <;> first | (cases hr'; done) | rfl
    simp only [stepU, hr', Bool.false_eq_true, if_false]
    rw [← hpn]
    constructor
    · intro hc
      rw [h1 hc]
      rcases hd : deliver s (normalize t (TL.ofDM v)) with ⟨s', o⟩
      rw [hd] at hdo
      simp only at hdo; subst hdo
      rfl
    · intro hc
      obtain ⟨s', c, hpn'⟩ := h2 hc
      refine ⟨c, Or.inl ?_⟩
      rw [hpn'] 
      rw [hpn, stepPrim_at_value hp] at hpn'
      rw [valuePrim_err hpn']

end TAsm
end Ipld
