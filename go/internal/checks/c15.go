package checks

import (
	"fmt"
	"strings"

	"github.com/ipld/go-ipld-prime/datamodel"
	"github.com/ipld/go-ipld-prime/linking"
	"github.com/ipld/go-ipld-prime/node/basicnode"
	"github.com/ipld/go-ipld-prime/traversal"

	"verif/internal/core"
)

// C15 — traversal controls only restrict a walk; they never change what it would visit.
//
//   (O) oracle (metamorphic, on the implementation): node budget N ⇒ exactly the first N visits of the unrestricted
//       walk and a budget-exceeded error iff N < |visits|; link budget M likewise for block loads; start-at path taken
//       from the unrestricted sequence ⇒ exactly its tail from that path, loads a sub-sequence of the unrestricted loads;
//       visit-links-once ⇒ each distinct link loaded at most once, visits a subsequence; skipped links ⇒ exactly the
//       visits not under a skipped block.
//   (D) correspondence: every restricted walk == the Lean model's walk under the same control.

func init() {
	core.Register(&core.Check{ID: "C15", Run: runC15, Replay: replayC07})
}

func visitKeys(vs []core.Visit) []string {
	out := make([]string, len(vs))
	for i, v := range vs {
		out[i] = core.PathArg(v.Path) + " " + string(v.Reason) + " " + v.Node
	}
	return out
}

func loadsOfEvents(ev []string) []string {
	var out []string
	for _, e := range ev {
		if strings.HasPrefix(e, "L ") {
			out = append(out, e[2:])
		}
	}
	return out
}

func isSubsequence(a, b []string) bool { // a ⊑ b
	j := 0
	for _, x := range b {
		if j < len(a) && a[j] == x {
			j++
		}
	}
	return j == len(a)
}

func eqStrs(a, b []string) bool { return strings.Join(a, "\x00") == strings.Join(b, "\x00") }

func hasPrefixPath(p, prefix []string) bool {
	if len(prefix) > len(p) {
		return false
	}
	for i := range prefix {
		if p[i] != prefix[i] {
			return false
		}
	}
	return true
}

func runC15(c *core.Ctx) error {
	defer func() { core.ForceReify = false }()
	c.Rule = "graphs and selectors as in C07 whose unrestricted walk succeeds; node budgets 0..|visits|+1 (all in thorough, sampled in quick), link budgets 0..|loads|+1, every start path from the unrestricted visit sequence (sampled in quick), visit-once, random skip sets; each control on its own; non-trivial = unrestricted walk of at least 3 visits; distinct by case line"
	c.Explanation = "theorems: budget_prefix (visits under node budget N are the first N unrestricted visits, error iff N < count), link-budget analogue, once/skip/start-at lemmas on the model; the budget check's test-then-decrement shape is re-extracted from walk.go"
	c.Assumptions = []string{"no preloader (its interaction with budgets is documented as approximate)", "visit callbacks return nil"}
	n := c.Pick(250, 20000)
	var cases []walkCase
	flush := func() error {
		err := c07Batch(c, cases, "C15")
		cases = cases[:0]
		return err
	}
	for i := 0; i < n; i++ {
		g, err := core.GenGraph(c.Rand, c.Rand.Intn(6))
		if err != nil {
			return err
		}
		var spec core.Val
		if i%3 == 0 {
			spec = core.SelAll()
		} else {
			spec = core.GenSelector(c.Rand, g, 0, false, false)
			if i%8 == 5 {
				// directed: InterpretAs clauses layered directly inside one another (one position, several reifications),
				// at the root or one step down, around a selector that visits something
				as := func(x core.Val) core.Val {
					return core.Map(core.KV{K: []byte("~"), V: core.Map(core.KV{K: []byte("as"), V: core.Str("someadl")}, core.KV{K: []byte(">"), V: x})})
				}
				inner := spec
				if c.Rand.Chance(1, 2) {
					inner = core.SelAll()
				}
				spec = as(as(inner))
				if c.Rand.Chance(1, 3) {
					spec = as(spec)
				}
				if c.Rand.Chance(1, 3) {
					spec = core.Map(core.KV{K: []byte("|"), V: core.List(core.Map(core.KV{K: []byte("."), V: core.Map()}), core.Map(core.KV{K: []byte("a"), V: core.Map(core.KV{K: []byte(">"), V: spec})}))})
				}
				c.Dist("directed:layered-interpret-as")
			}
			if i%8 == 6 {
				// directed: one list element named twice among the interests at one node - by a non-canonical numeral in a
				// fields clause and by its index - in both orders, the element being a link where the graph has one; every start
				// path of the unrestricted visit sequence is tried below
				mm := func(k string, v core.Val) core.Val { return core.Map(core.KV{K: []byte(k), V: v}) }
				match := mm(".", core.Map())
				all := mm("a", mm(">", match))
				var elems []core.Val
				for k := 0; k < 3; k++ {
					if len(g.Order) > 0 && c.Rand.Chance(2, 3) {
						elems = append(elems, core.Link([]byte(g.Order[c.Rand.Intn(len(g.Order))])))
					} else {
						elems = append(elems, core.Map(core.KV{K: []byte("k"), V: core.Int(int64(k))}))
					}
				}
				g.Root = core.List(elems...)
				idx := c.Rand.Intn(3)
				odd := []string{"0%d", "+%d", "00%d"}[c.Rand.Intn(3)]
				fields := mm("f", mm("f>", core.Map(core.KV{K: []byte(fmt.Sprintf(odd, idx)), V: all})))
				index := mm("i", core.Map(core.KV{K: []byte("i"), V: core.Int(int64(idx))}, core.KV{K: []byte(">"), V: match}))
				if c.Rand.Bool() {
					spec = mm("|", core.List(fields, index))
				} else {
					spec = mm("|", core.List(index, fields))
				}
				c.Dist("directed:one-element-under-two-spellings")
			}
			distSelector(c, spec)
		}
		// specs with ExploreInterpretAs clauses are walked with an identity reifier registered (without one the walk is an
		// error and there is nothing to restrict): the budget, start-at and skip oracles below then apply to them as to any
		// other walk; the model has no reifiers, so these cases are not sent to it
		reify := strings.Contains(spec.Term(), " s7e ")
		core.ForceReify = reify
		if reify {
			c.Dist("interpret-as-with-identity-reifier")
		}
		U := core.RunWalk(g, spec, core.WalkCfg{}, false)
		if U.Compile != "" || U.Outcome != "ok" || len(U.Visits) == 0 {
			continue
		}
		uv, ul := visitKeys(U.Visits), loadsOfEvents(U.Events)
		line0 := walkLine(g, spec, core.WalkCfg{})
		fail := func(sig string, w core.WalkCfg, got core.WalkObs, want string) {
			c.Fail(sig, core.Replay{Kind: "oracle", Case: walkLine(g, spec, w), Impl: truncateStr(got.String(), 600), Expected: truncateStr(want, 600), Detail: "unrestricted: " + truncateStr(U.String(), 600)})
		}
		_ = line0
		// node budgets
		for N := 0; N <= len(uv)+1; N++ {
			if !c.Thorough() && len(uv) > 6 && !c.Rand.Chance(1, 3) && N != len(uv) && N != len(uv)-1 {
				continue
			}
			nb := int64(N)
			w := core.WalkCfg{NodeBudget: &nb}
			R := core.RunWalk(g, spec, w, false)
			wantN := min(N, len(uv))
			wantOutcome := "ok"
			if N < len(uv) {
				wantOutcome = "budget:node"
			}
			if !eqStrs(visitKeys(R.Visits), uv[:wantN]) || R.Outcome != wantOutcome {
				fail("C15/node-budget-not-prefix", w, R, strings.Join(uv[:wantN], " | ")+" => "+wantOutcome)
			}
			if !reify {
				cases = append(cases, walkCase{g, spec, w})
			}
		}
		// link budgets
		for M := 0; M <= len(ul)+1; M++ {
			if !c.Thorough() && len(ul) > 4 && !c.Rand.Chance(1, 2) {
				continue
			}
			lb := int64(M)
			w := core.WalkCfg{LinkBudget: &lb}
			R := core.RunWalk(g, spec, w, false)
			wantOutcome := "ok"
			if M < len(ul) {
				wantOutcome = "budget:link"
			}
			rl := loadsOfEvents(R.Events)
			if !eqStrs(rl, ul[:min(M, len(ul))]) || R.Outcome != wantOutcome || !isPrefix(visitKeys(R.Visits), uv) {
				fail("C15/link-budget-not-prefix", w, R, "loads "+strings.Join(ul[:min(M, len(ul))], ",")+" => "+wantOutcome)
			}
			if !reify {
				cases = append(cases, walkCase{g, spec, w})
			}
		}
		// start-at paths from the unrestricted sequence
		firstAt := map[string]int{}
		for idx, v := range U.Visits {
			k := core.PathArg(v.Path)
			if _, ok := firstAt[k]; !ok {
				firstAt[k] = idx
			}
		}
		for idx, v := range U.Visits {
			if len(v.Path) == 0 || firstAt[core.PathArg(v.Path)] != idx {
				continue
			}
			if !c.Thorough() && len(uv) > 5 && !c.Rand.Chance(1, 3) {
				continue
			}
			w := core.WalkCfg{Start: v.Path}
			R := core.RunWalk(g, spec, w, false)
			if !eqStrs(visitKeys(R.Visits), uv[idx:]) || R.Outcome != "ok" {
				fail("C15/start-at-not-tail", w, R, strings.Join(uv[idx:], " | ")+" => ok")
			}
			if !isSubsequence(loadsOfEvents(R.Events), ul) {
				fail("C15/start-at-extra-loads", w, R, "loads must be a sub-sequence of "+strings.Join(ul, ","))
			}
			if !reify {
				cases = append(cases, walkCase{g, spec, w})
			}
		}
		// visit links once
		{
			w := core.WalkCfg{Once: true}
			R := core.RunWalk(g, spec, w, false)
			seen := map[string]bool{}
			dup := false
			for _, l := range loadsOfEvents(R.Events) {
				if seen[l] {
					dup = true
				}
				seen[l] = true
			}
			if dup || !isSubsequence(visitKeys(R.Visits), uv) || R.Outcome != "ok" {
				fail("C15/once-loads-twice-or-not-subsequence", w, R, "each link once; visits a subsequence of the unrestricted walk")
			}
			if !reify {
				cases = append(cases, walkCase{g, spec, w})
			}
			if len(ul) > 0 && !reify {
				c15Nested(c, g, spec, R, fail)
			}
		}
		// skip sets
		if len(ul) > 0 {
			skip := map[string]bool{}
			for _, l := range ul {
				if c.Rand.Chance(1, 3) {
					b, _ := hexDecode(l)
					skip[string(b)] = true
				}
			}
			if len(skip) > 0 {
				w := core.WalkCfg{Skip: skip}
				R := core.RunWalk(g, spec, w, false)
				// positions of skipped loads in U: the visit following an "L cid" event is the block root at the link's path
				var skippedAt [][]string
				for ei, e := range U.Events {
					if strings.HasPrefix(e, "L ") {
						b, _ := hexDecode(e[2:])
						if skip[string(b)] {
							for _, e2 := range U.Events[ei+1:] {
								if strings.HasPrefix(e2, "V ") {
									skippedAt = append(skippedAt, pathOfEvent(e2))
									break
								}
							}
						}
					}
				}
				var want []string
				for vi, v := range U.Visits {
					under := false
					for _, sp := range skippedAt {
						if hasPrefixPath(v.Path, sp) {
							under = true
						}
					}
					if !under {
						want = append(want, uv[vi])
					}
				}
				if !eqStrs(visitKeys(R.Visits), want) || R.Outcome != "ok" {
					// paths visited more than once (duplicate interests) make "under a skipped position" ambiguous: only flag clean cases
					if len(firstAt) == len(U.Visits) {
						fail("C15/skip-removes-other-than-subtree", w, R, strings.Join(want, " | ")+" => ok")
					}
				}
				if !reify {
					cases = append(cases, walkCase{g, spec, w})
				}
			}
		}
		if len(cases) >= 1500 {
			if err := flush(); err != nil {
				return err
			}
		}
	}
	return flush()
}

func isPrefix(a, b []string) bool {
	if len(a) > len(b) {
		return false
	}
	return eqStrs(a, b[:len(a)])
}

func hexDecode(s string) ([]byte, error) {
	var out []byte
	for i := 0; i+1 < len(s); i += 2 {
		var b byte
		if _, err := fmt.Sscanf(s[i:i+2], "%02x", &b); err != nil {
			return nil, err
		}
		out = append(out, b)
	}
	return out, nil
}

func pathOfEvent(e string) []string {
	f := strings.Fields(e)
	if len(f) < 2 || !strings.HasPrefix(f[1], "p:") {
		return nil
	}
	var out []string
	for _, h := range strings.Split(strings.TrimSuffix(f[1][2:], "."), ".") {
		if f[1] == "p:" {
			break
		}
		b, _ := hexDecode(h)
		out = append(out, string(b))
	}
	return out
}

// interpretAsInUnion: is some ExploreInterpretAs clause a direct member of a union?
func interpretAsInUnion(v core.Val) bool {
	for _, e := range v.M {
		if string(e.K) == "|" {
			for _, m := range e.V.L {
				if len(m.M) == 1 && string(m.M[0].K) == "~" {
					return true
				}
			}
		}
		if interpretAsInUnion(e.V) {
			return true
		}
	}
	for _, x := range v.L {
		if interpretAsInUnion(x) {
			return true
		}
	}
	return false
}

// c15Nested: a walk started from the Progress handed to a visit function (the nesting the WalkMatching documentation
// invites) is a walk of its own: under visit-links-once the outer walk visits what it visits without the nested one,
// and the nested walk visits what the same walk visits when started afresh at that node and path.
func c15Nested(c *core.Ctx, g *core.Graph, spec core.Val, onceAlone core.WalkObs, fail func(string, core.WalkCfg, core.WalkObs, string)) {
	s, st := core.CompileSel(spec)
	all, st2 := core.CompileSel(core.SelAll())
	if st != "" || st2 != "" || len(onceAlone.Visits) == 0 {
		return
	}
	root, err := core.BuildBasic(g.Root, nil)
	if err != nil {
		return
	}
	mk := func(path datamodel.Path) traversal.Progress {
		return traversal.Progress{Path: path, Cfg: &traversal.Config{LinkSystem: g.LinkSystem(nil, nil), LinkVisitOnlyOnce: true,
			LinkTargetNodePrototypeChooser: func(datamodel.Link, linking.LinkContext) (datamodel.NodePrototype, error) {
				return basicnode.Prototype.Any, nil
			}}}
	}
	k := c.Rand.Intn(len(onceAlone.Visits))
	var outer, nested, alone []string
	var at datamodel.Node
	var atPath datamodel.Path
	i := 0
	werr := func() (err error) {
		defer func() {
			if r := recover(); r != nil {
				err = fmt.Errorf("panic: %v", r)
			}
		}()
		return mk(datamodel.Path{}).WalkAdv(root, s, func(p traversal.Progress, n datamodel.Node, r traversal.VisitReason) error {
			outer = append(outer, p.Path.String())
			if i == k {
				at, atPath = n, p.Path
				if err := p.WalkAdv(n, all, func(p2 traversal.Progress, n2 datamodel.Node, r2 traversal.VisitReason) error {
					nested = append(nested, p2.Path.String())
					return nil
				}); err != nil {
					nested = append(nested, "error: "+err.Error())
				}
			}
			i++
			return nil
		})
	}()
	var want []string
	for _, v := range onceAlone.Visits {
		want = append(want, v.Kept.String())
	}
	w := core.WalkCfg{Once: true}
	c.Dist("nested-walk-from-visitor")
	if werr != nil || !eqStrs(outer, want) {
		fail("C15/nested-walk-changes-outer-walk", w, onceAlone, fmt.Sprintf("outer walk with a nested explore-all walk started at visit %d: %v (error %v); without: %v", k, outer, werr, want))
		return
	}
	if at == nil {
		return
	}
	if err := mk(atPath).WalkAdv(at, all, func(p2 traversal.Progress, n2 datamodel.Node, r2 traversal.VisitReason) error {
		alone = append(alone, p2.Path.String())
		return nil
	}); err != nil {
		alone = append(alone, "error: "+err.Error())
	}
	if !eqStrs(nested, alone) {
		fail("C15/nested-walk-differs-from-fresh-walk", w, onceAlone, fmt.Sprintf("explore-all walk from the Progress of visit %d (%q): %v; the same walk started afresh there: %v", k, atPath.String(), nested, alone))
	}
}
