import IpldModel.Model.Term
import IpldModel.Model.PathHeap
namespace Ipld.Driver
open Ipld Ipld.Sel Ipld.PathHeap

def phShow (p : List Seg) : String := "p:" ++ String.join (p.map fun s => hexOfBytes s.toString ++ ".")

def phHex (h : String) : Option Bytes := if h == "-" || h.isEmpty then some [] else bytesOfHex h

/-- `61.62.` → string segments -/
def phSegs (s : String) : Option (List Seg) :=
  ((s.splitOn ".").dropLast).mapM fun h => (phHex h).map Seg.str

inductive PhCmd where
  | op (o : Op)
  | last (i : Nat)
  | shiftSeg (i : Nat)

def phParse (tok : String) : Option PhCmd :=
  match tok.splitOn ":" with
  | ["new", segs] => (phSegs segs).map fun s => .op (.newPath s)
  | ["parse", h] => (phHex h).map fun b => .op (.parsePath b)
  | ["app", i, h] => do let i ← i.toNat?; let b ← phHex h; pure (.op (.append i (.str b)))
  | ["appi", i, n] => do let i ← i.toNat?; let n ← n.toInt?; pure (.op (.append i (Seg.ofInt n)))
  | ["join", i, j] => do let i ← i.toNat?; let j ← j.toNat?; pure (.op (.join i j))
  | ["par", i] => i.toNat?.map fun i => .op (.parent i)
  | ["pop", i] => i.toNat?.map fun i => .op (.pop i)
  | ["trunc", i, n] => do let i ← i.toNat?; let n ← n.toInt?; pure (.op (.truncate i n))
  | ["shift", i] => i.toNat?.map fun i => .op (.shift i)
  | ["last", i] => i.toNat?.map .last
  | ["shiftseg", i] => i.toNat?.map .shiftSeg
  | _ => none

def phReads (st : St) : String := ",".intercalate (st.paths.map fun s => phShow (read st.heap s))

/-- pathheap.run <op…>   ops: new:<hex.hex.>  parse:<hex|->  app:<i>:<hex|->  appi:<i>:<int>  join:<i>:<j>  par:<i>  pop:<i>
      trunc:<i>:<int>  shift:<i>  last:<i>  shiftseg:<i>    (paths are named by creation order, from 0)
    → after every op: the reads of ALL paths made so far (comma-joined `p:hex.hex.`), or `seg:<hex>` for the two
      segment readers; steps joined by " | "; a Go panic prints `panic` and ends the history.
    pathheap.append <op…>: the same with `Join` done by `append` (the deviation; not used by the harness's comparison) -/
def phRun (J : Heap → Slice → Slice → Heap × Slice) (toks : List String) : String :=
  let rec go (st : St) (out : List String) : List String → List String
    | [] => out
    | t :: ts =>
      match phParse t with
      | none => out ++ ["bad-op"]
      | some (.op o) =>
        match stepWith J st o with
        | none => out ++ ["panic"]
        | some st' => go st' (out ++ [phReads st']) ts
      | some (.last i) =>
        match st.paths[i]? with
        | none => out ++ ["panic"]
        | some p => go st (out ++ ["seg:" ++ hexOfBytes (last st.heap p).toString]) ts
      | some (.shiftSeg i) =>
        match st.paths[i]? with
        | none => out ++ ["panic"]
        | some p => go st (out ++ ["seg:" ++ hexOfBytes (shiftSeg st.heap p).toString]) ts
  " | ".intercalate (go St.empty [] toks)

def pathHeapHandler : List String → Option String
  | "pathheap.run" :: toks => some (phRun join toks)
  | "pathheap.append" :: toks => some (phRun joinAppend toks)
  | _ => none

end Ipld.Driver
