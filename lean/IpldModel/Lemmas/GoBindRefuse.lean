/-
  C19 (binding model): when the type-level builder of a binding refuses - the canonical shape of a built value
  (`canon`, `canon_normalize`), `assignC_isSome`, `assignC_fits`, `assign_none_iff`.
-/
import IpldModel.Lemmas.GoBindBasic
import IpldModel.Lemmas.GoBindAssignView
import IpldModel.Lemmas.SchemaTotal
namespace Ipld
namespace GoBind
open Schema

/-! ## The canonical shape of a built typed value -/

mutual
/-- every struct value in `v` lists exactly the fields of its type, in declaration order -/
def canon (t : Ty) : TL → Bool
  | .list xs => match t with
    | .list et _ => canonList et xs
    | _ => true
  | .map es => match t with
    | .map vt _ => canonMap vt es
    | .struct fs _ => canonFieldsB fs.toList es
    | .union ms _ =>
      match es with
      | .cons k v .nil =>
        match ms.toList.find? (fun m => m.name == k) with
        | some m => canon m.ty v
        | none => true
      | _ => true
    | _ => true
  | _ => true
def canonList (et : Ty) : TLs → Bool
  | .nil => true
  | .cons x xs => canon et x && canonList et xs
def canonMap (vt : Ty) : TLKVs → Bool
  | .nil => true
  | .cons _ v es => canon vt v && canonMap vt es
def canonFieldsB : List Field → TLKVs → Bool
  | [], .nil => true
  | f :: fs, .cons k v es => k == f.name && canon f.ty v && canonFieldsB fs es
  | _, _ => false
end

theorem canon_scalar (t : Ty) (v : TL) (h1 : ∀ xs, v ≠ .list xs) (h2 : ∀ es, v ≠ .map es) : canon t v = true := by
  cases v <;> first | rfl | exact absurd rfl (h1 _) | exact absurd rfl (h2 _)

/-- the canonical field list is canonical when every entry's value is -/
theorem canonFieldsB_canonFields (F : List Field) (hnd : (F.map (·.name)).Nodup) (L : List (Bytes × TL))
    (hL : ∀ e ∈ L, ∀ f ∈ F, f.name = e.1 → canon f.ty e.2 = true) :
    (suf : List Field) → (∀ f ∈ suf, f ∈ F) → canonFieldsB suf (TLKVs.ofList (canonFields suf L)) = true
  | [], _ => rfl
  | f :: suf, hsub => by
    have ih := canonFieldsB_canonFields F hnd L hL suf (fun f' hf' => hsub f' (by simp [hf']))
    unfold canonFields at ih ⊢
    simp only [List.map_cons]
    cases hf : L.find? (fun e => e.1 == f.name) with
    | none =>
      simp only [TLKVs.ofList_cons, canonFieldsB, beq_self_eq_true, Bool.true_and, Bool.and_eq_true]
      exact ⟨canon_scalar _ _ (by simp) (by simp), ih⟩
    | some e =>
      obtain ⟨k, v⟩ := e
      have hmem := List.mem_of_find?_eq_some hf
      have hk : k = f.name := by simpa using List.find?_some hf
      simp only [TLKVs.ofList_cons, canonFieldsB, beq_self_eq_true, Bool.true_and, Bool.and_eq_true]
      exact ⟨hL (k, v) hmem f (hsub f (by simp)) hk.symm, ih⟩

mutual
theorem canon_normalize : (v : TL) → (t : Ty) → (nul : Bool) → t.wf = true → conforms t nul v = true →
    canon t (normalize t v) = true
  | .absent, t, _, _, _ => by rw [normalize_scalar _ _ (by simp) (by simp)]; rfl
  | .null, t, _, _, _ => by rw [normalize_scalar _ _ (by simp) (by simp)]; rfl
  | .bool _, t, _, _, _ => by rw [normalize_scalar _ _ (by simp) (by simp)]; rfl
  | .int _, t, _, _, _ => by rw [normalize_scalar _ _ (by simp) (by simp)]; rfl
  | .float _, t, _, _, _ => by rw [normalize_scalar _ _ (by simp) (by simp)]; rfl
  | .str _, t, _, _, _ => by rw [normalize_scalar _ _ (by simp) (by simp)]; rfl
  | .bytes _, t, _, _, _ => by rw [normalize_scalar _ _ (by simp) (by simp)]; rfl
  | .link _, t, _, _, _ => by rw [normalize_scalar _ _ (by simp) (by simp)]; rfl
  | .list xs, t, nul, hwf, hc => by
    cases t with
    | list et enul =>
      unfold conforms at hc
      simp only [normalize, canon]
      exact canonList_normalize xs et enul (by simpa [Ty.wf] using hwf) hc
    | _ => simp [normalize, canon]
  | .map es, t, nul, hwf, hc => by
    cases t with
    | map vt vnul =>
      unfold conforms at hc
      simp only [normalize, canon]
      exact canonMap_normalize es vt vnul (by simpa [Ty.wf] using hwf) [] hc
    | struct fs sr =>
      have hw := wf_struct hwf
      unfold conforms at hc
      simp only [normalize, canon]
      apply canonFieldsB_canonFields fs.toList hw.2.1 _ _ fs.toList (fun _ h => h)
      intro e he f hf hname
      obtain ⟨f', hf', hcan⟩ := canonStruct_normalize es fs.toList (Fields.wf_mem fs hw.1) [] hc e he
      obtain ⟨hf'F, hf'n⟩ := find?_mem_key (·.name) fs.toList e.1 f' hf'
      have := eq_of_name_eq fs.toList hw.2.1 f f' hf hf'F (by rw [hname, hf'n])
      subst this
      exact hcan
    | union ms ur =>
      have hw := wf_union hwf
      unfold conforms at hc
      match es, hc with
      | .cons k v .nil, hc =>
        simp only at hc
        cases hm : ms.toList.find? (fun m => m.name == k) with
        | none => simp [hm] at hc
        | some m =>
          simp only [hm] at hc
          have hmem := List.mem_of_find?_eq_some hm
          simp only [normalize, hm, canon]
          exact canon_normalize v m.ty false (Members.wf_mem ms hw.1 m hmem) hc
      | .nil, hc => simp at hc
      | .cons _ _ (.cons _ _ _), hc => simp at hc
    | _ => simp [normalize, canon]
theorem canonList_normalize : (xs : TLs) → (et : Ty) → (enul : Bool) → et.wf = true →
    conformsList et enul xs = true → canonList et (normalizeList et xs) = true
  | .nil, _, _, _, _ => rfl
  | .cons x xs, et, enul, hwf, hc => by
    simp only [conformsList, Bool.and_eq_true] at hc
    simp only [normalizeList, canonList, Bool.and_eq_true]
    exact ⟨canon_normalize x et enul hwf hc.1, canonList_normalize xs et enul hwf hc.2⟩
theorem canonMap_normalize : (es : TLKVs) → (vt : Ty) → (vnul : Bool) → vt.wf = true → (seen : List Bytes) →
    conformsMap vt vnul seen es = true → canonMap vt (normalizeMap vt es) = true
  | .nil, _, _, _, _, _ => rfl
  | .cons k x xs, vt, vnul, hwf, seen, hc => by
    simp only [conformsMap, Bool.and_eq_true] at hc
    simp only [normalizeMap, canonMap, Bool.and_eq_true]
    exact ⟨canon_normalize x vt vnul hwf hc.1.2, canonMap_normalize xs vt vnul hwf (k :: seen) hc.2⟩
theorem canonStruct_normalize : (es : TLKVs) → (F : List Field) → (∀ f ∈ F, f.ty.wf = true) →
    (seen : List Bytes) → conformsStruct F seen es = true →
    ∀ e ∈ (normalizeStruct F es).toList,
      ∃ f, F.find? (fun f => f.name == e.1) = some f ∧ canon f.ty e.2 = true
  | .nil, _, _, _, _, e, he => by simp [normalizeStruct, TLKVs.toList] at he
  | .cons k v es, F, hwf, seen, h, e, he => by
    rw [conformsStruct_cons] at h
    cases hf : F.find? (fun f => f.name == k) with
    | none => simp [hf] at h
    | some f =>
      simp only [hf, Bool.and_eq_true] at h
      simp only [normalizeStruct, TLKVs.toList, hf, List.mem_cons] at he
      rcases he with rfl | he
      · refine ⟨f, hf, ?_⟩
        simp only []
        have hmem := List.mem_of_find?_eq_some hf
        by_cases hva : v = .absent
        · subst hva
          rw [normalize_scalar _ _ (by simp) (by simp)]; rfl
        · have h1 := h.1.2
          rw [fieldValOK_ne_absent f v hva] at h1
          exact canon_normalize v f.ty f.nullable (hwf f hmem) h1
      · exact canonStruct_normalize es F hwf (k :: seen) h.2 e he
end


/-! ## When the builder accepts -/

mutual
theorem assignC_isSome : (v : TL) → (g : GoTy) → (t : Ty) → (nul : Bool) → t.wf = true →
    compatible g t nul = true → conforms t nul v = true → canon t v = true → intsFit g t nul v = true →
    ∃ gv, assignC g t nul v = some gv
  | .absent, _, _, _, _, _, hcf, _, _ => by simp [conforms] at hcf
  | .null, g, t, nul, _, hc, hcf, _, _ => by
    simp only [conforms] at hcf
    subst hcf
    rcases compatible_nul hc with ⟨g1, rfl⟩ | hb
    · simp [assignC]
    · cases g <;> simp [isBare] at hb <;> simp [assignC, isBare, hb]
  | .bool b, g, t, nul, _, hc, hcf, _, _ => by
    obtain ⟨g0, hu, hc0', hnp⟩ := compatible_unptr_some hc
    have hc0 : (notPtr g0 && compatible g0 t false) = true := by simp [hc0', hnp]
    unfold assignC
    simp only [hu]
    cases t <;> simp [conforms] at hcf <;> cases g0 <;> simp [compatible, notPtr] at hc0 <;> simp
  | .float b, g, t, nul, _, hc, hcf, _, _ => by
    obtain ⟨g0, hu, hc0', hnp⟩ := compatible_unptr_some hc
    have hc0 : (notPtr g0 && compatible g0 t false) = true := by simp [hc0', hnp]
    unfold assignC
    simp only [hu]
    cases t <;> simp [conforms] at hcf <;> cases g0 <;> simp [compatible, notPtr] at hc0 <;> simp
  | .bytes b, g, t, nul, _, hc, hcf, _, _ => by
    obtain ⟨g0, hu, hc0', hnp⟩ := compatible_unptr_some hc
    have hc0 : (notPtr g0 && compatible g0 t false) = true := by simp [hc0', hnp]
    unfold assignC
    simp only [hu]
    cases t <;> simp [conforms] at hcf <;> cases g0 <;> simp [compatible, notPtr] at hc0 <;> simp
  | .link b, g, t, nul, _, hc, hcf, _, _ => by
    obtain ⟨g0, hu, hc0', hnp⟩ := compatible_unptr_some hc
    have hc0 : (notPtr g0 && compatible g0 t false) = true := by simp [hc0', hnp]
    unfold assignC
    simp only [hu]
    cases t <;> simp [conforms] at hcf <;> cases g0 <;> simp [compatible, notPtr] at hc0 <;> simp
  | .int i, g, t, nul, _, hc, hcf, _, hf => by
    obtain ⟨g0, hu, hc0', hnp⟩ := compatible_unptr_some hc
    have hc0 : (notPtr g0 && compatible g0 t false) = true := by simp [hc0', hnp]
    unfold assignC
    unfold intsFit at hf
    simp only [hu] at hf ⊢
    cases t <;> simp [conforms] at hcf <;> cases g0 <;> simp [compatible, notPtr] at hc0 <;> simp at hf ⊢
    exact hf
  | .str s, g, t, nul, _, hc, hcf, _, hf => by
    obtain ⟨g0, hu, hc0', hnp⟩ := compatible_unptr_some hc
    have hc0 : (notPtr g0 && compatible g0 t false) = true := by simp [hc0', hnp]
    unfold assignC
    unfold intsFit at hf
    simp only [hu] at hf ⊢
    cases t with
    | str => cases g0 <;> simp [compatible, notPtr] at hc0 <;> simp
    | any => cases g0 <;> simp [compatible, notPtr] at hc0 <;> simp
    | enum ms r =>
      simp only [conforms] at hcf
      cases g0 <;> simp [compatible, notPtr] at hc0
      · -- a Go integer
        cases r <;> simp at hc0
        rw [any_key_iff_find? (·.name) ms s] at hcf
        cases hm : ms.find? (fun m => m.name == s) with
        | none => simp [hm] at hcf
        | some m =>
          simp only [hm] at hf ⊢
          simp [enumStore_fits _ _ hf]
      · simp only [List.any_eq_true] at hcf
        obtain ⟨m, hm, hn⟩ := hcf
        simp only [List.any_eq_true]
        simp
        exact ⟨m, hm, by simpa using hn⟩
    | _ => simp [conforms] at hcf
  | .list xs, g, t, nul, hwf, hc, hcf, hcan, hf => by
    obtain ⟨g0, hu, hc0', hnp⟩ := compatible_unptr_some hc
    have hc0 : (notPtr g0 && compatible g0 t false) = true := by simp [hc0', hnp]
    unfold assignC
    unfold intsFit at hf
    simp only [hu] at hf ⊢
    cases t with
    | list et enul =>
      cases g0 <;> simp [compatible, notPtr] at hc0
      rename_i ge
      have hcf' : conformsList et enul xs = true := by
        cases nul <;> (unfold conforms at hcf; exact hcf)
      simp only [canon] at hcan
      simp only at hf
      obtain ⟨ys, hys⟩ := assignList_isSome xs ge et enul (by simpa [Ty.wf] using hwf) hc0 hcf' hcan hf
      simp [hys]
    | any =>
      cases g0 <;> simp [compatible, notPtr] at hc0
      have : anyOK (.list xs) = true := by cases nul <;> (unfold conforms at hcf; exact hcf)
      obtain ⟨d, hd⟩ := toDM_of_anyOK _ this
      simp [hd]
    | _ => simp [conforms] at hcf
  | .map es, g, t, nul, hwf, hc, hcf, hcan, hf => by
    obtain ⟨g0, hu, hc0', hnp⟩ := compatible_unptr_some hc
    have hc0 : (notPtr g0 && compatible g0 t false) = true := by simp [hc0', hnp]
    unfold assignC
    unfold intsFit at hf
    simp only [hu] at hf ⊢
    cases t with
    | map vt vnul =>
      cases g0 <;> simp [compatible, notPtr] at hc0
      rename_i gv0
      have hcf' : conformsMap vt vnul [] es = true := by
        cases nul <;> (unfold conforms at hcf; exact hcf)
      simp only [canon] at hcan
      simp only at hf
      obtain ⟨ys, hys⟩ := assignKVs_isSome es gv0 vt vnul (by simpa [Ty.wf] using hwf) hc0 [] hcf' hcan hf
      simp [hys]
    | struct fs sr =>
      cases g0 <;> simp [compatible, notPtr] at hc0
      rename_i gfs
      have hw := wf_struct hwf
      have hcf' : conformsStruct fs.toList [] es = true := by
        cases nul <;> (unfold conforms at hcf; exact hcf)
      simp only [canon] at hcan
      simp only at hf
      obtain ⟨ys, hys⟩ := assignFields_isSome es gfs fs.toList fs.toList (fun _ h => h) hw.2.1
        (Fields.wf_mem fs hw.1) (conformsStruct_vals fs.toList es [] hcf') hc0 hcan hf
      simp [hys]
    | union ms ur =>
      cases g0 <;> simp [compatible, notPtr] at hc0
      rename_i gfs
      have hw := wf_union hwf
      have hcf' : conforms (.union ms ur) false (.map es) = true := by
        cases nul <;> (unfold conforms at hcf ⊢; exact hcf)
      unfold conforms at hcf'
      match es, hcf', hcan, hf with
      | .cons k v .nil, hcf', hcan, hf =>
        simp only at hcf' hf ⊢
        cases hm : ms.toList.find? (fun m => m.name == k) with
        | none => simp [hm] at hcf'
        | some m =>
          simp only [hm] at hcf'
          obtain ⟨i, hfi⟩ := findIdx_of_find? _ _ _ hm
          obtain ⟨hmi, _, _⟩ := findIdx_some _ _ i m hfi
          obtain ⟨g1, hg1, hcg1⟩ := compatMembers_get gfs ms.toList hc0 i m hmi
          simp only [canon, hm] at hcan
          simp only [hfi, hg1] at hf ⊢
          have hmem := List.mem_of_find?_eq_some hm
          obtain ⟨gv, hgv⟩ := assignC_isSome v g1 m.ty false (Members.wf_mem ms hw.1 m hmem) hcg1 hcf' hcan hf
          simp [hgv]
      | .nil, hcf', _, _ => simp at hcf'
      | .cons _ _ (.cons _ _ _), hcf', _, _ => simp at hcf'
    | any =>
      cases g0 <;> simp [compatible, notPtr] at hc0
      have : anyOK (.map es) = true := by cases nul <;> (unfold conforms at hcf; exact hcf)
      obtain ⟨d, hd⟩ := toDM_of_anyOK _ this
      simp [hd]
    | _ => simp [conforms] at hcf
theorem assignList_isSome : (xs : TLs) → (g : GoTy) → (t : Ty) → (nul : Bool) → t.wf = true →
    compatible g t nul = true → conformsList t nul xs = true → canonList t xs = true →
    intsFitList g t nul xs = true → ∃ ys, assignList g t nul xs = some ys
  | .nil, _, _, _, _, _, _, _, _ => ⟨.nil, rfl⟩
  | .cons x xs, g, t, nul, hwf, hc, hcf, hcan, hf => by
    simp only [conformsList, canonList, intsFitList, Bool.and_eq_true] at hcf hcan hf
    obtain ⟨a, ha⟩ := assignC_isSome x g t nul hwf hc hcf.1 hcan.1 hf.1
    obtain ⟨r, hr⟩ := assignList_isSome xs g t nul hwf hc hcf.2 hcan.2 hf.2
    exact ⟨.cons a r, by simp [assignList, ha, hr]⟩
theorem assignKVs_isSome : (es : TLKVs) → (g : GoTy) → (t : Ty) → (nul : Bool) → t.wf = true →
    compatible g t nul = true → (seen : List Bytes) → conformsMap t nul seen es = true → canonMap t es = true →
    intsFitKVs g t nul es = true → ∃ ys, assignKVs g t nul es = some ys
  | .nil, _, _, _, _, _, _, _, _, _ => ⟨.nil, rfl⟩
  | .cons k x xs, g, t, nul, hwf, hc, seen, hcf, hcan, hf => by
    simp only [conformsMap, canonMap, intsFitKVs, Bool.and_eq_true] at hcf hcan hf
    obtain ⟨a, ha⟩ := assignC_isSome x g t nul hwf hc hcf.1.2 hcan.1 hf.1
    obtain ⟨r, hr⟩ := assignKVs_isSome xs g t nul hwf hc (k :: seen) hcf.2 hcan.2 hf.2
    exact ⟨.cons k a r, by simp [assignKVs, ha, hr]⟩
theorem assignFields_isSome : (es : TLKVs) → (gfs : GoFields) → (fs F : List Field) →
    (∀ f ∈ fs, f ∈ F) → (F.map (·.name)).Nodup → (∀ f ∈ F, f.ty.wf = true) →
    (∀ e ∈ es.toList, ∃ f, F.find? (fun f => f.name == e.1) = some f ∧ fieldValOK f e.2 = true) →
    compatFields gfs fs = true → canonFieldsB fs es = true → intsFitFields gfs fs es = true →
    ∃ ys, assignFields gfs fs es = some ys
  | .nil, gfs, fs, F, _, _, _, _, hc, hcan, _ => by
    cases fs <;> simp [canonFieldsB] at hcan
    cases gfs <;> simp [compatFields] at hc
    exact ⟨.nil, rfl⟩
  | .cons k v es, gfs, fs, F, hsub, hnd, hwfF, hvals, hc, hcan, hf => by
    cases fs with
    | nil => simp [canonFieldsB] at hcan
    | cons f fs =>
      cases gfs with
      | nil => simp [compatFields] at hc
      | cons n g gfs =>
        rw [compatFields_cons] at hc
        rw [intsFitFields_cons] at hf
        simp only [canonFieldsB, Bool.and_eq_true, beq_iff_eq] at hcan hc hf
        obtain ⟨⟨hk, hcv⟩, hcr⟩ := hcan
        subst hk
        have hfF : f ∈ F := hsub f (by simp)
        obtain ⟨f', hf', hok⟩ := hvals (f.name, v) (by simp [TLKVs.toList])
        obtain ⟨hf'F, hf'n⟩ := find?_mem_key (·.name) F f.name f' hf'
        have := eq_of_name_eq F hnd f' f hf'F hfF hf'n
        subst this
        obtain ⟨r, hr⟩ := assignFields_isSome es gfs fs F (fun f hf => hsub f (by simp [hf])) hnd hwfF
          (fun e he => hvals e (by simp [TLKVs.toList, he])) hc.2 hcr hf.2
        rw [assignFields_cons]
        simp only [bne_self_eq_false, Bool.false_eq_true, if_false, hr]
        suffices hfield : ∃ a, assignField g f' v = some a by
          obtain ⟨a, ha⟩ := hfield
          exact ⟨.cons a r, by simp [ha]⟩
        have hcF := hc.1.2
        have hfF' := hf.1
        unfold compatField at hcF
        unfold intsFitField at hfF'
        unfold assignField
        simp only at hok
        cases hs : fslot g f'.opt f'.nullable with
        | value =>
          have ho := fslot_value hs
          simp only [hs] at hcF hfF' ⊢
          have hva : v ≠ .absent := by intro h; subst h; simp [fieldValOK, ho] at hok
          have hcf : conforms f'.ty f'.nullable v = true := by
            cases v <;> first | exact absurd rfl hva | exact hok
          exact assignC_isSome v g f'.ty f'.nullable (hwfF f' hfF) hcF hcf hcv hfF'
        | optPtr g1 =>
          simp only [hs, Bool.and_eq_true] at hcF hfF' ⊢
          by_cases hva : v = .absent
          · simp [hva]
          · have hcf : conforms f'.ty f'.nullable v = true := by
              cases v <;> first | exact absurd rfl hva | exact hok
            obtain ⟨a, ha⟩ := assignC_isSome v g1 f'.ty f'.nullable (hwfF f' hfF) hcF.2 hcf hcv hfF'
            simp [hva, ha]
        | optBare =>
          obtain ⟨ho, hn, hb⟩ := fslot_optBare hs
          simp only [hs] at hcF hfF' ⊢
          by_cases hva : v = .absent
          · simp [hva]
          · have hcf : conforms f'.ty false v = true := by
              have : conforms f'.ty f'.nullable v = true := by
                cases v <;> first | exact absurd rfl hva | exact hok
              rwa [hn] at this
            simp only [hva, if_false]
            exact assignC_isSome v g f'.ty false (hwfF f' hfF) hcF hcf hcv hfF'
        | bad => simp [hs] at hcF
end


/-! ## ... and what it has accepted fits -/

mutual
theorem assignC_fits : (v : TL) → (g : GoTy) → (t : Ty) → (nul : Bool) → (gv : GoVal) →
    assignC g t nul v = some gv → intsFit g t nul v = true
  | .absent, _, _, _, _, _ => rfl
  | .null, _, _, _, _, _ => rfl
  | .bool _, _, _, _, _, _ => rfl
  | .float _, _, _, _, _, _ => rfl
  | .bytes _, _, _, _, _, _ => rfl
  | .link _, _, _, _, _, _ => rfl
  | .int i, g, t, nul, gv, ha => by
    unfold assignC at ha
    unfold intsFit
    cases hu : unptr nul g with
    | none => simp
    | some g0 =>
      simp only [hu, Option.map_eq_some_iff] at ha ⊢
      obtain ⟨a0, ha, _⟩ := ha
      cases t <;> cases g0 <;> simp at ha ⊢
      exact ha.1
  | .str s, g, t, nul, gv, ha => by
    unfold assignC at ha
    unfold intsFit
    cases hu : unptr nul g with
    | none => simp
    | some g0 =>
      simp only [hu, Option.map_eq_some_iff] at ha ⊢
      obtain ⟨a0, ha, _⟩ := ha
      cases t with
      | enum ms r =>
        cases g0 <;> simp at ha ⊢
        rename_i k
        cases r <;> simp at ha ⊢
        cases hm : ms.find? (fun m => m.name == s) with
        | none => simp
        | some m =>
          simp only [hm, Option.map_eq_some_iff] at ha ⊢
          obtain ⟨i, hi, _⟩ := ha
          obtain ⟨hmem, _⟩ := find?_mem_key (·.name) ms s m hm
          exact ((enumStore_eq_some k m.rint i).1 hi).2
      | _ => cases g0 <;> simp
  | .list xs, g, t, nul, gv, ha => by
    unfold assignC at ha
    unfold intsFit
    cases hu : unptr nul g with
    | none => simp
    | some g0 =>
      simp only [hu, Option.map_eq_some_iff] at ha ⊢
      obtain ⟨a0, ha, _⟩ := ha
      cases t with
      | list et enul =>
        cases g0 <;> simp at ha ⊢
        rename_i ge
        obtain ⟨ys, hys, _⟩ := ha
        exact assignList_fits xs ge et enul ys hys
      | _ => cases g0 <;> simp
  | .map es, g, t, nul, gv, ha => by
    unfold assignC at ha
    unfold intsFit
    cases hu : unptr nul g with
    | none => simp
    | some g0 =>
      simp only [hu, Option.map_eq_some_iff] at ha ⊢
      obtain ⟨a0, ha, _⟩ := ha
      cases t with
      | map vt vnul =>
        cases g0 <;> simp at ha ⊢
        rename_i gv0
        obtain ⟨ys, hys, _⟩ := ha
        exact assignKVs_fits es gv0 vt vnul ys hys
      | struct fs sr =>
        cases g0 <;> simp at ha ⊢
        rename_i gfs
        obtain ⟨ys, hys, _⟩ := ha
        exact assignFields_fits es gfs fs.toList ys hys
      | union ms ur =>
        cases g0 <;> simp at ha ⊢
        rename_i gfs
        match es, ha with
        | .cons k v .nil, ha =>
          simp only at ha ⊢
          cases hfi : findIdx (fun m => m.name == k) ms.toList with
          | none => simp
          | some im =>
            obtain ⟨i, m⟩ := im
            obtain ⟨hmi, _, _⟩ := findIdx_some _ _ i m hfi
            simp only [hfi] at ha ⊢
            cases hg : gfs.get? i with
            | none => simp
            | some g1 =>
              cases g1 <;> simp [hg] at ha ⊢
              rename_i g2
              obtain ⟨a, hasg, _⟩ := ha
              exact assignC_fits v g2 m.ty false a hasg
        | .nil, _ => simp
        | .cons _ _ (.cons _ _ _), _ => simp
      | _ => cases g0 <;> simp
theorem assignList_fits : (xs : TLs) → (g : GoTy) → (t : Ty) → (nul : Bool) → (ys : GoVals) →
    assignList g t nul xs = some ys → intsFitList g t nul xs = true
  | .nil, _, _, _, _, _ => rfl
  | .cons x xs, g, t, nul, ys, ha => by
    simp only [assignList, zipSome_eq_some] at ha
    obtain ⟨a, r, h1, h2, _⟩ := ha
    simp only [intsFitList, Bool.and_eq_true]
    exact ⟨assignC_fits x g t nul a h1, assignList_fits xs g t nul r h2⟩
theorem assignKVs_fits : (es : TLKVs) → (g : GoTy) → (t : Ty) → (nul : Bool) → (ys : GoKVs) →
    assignKVs g t nul es = some ys → intsFitKVs g t nul es = true
  | .nil, _, _, _, _, _ => rfl
  | .cons k x xs, g, t, nul, ys, ha => by
    simp only [assignKVs, zipSome_eq_some] at ha
    obtain ⟨a, r, h1, h2, _⟩ := ha
    simp only [intsFitKVs, Bool.and_eq_true]
    exact ⟨assignC_fits x g t nul a h1, assignKVs_fits xs g t nul r h2⟩
theorem assignFields_fits : (es : TLKVs) → (gfs : GoFields) → (fs : List Field) → (ys : GoVals) →
    assignFields gfs fs es = some ys → intsFitFields gfs fs es = true
  | .nil, gfs, fs, _, _ => by cases gfs <;> cases fs <;> simp [intsFitFields]
  | .cons k v es, gfs, fs, ys, ha => by
    cases gfs with
    | nil => simp [intsFitFields]
    | cons n g gfs =>
      cases fs with
      | nil => simp [intsFitFields]
      | cons f fs =>
        rw [assignFields_cons] at ha
        rw [intsFitFields_cons]
        simp only [Bool.and_eq_true]
        split at ha
        · cases ha
        · simp only [zipSome_eq_some] at ha
          obtain ⟨a, r, h1, h2, _⟩ := ha
          refine ⟨?_, assignFields_fits es gfs fs r h2⟩
          unfold assignField at h1
          unfold intsFitField
          cases hs : fslot g f.opt f.nullable with
          | value =>
            simp only [hs] at h1 ⊢
            exact assignC_fits v g f.ty f.nullable a h1
          | optPtr g1 =>
            simp only [hs] at h1 ⊢
            by_cases hva : v = .absent
            · subst hva; rfl
            · simp only [hva, if_false, Option.map_eq_some_iff] at h1
              obtain ⟨a1, h1, _⟩ := h1
              exact assignC_fits v g1 f.ty f.nullable a1 h1
          | optBare =>
            simp only [hs] at h1 ⊢
            by_cases hva : v = .absent
            · subst hva; rfl
            · simp only [hva, if_false] at h1
              exact assignC_fits v g f.ty false a h1
          | bad => simp [hs] at h1
end

/-- the builder refuses exactly a value that does not conform or holds an integer that does not fit -/
theorem assign_none_iff (g : GoTy) (t : Ty) (tl : TL) (hwf : t.wf = true) (hc : compatible g t false = true) :
    assign g t tl = none ↔ (conforms t false tl = false ∨ intsFit g t false (normalize t tl) = false) := by
  unfold assign
  cases hcf : conforms t false tl with
  | false => simp
  | true =>
    simp only [if_true, Bool.true_eq_false, false_or]
    constructor
    · intro hn
      cases hf : intsFit g t false (normalize t tl) with
      | false => rfl
      | true =>
        obtain ⟨gv, hgv⟩ := assignC_isSome _ g t false hwf hc (conforms_normalize tl t false hwf hcf)
          (canon_normalize tl t false hwf hcf) hf
        rw [hgv] at hn; cases hn
    · intro hf
      cases ha : assignC g t false (normalize t tl) with
      | none => rfl
      | some gv =>
        rw [assignC_fits _ g t false gv ha] at hf; cases hf

end GoBind
end Ipld
