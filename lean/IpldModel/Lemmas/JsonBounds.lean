/-
  C10 helper lemmas, DAG-JSON side: the token-level decoder never returns a value nested deeper than
  `maxDepth`, in the DAG-JSON sense of depth (`Spec.jsonDepth`: a link or a byte string is written as
  a map and counts one level) and hence in the data-model sense (`DM.depth`).
-/
import IpldModel.Lemmas.JsonTok
import IpldModel.Lemmas.JsonWin
import IpldModel.Spec.CanonJson
namespace Ipld
namespace Json
open Spec

mutual
theorem depth_le_jsonDepth : (v : DM) → v.depth ≤ jsonDepth v
  | .null => by simp [DM.depth]
  | .bool _ => by simp [DM.depth]
  | .int _ => by simp [DM.depth]
  | .float _ => by simp [DM.depth]
  | .str _ => by simp [DM.depth]
  | .bytes _ => by simp [DM.depth]
  | .link _ => by simp [DM.depth]
  | .list xs => by have := depthList_le_jsonDepth xs; simp only [DM.depth, jsonDepth]; omega
  | .map es => by have := depthKVs_le_jsonDepth es; simp only [DM.depth, jsonDepth]; omega
theorem depthList_le_jsonDepth : (xs : DMs) → xs.depth ≤ jsonDepthList xs
  | .nil => by simp [DMs.depth]
  | .cons x xs => by
    have := depth_le_jsonDepth x; have := depthList_le_jsonDepth xs
    simp only [DMs.depth, jsonDepthList]; omega
theorem depthKVs_le_jsonDepth : (es : DMKVs) → es.depth ≤ jsonDepthKVs es
  | .nil => by simp [DMKVs.depth]
  | .cons k v es => by
    have := depth_le_jsonDepth v; have := depthKVs_le_jsonDepth es
    simp only [DMKVs.depth, jsonDepthKVs]; omega
end

/-- Every value an element decoder returns has DAG-JSON depth at most `D`. -/
def ItemDepth (D : Nat) (item : List JTok → JR (DM × List JTok)) : Prop :=
  ∀ toks v r, item toks = .ok (v, r) → jsonDepth v ≤ D

theorem unListLoop_depth {D : Nat} (item : List JTok → JR (DM × List JTok)) (hi : ItemDepth D item) :
    ∀ (lf : Nat) (toks : List JTok) (xs : List DM) (rest : List JTok),
    unListLoop item lf toks = .ok (xs, rest) → jsonDepthList (DMs.ofList xs) ≤ D
  | 0, _, _, _, h => by simp [unListLoop] at h
  | lf + 1, toks, xs, rest, h => by
    unfold unListLoop at h
    rcases toks with _ | ⟨t, r⟩
    · simp at h
    by_cases hc : t = .arrClose
    · subst hc
      simp at h
      obtain ⟨h1, _⟩ := h; subst h1
      simp [DMs.ofList, jsonDepthList]
    · have h' : (do let (v, rest') ← item (t :: r)
                    let (xs, rest'') ← unListLoop item lf rest'
                    pure (v :: xs, rest'')) = Except.ok (xs, rest) := by
        cases t <;> first | exact absurd rfl hc | exact h
      clear h
      simp only [bind, Except.bind] at h'
      cases hit : item (t :: r) with
      | error e => simp [hit] at h'
      | ok p =>
        obtain ⟨v, r'⟩ := p
        simp only [hit] at h'
        cases hl : unListLoop item lf r' with
        | error e => simp [hl] at h'
        | ok q =>
          obtain ⟨xs', r''⟩ := q
          simp only [hl, pure, Except.pure, Except.ok.injEq, Prod.mk.injEq] at h'
          have h1 := hi _ _ _ hit
          have h2 := unListLoop_depth item hi lf _ _ _ hl
          rw [← h'.1]
          simp only [DMs.ofList, jsonDepthList]; omega

theorem unMapLoop_depth {D : Nat} (item : List JTok → JR (DM × List JTok)) (hi : ItemDepth D item) :
    ∀ (lf : Nat) (seen : List Bytes) (toks : List JTok) (es : List (Bytes × DM)) (rest : List JTok),
    unMapLoop item lf seen toks = .ok (es, rest) → jsonDepthKVs (DMKVs.ofList es) ≤ D
  | 0, _, _, _, _, h => by simp [unMapLoop] at h
  | lf + 1, seen, toks, es, rest, h => by
    unfold unMapLoop at h
    rcases toks with _ | ⟨t, r⟩
    · simp at h
    cases t <;> try (simp at h; done)
    · -- mapClose
      simp at h
      obtain ⟨h1, _⟩ := h; subst h1
      simp [DMKVs.ofList, jsonDepthKVs]
    · -- str k
      rename_i k
      simp only at h
      split at h
      · simp at h
      rcases r with _ | ⟨t2, r2⟩
      · simp at h
      simp only [bind, Except.bind] at h
      cases hit : item (t2 :: r2) with
      | error e => simp [hit] at h
      | ok p =>
        obtain ⟨v, r'⟩ := p
        simp only [hit] at h
        cases hl : unMapLoop item lf (k :: seen) r' with
        | error e => simp [hl] at h
        | ok q =>
          obtain ⟨es', r''⟩ := q
          simp only [hl, pure, Except.pure, Except.ok.injEq, Prod.mk.injEq] at h
          have h1 := hi _ _ _ hit
          have h2 := unMapLoop_depth item hi lf _ _ _ _ hl
          rw [← h.1]
          simp only [DMKVs.ofList, jsonDepthKVs]; omega

/-- A value decoded at nesting `depth ≤ maxDepth` has `depth + jsonDepth v ≤ maxDepth`: containers and
    the two reserved map forms are refused when `depth ≥ maxDepth`. -/
theorem unTok_depth (cfg : DecCfg) : ∀ (fuel depth : Nat) (toks : List JTok) (v : DM) (r : List JTok),
    depth ≤ cfg.maxDepth → unTok cfg fuel depth toks = .ok (v, r) → depth + jsonDepth v ≤ cfg.maxDepth
  | 0, _, _, _, _, _, h => by simp [unTok] at h
  | fuel + 1, depth, toks, v, r, hd, h => by
    rcases toks with _ | ⟨t, rest⟩
    · simp [unTok] at h
    cases t
    case mapOpen =>
      rw [unTok_mapOpen] at h
      split at h
      · simp at h
      rename_i hdep
      split at h
      · simp at h
      · split at h
        · simp at h
          rw [← h.1]; simp only [jsonDepth]; omega
        · simp at h
      · split at h
        · simp at h
          rw [← h.1]; simp only [jsonDepth]; omega
        · simp at h
      · simp only [asMap, bind, Except.bind] at h
        cases hl : unMapLoop (unTok cfg fuel (depth + 1)) (rest.length + 1) [] rest with
        | error e => simp [hl] at h
        | ok q =>
          obtain ⟨es, r'⟩ := q
          simp only [hl, pure, Except.pure, Except.ok.injEq, Prod.mk.injEq] at h
          have hi : ItemDepth (cfg.maxDepth - (depth + 1)) (unTok cfg fuel (depth + 1)) := by
            intro toks v r hh
            have := unTok_depth cfg fuel (depth + 1) toks v r (by omega) hh
            omega
          have := unMapLoop_depth _ hi _ _ _ _ _ hl
          rw [← h.1]; simp only [jsonDepth]; omega
    case arrOpen =>
      simp only [unTok] at h
      split at h
      · simp at h
      rename_i hdep
      simp only [bind, Except.bind] at h
      cases hl : unListLoop (unTok cfg fuel (depth + 1)) (rest.length + 1) rest with
      | error e => simp [hl] at h
      | ok q =>
        obtain ⟨xs, r'⟩ := q
        simp only [hl, pure, Except.pure, Except.ok.injEq, Prod.mk.injEq] at h
        have hi : ItemDepth (cfg.maxDepth - (depth + 1)) (unTok cfg fuel (depth + 1)) := by
          intro toks v r hh
          have := unTok_depth cfg fuel (depth + 1) toks v r (by omega) hh
          omega
        have := unListLoop_depth _ hi _ _ _ _ hl
        rw [← h.1]; simp only [jsonDepth]; omega
    all_goals
      simp [unTok] at h
      try (rw [← h.1]; simp only [jsonDepth]; omega)

theorem decodeToks_jsonDepth (cfg : DecCfg) (toks : List JTok) (v : DM) (h : decodeToks cfg toks = .ok v) :
    jsonDepth v ≤ cfg.maxDepth := by
  unfold decodeToks at h
  simp only [bind, Except.bind] at h
  cases hu : unTok cfg (toks.length + 1) 0 toks with
  | error e => simp [hu] at h
  | ok p =>
    obtain ⟨v', r⟩ := p
    simp only [hu] at h
    have := unTok_depth cfg _ 0 toks v' r (by omega) hu
    have hv : v' = v := by
      split at h
      · simpa [pure, Except.pure] using h
      · split at h
        · simpa [pure, Except.pure] using h
        · simp at h
    subst hv
    omega

end Json
end Ipld
