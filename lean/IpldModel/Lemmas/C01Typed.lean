/-
  C01 for typed (schema-bound) builders, helper lemmas for Props/C01typed.lean.

  * every plan (`Asm.Plan`: the canonical plan `planOf` and its variants - any size hint, `AssembleEntry` or the
    key assembler, whole subtrees by `AssignNode`) of a tree that conforms to the type runs call by call on the typed
    machine of `Model/TypedAssembler.lean` and delivers the canonical typed value `Schema.normalize t (TL.ofDM d)`;
  * the read side of a typed node (`TRead`: `LookupByString`, `LookupByIndex`, `Length`, the key order of the map
    iterator) over typed values `TL`, which coincide with the generic read functions of `Model/Assembler.lean` wherever
    the value holds no `absent`; what the lookups of a canonical value return.
-/
import IpldModel.Lemmas.Assembler
import IpldModel.Lemmas.TypedAssemblerNode
import IpldModel.Lemmas.TypedAssemblerExamples
import IpldModel.Lemmas.SchemaType
import IpldModel.Lemmas.SchemaNorm
import IpldModel.Lemmas.TypedAssemblerRefine
namespace Ipld
namespace TAsm
open Ipld.Asm (Op Out ErrClass Plan PlanList PlanKVs)
open Ipld.Schema (Ty Fields Field TL TLs TLKVs canonFields conforms conformsList conformsMap conformsStruct
  normalize normalizeList normalizeMap normalizeStruct)

/-! ### single calls -/

/-- a call other than `AssignNode`, on a machine that is still the contract's, is `stepPrim` -/
theorem step_prim_ok {e : Engine} {s s' : St} (ht : s.tainted = false) {op : Op} (hop : ∀ v, op ≠ .assignNode v)
    (h : stepPrim e s op = (s', .ok)) : step e s op = (s', .ok) := by
  rw [step_of_not_tainted ht]
  cases op with
  | assignNode v => exact absurd rfl (hop v)
  | _ => exact h

/-- `AssignNode` of a string node on a key assembler is `AssignString` -/
theorem step_assignNode_str {e : Engine} {s s' : St} (ht : s.tainted = false) {k : Bytes}
    (h : stepPrim e s (.assign (.str k)) = (s', .ok)) : step e s (.assignNode (.str k)) = (s', .ok) := by
  rw [step_of_not_tainted ht]
  simpa [stepU, isRec] using h

/-- opening an entry of a typed map, either way -/
theorem open_map_entry (e : Engine) (T : Ty) (vty : Ty) (vnul : Bool) (es : List (Bytes × TL)) (rest : List Frame)
    (r : Option TL) {k : Bytes} (hk : hasKey es k = false) :
    Runs e ⟨T, .map vty vnul es .init :: rest, r, false⟩ [.assembleEntry k]
      ⟨T, .map vty vnul es (.midValue k) :: rest, r, false⟩ ∧
    ∀ keyOp, keyOp = Op.assign (.str k) ∨ keyOp = Op.assignNode (.str k) →
      Runs e ⟨T, .map vty vnul es .init :: rest, r, false⟩ [.assembleKey, keyOp, .assembleValue]
        ⟨T, .map vty vnul es (.midValue k) :: rest, r, false⟩ := by
  have hkey : stepPrim e ⟨T, .map vty vnul es .midKey :: rest, r, false⟩ (.assign (.str k)) =
      (⟨T, .map vty vnul es (.expectValue k) :: rest, r, false⟩, .ok) := by
    simp [stepPrim, keyPrim, supplyKey, hk]
  refine ⟨Runs.single (step_prim_ok rfl (by intro v h; cases h) (by simp [stepPrim, hk])), ?_⟩
  intro keyOp hko
  refine Runs.cons (s1 := ⟨T, .map vty vnul es .midKey :: rest, r, false⟩)
    (step_prim_ok rfl (by intro v h; cases h) rfl)
    (Runs.cons (s1 := ⟨T, .map vty vnul es (.expectValue k) :: rest, r, false⟩) ?_
      (Runs.single (step_prim_ok rfl (by intro v h; cases h) rfl)))
  rcases hko with rfl | rfl
  · exact step_prim_ok rfl (by intro v h; cases h) hkey
  · exact step_assignNode_str rfl hkey

/-- opening an entry of a struct for a field not yet supplied, either way -/
theorem open_struct_entry (e : Engine) (T : Ty) (fs : List Field) (es : List (Bytes × TL)) (rest : List Frame)
    (r : Option TL) {k : Bytes} {f : Field} (hf : fieldOf fs k = some f) (hk : hasKey es k = false) :
    Runs e ⟨T, .struct fs es .init :: rest, r, false⟩ [.assembleEntry k]
      ⟨T, .struct fs es (.midValue k) :: rest, r, false⟩ ∧
    ∀ keyOp, keyOp = Op.assign (.str k) ∨ keyOp = Op.assignNode (.str k) →
      Runs e ⟨T, .struct fs es .init :: rest, r, false⟩ [.assembleKey, keyOp, .assembleValue]
        ⟨T, .struct fs es (.midValue k) :: rest, r, false⟩ := by
  have hkey : stepPrim e ⟨T, .struct fs es .midKey :: rest, r, false⟩ (.assign (.str k)) =
      (⟨T, .struct fs es (.expectValue k) :: rest, r, false⟩, .ok) := by
    simp [stepPrim, keyPrim, supplyKey, hf, hk]
  refine ⟨Runs.single (step_prim_ok rfl (by intro v h; cases h) (by simp [stepPrim, hf, hk])), ?_⟩
  intro keyOp hko
  refine Runs.cons (s1 := ⟨T, .struct fs es .midKey :: rest, r, false⟩)
    (step_prim_ok rfl (by intro v h; cases h) rfl)
    (Runs.cons (s1 := ⟨T, .struct fs es (.expectValue k) :: rest, r, false⟩) ?_
      (Runs.single (step_prim_ok rfl (by intro v h; cases h) rfl)))
  rcases hko with rfl | rfl
  · exact step_prim_ok rfl (by intro v h; cases h) hkey
  · exact step_assignNode_str rfl hkey

/-! ### plans run -/

/-- the one-call plan `AssignNode d` -/
theorem tplan_node_runs {e : Engine} (he : e.keyAsmDupMapKey = false) {d : DM} {s : St} {t : Ty} {nul : Bool}
    (ht : s.tainted = false) (hpos : pos s = .value t nul) (hpl : plain t = true)
    (hc : (conforms t nul (TL.ofDM d) && int64s d) = true) :
    Runs e s [.assignNode d] (deliver s (normalize t (TL.ofDM d))).1 :=
  Runs.single ((step_assignNode_spec he ht hpos hpl d).1 hc)

theorem tplan_scalar_runs {e : Engine} (he : e.keyAsmDupMapKey = false) {d : DM} (hs : Asm.isScalar d = true)
    {ops : List Op} (hp : Plan d ops) {s : St} {t : Ty} {nul : Bool}
    (ht : s.tainted = false) (hpos : pos s = .value t nul) (hpl : plain t = true)
    (hc : (conforms t nul (TL.ofDM d) && int64s d) = true) :
    Runs e s ops (deliver s (normalize t (TL.ofDM d))).1 := by
  cases hp with
  | scalar _ _ =>
    refine Runs.single (step_prim_ok ht (by intro v h; cases h) ?_)
    rw [(putNode_scalar hpos hpl hs).1 hc]
    exact Prod.ext rfl (deliver_ok_of_pos hpos _)
  | node _ => exact tplan_node_runs he ht hpos hpl hc
  | list n xs ops' hl => simp [Asm.isScalar] at hs
  | map n es ops' hl => simp [Asm.isScalar] at hs

mutual
/-- In value position of a plain type `t`, every plan of a tree `d` that conforms to `t` (integers within int64) is
    accepted call by call and leaves the assembler where handing over the canonical typed value of `d` would. -/
theorem tplan_runs {e : Engine} (he : e.keyAsmDupMapKey = false) :
    (d : DM) → (ops : List Op) → Plan d ops → (s : St) → (t : Ty) → (nul : Bool) →
    s.tainted = false → pos s = .value t nul → plain t = true →
    (conforms t nul (TL.ofDM d) && int64s d) = true →
    Runs e s ops (deliver s (normalize t (TL.ofDM d))).1
  | .null, _, hp, _, _, _, ht, hpos, hpl, hc => tplan_scalar_runs he rfl hp ht hpos hpl hc
  | .bool _, _, hp, _, _, _, ht, hpos, hpl, hc => tplan_scalar_runs he rfl hp ht hpos hpl hc
  | .int _, _, hp, _, _, _, ht, hpos, hpl, hc => tplan_scalar_runs he rfl hp ht hpos hpl hc
  | .float _, _, hp, _, _, _, ht, hpos, hpl, hc => tplan_scalar_runs he rfl hp ht hpos hpl hc
  | .str _, _, hp, _, _, _, ht, hpos, hpl, hc => tplan_scalar_runs he rfl hp ht hpos hpl hc
  | .bytes _, _, hp, _, _, _, ht, hpos, hpl, hc => tplan_scalar_runs he rfl hp ht hpos hpl hc
  | .link _, _, hp, _, _, _, ht, hpos, hpl, hc => tplan_scalar_runs he rfl hp ht hpos hpl hc
  | .list ys, ops, hp, s, t, nul, ht, hpos, hpl, hc => by
    cases hp with
    | scalar _ hs => simp [Asm.isScalar] at hs
    | node _ => exact tplan_node_runs he ht hpos hpl hc
    | list n _ ops' hl =>
      obtain ⟨T, fr, r, tt⟩ := s
      simp only at ht; subst ht
      cases t with
      | list ety enul =>
        have hb : step e ⟨T, fr, r, false⟩ (.beginList n) = (⟨T, .list ety enul [] false :: fr, r, false⟩, .ok) :=
          step_prim_ok rfl (by intro v h; cases h) (by rw [stepPrim_at_value hpos]; rfl)
        have hc' : (conformsList ety enul (TLs.ofDMs ys) && int64sL ys) = true := by
          simpa [conforms, TL.ofDM, int64s] using hc
        have h2 := tplanList_runs he ys ops' hl T ety enul [] fr r (by simpa [plain] using hpl) hc'
        refine Runs.cons hb (Runs.append h2 (Runs.single (step_prim_ok rfl (by intro v h; cases h) ?_)))
        have hdo := deliver_ok_of_pos hpos (normalize (.list ety enul) (TL.ofDM (.list ys)))
        simp only [stepPrim, List.nil_append, Schema.TLs.ofList_toList, TL.ofDM, normalize] at hdo ⊢
        exact Prod.ext rfl hdo
      | _ => simp_all [conforms, TL.ofDM, plain]
  | .map kvs, ops, hp, s, t, nul, ht, hpos, hpl, hc => by
    cases hp with
    | scalar _ hs => simp [Asm.isScalar] at hs
    | node _ => exact tplan_node_runs he ht hpos hpl hc
    | map n _ ops' hl =>
      obtain ⟨T, fr, r, tt⟩ := s
      simp only at ht; subst ht
      cases t with
      | map vty vnul =>
        have hb : step e ⟨T, fr, r, false⟩ (.beginMap n) = (⟨T, .map vty vnul [] .init :: fr, r, false⟩, .ok) :=
          step_prim_ok rfl (by intro v h; cases h) (by rw [stepPrim_at_value hpos]; rfl)
        have hc' : (conformsMap vty vnul [] (TLKVs.ofDMKVs kvs) && int64sM kvs) = true := by
          simpa [conforms, TL.ofDM, int64s] using hc
        have h2 := tplanKVs_map_runs he kvs ops' hl T vty vnul [] [] fr r (by simpa [plain] using hpl) SeenIs.nil hc'
        refine Runs.cons hb (Runs.append h2 (Runs.single (step_prim_ok rfl (by intro v h; cases h) ?_)))
        have hdo := deliver_ok_of_pos hpos (normalize (.map vty vnul) (TL.ofDM (.map kvs)))
        simp only [stepPrim, List.nil_append, Schema.TLKVs.ofList_toList, TL.ofDM, normalize] at hdo ⊢
        exact Prod.ext rfl hdo
      | struct F rp =>
        have hb : step e ⟨T, fr, r, false⟩ (.beginMap n) = (⟨T, .struct F.toList [] .init :: fr, r, false⟩, .ok) :=
          step_prim_ok rfl (by intro v h; cases h) (by rw [stepPrim_at_value hpos]; rfl)
        have hpf : ∀ f ∈ F.toList, plain f.ty = true := plainFields_mem F (by simpa [plain] using hpl)
        have hc' : (conformsStruct F.toList [] (TLKVs.ofDMKVs kvs) && int64sM kvs) = true := by
          simpa [conforms, TL.ofDM, int64s] using hc
        obtain ⟨h2, hall⟩ := tplanKVs_struct_runs he kvs ops' hl T F.toList [] [] fr r hpf SeenIs.nil hc'
        refine Runs.cons hb (Runs.append h2 (Runs.single (step_prim_ok rfl (by intro v h; cases h) ?_)))
        have hdo := deliver_ok_of_pos hpos (normalize (.struct F rp) (TL.ofDM (.map kvs)))
        simp only [List.nil_append] at hall
        simp only [stepPrim, List.nil_append, hall, if_true, TL.ofDM, normalize] at hdo ⊢
        exact Prod.ext rfl hdo
      | _ => simp_all [conforms, TL.ofDM, plain]
/-- the elements of a list, into an open list frame -/
theorem tplanList_runs {e : Engine} (he : e.keyAsmDupMapKey = false) :
    (ys : DMs) → (ops : List Op) → PlanList ys ops → (T : Ty) → (ety : Ty) → (enul : Bool) → (xs : List TL) →
    (rest : List Frame) → (r : Option TL) → plain ety = true →
    (conformsList ety enul (TLs.ofDMs ys) && int64sL ys) = true →
    Runs e ⟨T, .list ety enul xs false :: rest, r, false⟩ ops
      ⟨T, .list ety enul (xs ++ (normalizeList ety (TLs.ofDMs ys)).toList) false :: rest, r, false⟩
  | .nil, ops, hp, T, ety, enul, xs, rest, r, _, _ => by
    cases hp
    simp only [TLs.ofDMs, normalizeList, TLs.toList, List.append_nil]
    exact Runs.nil _ _
  | .cons y ys, ops, hp, T, ety, enul, xs, rest, r, hpl, hc => by
    cases hp with
    | cons _ _ o1 o2 h1 h2 =>
      have hav : step e ⟨T, .list ety enul xs false :: rest, r, false⟩ .assembleValue =
          (⟨T, .list ety enul xs true :: rest, r, false⟩, .ok) :=
        step_prim_ok rfl (by intro v h; cases h) rfl
      simp only [TLs.ofDMs, conformsList, int64sL, Bool.and_eq_true] at hc
      have r1 := tplan_runs he y o1 h1 ⟨T, .list ety enul xs true :: rest, r, false⟩ ety enul rfl
        (by simp [pos, posOf]) hpl (by simp [hc.1.1, hc.2.1])
      have r1' : Runs e ⟨T, .list ety enul xs true :: rest, r, false⟩ o1
          ⟨T, .list ety enul (xs ++ [normalize ety (TL.ofDM y)]) false :: rest, r, false⟩ := r1
      have r2 := tplanList_runs he ys o2 h2 T ety enul (xs ++ [normalize ety (TL.ofDM y)]) rest r hpl
        (by simp [hc.1.2, hc.2.2])
      have := Runs.cons hav (Runs.append r1' r2)
      simpa [TLs.ofDMs, normalizeList, TLs.toList, List.append_assoc] using this
/-- the entries of a map, into an open typed-map frame that expects a key -/
theorem tplanKVs_map_runs {e : Engine} (he : e.keyAsmDupMapKey = false) :
    (kvs : DMKVs) → (ops : List Op) → PlanKVs kvs ops → (T : Ty) → (vty : Ty) → (vnul : Bool) →
    (es : List (Bytes × TL)) → (seen : List Bytes) → (rest : List Frame) → (r : Option TL) → plain vty = true →
    SeenIs seen es → (conformsMap vty vnul seen (TLKVs.ofDMKVs kvs) && int64sM kvs) = true →
    Runs e ⟨T, .map vty vnul es .init :: rest, r, false⟩ ops
      ⟨T, .map vty vnul (es ++ (normalizeMap vty (TLKVs.ofDMKVs kvs)).toList) .init :: rest, r, false⟩
  | .nil, ops, hp, T, vty, vnul, es, seen, rest, r, _, _, _ => by
    cases hp
    simp only [TLKVs.ofDMKVs, normalizeMap, TLKVs.toList, List.append_nil]
    exact Runs.nil _ _
  | .cons k v kvs, ops, hp, T, vty, vnul, es, seen, rest, r, hpl, hseen, hc => by
    simp only [TLKVs.ofDMKVs, conformsMap, int64sM, Bool.and_eq_true, hseen k, Bool.not_eq_true'] at hc
    have hk : hasKey es k = false := hc.1.1.1
    obtain ⟨hentry, hkeys⟩ := open_map_entry e T vty vnul es rest r hk
    have body : ∀ o1 o2, Plan v o1 → PlanKVs kvs o2 →
        Runs e ⟨T, .map vty vnul es (.midValue k) :: rest, r, false⟩ (o1 ++ o2)
          ⟨T, .map vty vnul (es ++ (normalizeMap vty (TLKVs.ofDMKVs (.cons k v kvs))).toList) .init :: rest, r,
            false⟩ := by
      intro o1 o2 h1 h2
      have r1 := tplan_runs he v o1 h1 ⟨T, .map vty vnul es (.midValue k) :: rest, r, false⟩ vty vnul rfl
        (by simp [pos, posOf]) hpl (by simp [hc.1.1.2, hc.2.1])
      have r1' : Runs e ⟨T, .map vty vnul es (.midValue k) :: rest, r, false⟩ o1
          ⟨T, .map vty vnul (es ++ [(k, normalize vty (TL.ofDM v))]) .init :: rest, r, false⟩ := r1
      have r2 := tplanKVs_map_runs he kvs o2 h2 T vty vnul (es ++ [(k, normalize vty (TL.ofDM v))]) (k :: seen)
        rest r hpl (hseen.snoc k _) (by simp [hc.1.2, hc.2.2])
      have := Runs.append r1' r2
      simpa [TLKVs.ofDMKVs, normalizeMap, TLKVs.toList, List.append_assoc] using this
    cases hp with
    | entry _ _ _ o1 o2 h1 h2 => exact Runs.append hentry (body o1 o2 h1 h2)
    | keyAssign _ _ _ o1 o2 h1 h2 => exact Runs.append (hkeys _ (Or.inl rfl)) (body o1 o2 h1 h2)
    | keyNode _ _ _ o1 o2 h1 h2 => exact Runs.append (hkeys _ (Or.inr rfl)) (body o1 o2 h1 h2)
/-- the entries of a map, into an open struct frame that expects a key; afterwards every required field is there -/
theorem tplanKVs_struct_runs {e : Engine} (he : e.keyAsmDupMapKey = false) :
    (kvs : DMKVs) → (ops : List Op) → PlanKVs kvs ops → (T : Ty) → (fs : List Field) →
    (es : List (Bytes × TL)) → (seen : List Bytes) → (rest : List Frame) → (r : Option TL) →
    (∀ f ∈ fs, plain f.ty = true) → SeenIs seen es →
    (conformsStruct fs seen (TLKVs.ofDMKVs kvs) && int64sM kvs) = true →
    Runs e ⟨T, .struct fs es .init :: rest, r, false⟩ ops
      ⟨T, .struct fs (es ++ (normalizeStruct fs (TLKVs.ofDMKVs kvs)).toList) .init :: rest, r, false⟩ ∧
    fs.all (fun f => f.opt || hasKey (es ++ (normalizeStruct fs (TLKVs.ofDMKVs kvs)).toList) f.name) = true
  | .nil, ops, hp, T, fs, es, seen, rest, r, _, hseen, hc => by
    cases hp
    have hall : fs.all (fun f => f.opt || seen.contains f.name) = fs.all (fun f => f.opt || hasKey es f.name) := by
      congr 1; funext f; rw [hseen]
    simp only [TLKVs.ofDMKVs, conformsStruct, int64sM, Bool.and_true, hall] at hc
    simp only [TLKVs.ofDMKVs, normalizeStruct, TLKVs.toList, List.append_nil]
    exact ⟨Runs.nil _ _, hc⟩
  | .cons k v kvs, ops, hp, T, fs, es, seen, rest, r, hpl, hseen, hc => by
    simp only [TLKVs.ofDMKVs, Schema.conformsStruct_cons, int64sM] at hc
    cases hf : fs.find? (fun f => f.name == k) with
    | none => simp [hf] at hc
    | some f =>
      have hfo : fieldOf fs k = some f := hf
      simp only [hf, fieldValOK_ofDM, Bool.and_eq_true, hseen k, Bool.not_eq_true'] at hc
      have hk : hasKey es k = false := hc.1.1.1
      obtain ⟨hentry, hkeys⟩ := open_struct_entry e T fs es rest r hfo hk
      have body : ∀ o1 o2, Plan v o1 → PlanKVs kvs o2 →
          Runs e ⟨T, .struct fs es (.midValue k) :: rest, r, false⟩ (o1 ++ o2)
            ⟨T, .struct fs (es ++ (normalizeStruct fs (TLKVs.ofDMKVs (.cons k v kvs))).toList) .init :: rest, r,
              false⟩ ∧
          fs.all (fun f => f.opt ||
            hasKey (es ++ (normalizeStruct fs (TLKVs.ofDMKVs (.cons k v kvs))).toList) f.name) = true := by
        intro o1 o2 h1 h2
        have r1 := tplan_runs he v o1 h1 ⟨T, .struct fs es (.midValue k) :: rest, r, false⟩ f.ty f.nullable rfl
          (by simp [pos, posOf, hfo]) (hpl f (List.mem_of_find?_eq_some hf)) (by simp [hc.1.1.2, hc.2.1])
        have r1' : Runs e ⟨T, .struct fs es (.midValue k) :: rest, r, false⟩ o1
            ⟨T, .struct fs (es ++ [(k, normalize f.ty (TL.ofDM v))]) .init :: rest, r, false⟩ := by
          simpa [deliver, hfo] using r1
        obtain ⟨r2, hall⟩ := tplanKVs_struct_runs he kvs o2 h2 T fs (es ++ [(k, normalize f.ty (TL.ofDM v))])
          (k :: seen) rest r hpl (hseen.snoc k _) (by simp [hc.1.2, hc.2.2])
        have := Runs.append r1' r2
        constructor
        · simpa [TLKVs.ofDMKVs, normalizeStruct, TLKVs.toList, List.append_assoc, hf] using this
        · simpa [TLKVs.ofDMKVs, normalizeStruct, TLKVs.toList, List.append_assoc, hf] using hall
      cases hp with
      | entry _ _ _ o1 o2 h1 h2 => exact ⟨Runs.append hentry (body o1 o2 h1 h2).1, (body o1 o2 h1 h2).2⟩
      | keyAssign _ _ _ o1 o2 h1 h2 =>
        exact ⟨Runs.append (hkeys _ (Or.inl rfl)) (body o1 o2 h1 h2).1, (body o1 o2 h1 h2).2⟩
      | keyNode _ _ _ o1 o2 h1 h2 =>
        exact ⟨Runs.append (hkeys _ (Or.inr rfl)) (body o1 o2 h1 h2).1, (body o1 o2 h1 h2).2⟩
end

/-! ## The read side of a typed node

  A typed node read through `datamodel.Node` at type level IS the typed value `TL`: a struct is a map that lists all its
  fields in declaration order, an unset optional field reading as `Absent`.  The functions below are the read functions
  of `Model/Assembler.lean` (`Asm.lookupByString`, `Asm.lookupByIndex`, `Asm.length`) carried over to `TL` verbatim; on
  a value without `absent` they are those functions (`lookupByString_ofDM`, `lookupByIndex_ofDM`, `length_ofDM`). -/

namespace TRead
open Ipld.Asm (ReadErr)
open Ipld.Schema (Ty Fields Field TL TLs TLKVs canonFields conforms conformsList conformsMap conformsStruct
  normalize normalizeList normalizeMap normalizeStruct)

/-- `LookupByString` (for a struct: by field name; an unset optional field answers `absent`) -/
def lookupByString (w : TL) (k : Bytes) : Except ReadErr TL :=
  match w with
  | .map es => match es.toList.find? (fun e => e.1 == k) with
      | some e => .ok e.2
      | none => .error .notExists
  | _ => .error .wrongKind

/-- `LookupByIndex` -/
def lookupByIndex (w : TL) (i : Int) : Except ReadErr TL :=
  match w with
  | .list xs => if i < 0 then .error .notExists else
      match xs.toList[i.toNat]? with
      | some x => .ok x
      | none => .error .notExists
  | _ => .error .wrongKind

/-- `Length` -/
def length (w : TL) : Int :=
  match w with
  | .list xs => xs.toList.length
  | .map es => es.toList.length
  | _ => -1

/-- the keys `MapIterator` yields, in its order -/
def keys (w : TL) : List Bytes :=
  match w with
  | .map es => es.toList.map (·.1)
  | _ => []

/-- the (key, value) pairs `MapIterator` yields, in its order -/
def entries (w : TL) : List (Bytes × TL) :=
  match w with
  | .map es => es.toList
  | _ => []

/-- the values `ListIterator` yields, in its order -/
def elems (w : TL) : List TL :=
  match w with
  | .list xs => xs.toList
  | _ => []

/-! ### on a value without `absent` these are the generic read functions -/

theorem ofDMs_toList : (xs : DMs) → (TLs.ofDMs xs).toList = xs.toList.map TL.ofDM
  | .nil => rfl
  | .cons x xs => by simp [TLs.ofDMs, TLs.toList, DMs.toList, ofDMs_toList xs]

theorem ofDMKVs_toList : (es : DMKVs) → (TLKVs.ofDMKVs es).toList = es.toList.map fun p => (p.1, TL.ofDM p.2)
  | .nil => rfl
  | .cons k v es => by simp [TLKVs.ofDMKVs, TLKVs.toList, DMKVs.toList, ofDMKVs_toList es]

theorem find_map_snd {β γ : Type} (g : β → γ) (k : Bytes) : (l : List (Bytes × β)) →
    (l.map fun p => (p.1, g p.2)).find? (fun e => e.1 == k) = (l.find? (fun e => e.1 == k)).map fun p => (p.1, g p.2)
  | [] => rfl
  | (a, b) :: l => by
    simp only [List.map_cons, List.find?_cons]
    cases a == k
    · exact find_map_snd g k l
    · rfl

theorem lookupByString_ofDM (d : DM) (k : Bytes) :
    lookupByString (TL.ofDM d) k = (Asm.lookupByString d k).map TL.ofDM := by
  cases d <;> try rfl
  rename_i es
  simp only [TL.ofDM, lookupByString, Asm.lookupByString, ofDMKVs_toList, find_map_snd]
  cases es.toList.find? (fun e => e.1 == k) <;> rfl

theorem lookupByIndex_ofDM (d : DM) (i : Int) :
    lookupByIndex (TL.ofDM d) i = (Asm.lookupByIndex d i).map TL.ofDM := by
  cases d <;> try rfl
  rename_i xs
  simp only [TL.ofDM, lookupByIndex, Asm.lookupByIndex, ofDMs_toList, List.getElem?_map]
  split
  · rfl
  · cases xs.toList[i.toNat]? <;> rfl

theorem length_ofDM (d : DM) : length (TL.ofDM d) = Asm.length d := by
  cases d <;> try rfl
  · rename_i xs; simp [TL.ofDM, length, Asm.length, ofDMs_toList, DMs.length]
  · rename_i es; simp [TL.ofDM, length, Asm.length, ofDMKVs_toList, DMKVs.length]

theorem keys_ofDM_map (es : DMKVs) : keys (TL.ofDM (.map es)) = es.keys := by
  simp [TL.ofDM, keys, ofDMKVs_toList, DMKVs.keys, List.map_map, Function.comp_def]

/-! ### searching a list of entries whose keys are pairwise distinct -/

theorem find_map_of_mem {α β : Type} (g : α → Bytes × β) (key : α → Bytes) (hg : ∀ a, (g a).1 = key a) :
    (l : List α) → (l.map key).Nodup → (a : α) → a ∈ l → (l.map g).find? (fun e => e.1 == key a) = some (g a)
  | [], _, _, h => by cases h
  | b :: l, hnd, a, h => by
    simp only [List.map_cons, List.nodup_cons] at hnd
    simp only [List.map_cons, List.find?_cons, hg]
    rcases List.mem_cons.1 h with rfl | h'
    · simp
    · have hne : key b ≠ key a := fun e => hnd.1 (e ▸ List.mem_map_of_mem h')
      have : (key b == key a) = false := by simpa using hne
      rw [this]
      exact find_map_of_mem g key hg l hnd.2 a h'

theorem find_map_none {α β : Type} (g : α → Bytes × β) (key : α → Bytes) (hg : ∀ a, (g a).1 = key a) (k : Bytes)
    (l : List α) (hk : k ∉ l.map key) : (l.map g).find? (fun e => e.1 == k) = none := by
  simp only [List.find?_eq_none, List.mem_map, beq_iff_eq]
  rintro e ⟨a, ha, rfl⟩ hek
  exact hk (List.mem_map.2 ⟨a, ha, by rw [← hg a, hek]⟩)

/-! ### what conformance says entry by entry -/

theorem conformsList_elems (ety : Ty) (enul : Bool) : (xs : TLs) → conformsList ety enul xs = true →
    ∀ x ∈ xs.toList, conforms ety enul x = true
  | .nil, _, x, hx => by simp [TLs.toList] at hx
  | .cons y ys, h, x, hx => by
    simp only [conformsList, Bool.and_eq_true] at h
    simp only [TLs.toList, List.mem_cons] at hx
    rcases hx with rfl | hx
    · exact h.1
    · exact conformsList_elems ety enul ys h.2 x hx

theorem conformsMap_entries (vty : Ty) (vnul : Bool) : (es : TLKVs) → (seen : List Bytes) →
    conformsMap vty vnul seen es = true →
    (es.toList.map (·.1)).Nodup ∧ (∀ k ∈ es.toList.map (·.1), k ∉ seen) ∧
      ∀ p ∈ es.toList, conforms vty vnul p.2 = true
  | .nil, _, _ => by simp [TLKVs.toList]
  | .cons k v es, seen, h => by
    simp only [conformsMap, Bool.and_eq_true, Bool.not_eq_true', List.contains_eq_mem, decide_eq_false_iff_not] at h
    obtain ⟨ih1, ih2, ih3⟩ := conformsMap_entries vty vnul es (k :: seen) h.2
    refine ⟨?_, ?_, ?_⟩
    · simp only [TLKVs.toList, List.map_cons, List.nodup_cons]
      exact ⟨fun hk => ih2 k hk (by simp), ih1⟩
    · intro k' hk'
      simp only [TLKVs.toList, List.map_cons, List.mem_cons] at hk'
      rcases hk' with rfl | hk'
      · exact h.1.1
      · exact fun hs => ih2 k' hk' (by simp [hs])
    · intro p hp
      simp only [TLKVs.toList, List.mem_cons] at hp
      rcases hp with rfl | hp
      · exact h.1.2
      · exact ih3 p hp

theorem conformsStruct_entries' (F : List Field) : (es : TLKVs) → (seen : List Bytes) →
    conformsStruct F seen es = true →
    (es.toList.map (·.1)).Nodup ∧ (∀ k ∈ es.toList.map (·.1), k ∉ seen) ∧
      ∀ p ∈ es.toList, ∃ f, F.find? (fun f => f.name == p.1) = some f ∧ Schema.fieldValOK f p.2 = true
  | .nil, _, _ => by simp [TLKVs.toList]
  | .cons k v es, seen, h => by
    rw [Schema.conformsStruct_cons] at h
    cases hf : F.find? (fun f => f.name == k) with
    | none => simp [hf] at h
    | some f =>
      simp only [hf, Bool.and_eq_true, Bool.not_eq_true', List.contains_eq_mem, decide_eq_false_iff_not] at h
      obtain ⟨ih1, ih2, ih3⟩ := conformsStruct_entries' F es (k :: seen) h.2
      refine ⟨?_, ?_, ?_⟩
      · simp only [TLKVs.toList, List.map_cons, List.nodup_cons]
        exact ⟨fun hk => ih2 k hk (by simp), ih1⟩
      · intro k' hk'
        simp only [TLKVs.toList, List.map_cons, List.mem_cons] at hk'
        rcases hk' with rfl | hk'
        · exact h.1.1
        · exact fun hs => ih2 k' hk' (by simp [hs])
      · intro p hp
        simp only [TLKVs.toList, List.mem_cons] at hp
        rcases hp with rfl | hp
        · exact ⟨f, hf, h.1.2⟩
        · exact ih3 p hp

/-! ### the entries of a canonical value -/

theorem normalizeList_toList (ety : Ty) : (ys : DMs) →
    (normalizeList ety (TLs.ofDMs ys)).toList = ys.toList.map fun y => normalize ety (TL.ofDM y)
  | .nil => rfl
  | .cons y ys => by simp [TLs.ofDMs, normalizeList, TLs.toList, DMs.toList, normalizeList_toList ety ys]

theorem normalizeMap_toList (vty : Ty) : (kvs : DMKVs) →
    (normalizeMap vty (TLKVs.ofDMKVs kvs)).toList = kvs.toList.map fun p => (p.1, normalize vty (TL.ofDM p.2))
  | .nil => rfl
  | .cons k v kvs => by simp [TLKVs.ofDMKVs, normalizeMap, TLKVs.toList, DMKVs.toList, normalizeMap_toList vty kvs]

theorem normalizeStruct_toList (F : List Field) : (kvs : DMKVs) →
    (normalizeStruct F (TLKVs.ofDMKVs kvs)).toList = kvs.toList.map (nfield F)
  | .nil => rfl
  | .cons k v kvs => by
    simp only [TLKVs.ofDMKVs, normalizeStruct, TLKVs.toList, DMKVs.toList, List.map_cons,
      normalizeStruct_toList F kvs, nfield]
    rfl

/-- a field of the canonical struct value reads the value accepted for its name, or `absent` -/
theorem canonFields_find (F : List Field) (hnd : (F.map (·.name)).Nodup) (L : List (Bytes × TL)) {f : Field}
    (hf : f ∈ F) :
    (canonFields F L).find? (fun e => e.1 == f.name) =
      some (f.name, match L.find? (fun e => e.1 == f.name) with
                    | some e => e.2
                    | none => .absent) := by
  unfold canonFields
  rw [find_map_of_mem _ (·.name) (by intro a; split <;> rfl) F hnd f hf]
  cases L.find? (fun e => e.1 == f.name) with
  | none => rfl
  | some e => obtain ⟨a, b⟩ := e; rfl

/-! ### what the read functions return on the canonical value of a conforming tree -/

/-- the ideal type-level builder accepted `d` and returned `w`: `d` conforms and `w` is its canonical typed value -/
theorem build_type_ok {ty : Ty} {nul : Bool} {d : DM} {w : TL} (hwf : ty.wf = true)
    (h : Schema.build Schema.Engine.ideal .type ty nul none d = .ok w) :
    conforms ty nul (TL.ofDM d) = true ∧ w = normalize ty (TL.ofDM d) := by
  rw [Schema.build_type d ty nul hwf] at h
  split at h
  · rename_i hc
    cases h
    exact ⟨hc, rfl⟩
  · cases h

/-- ... and conversely -/
theorem build_type_of_conforms {ty : Ty} {nul : Bool} {d : DM} (hwf : ty.wf = true)
    (hc : conforms ty nul (TL.ofDM d) = true) :
    Schema.build Schema.Engine.ideal .type ty nul none d = .ok (normalize ty (TL.ofDM d)) := by
  rw [Schema.build_type d ty nul hwf, if_pos hc]

theorem read_struct {F : Fields} {r : Schema.StructRepr} {nul : Bool} (hwf : (Ty.struct F r).wf = true) {kvs : DMKVs}
    (hc : conforms (.struct F r) nul (TL.ofDM (.map kvs)) = true) :
    length (normalize (.struct F r) (TL.ofDM (.map kvs))) = (F.toList.length : Int) ∧
    keys (normalize (.struct F r) (TL.ofDM (.map kvs))) = F.toList.map (·.name) ∧
    (∀ k v, (k, v) ∈ kvs.toList → ∃ f, fieldOf F.toList k = some f ∧ f ∈ F.toList ∧
      conforms f.ty f.nullable (TL.ofDM v) = true ∧
      lookupByString (normalize (.struct F r) (TL.ofDM (.map kvs))) k = .ok (normalize f.ty (TL.ofDM v))) ∧
    (∀ f ∈ F.toList, f.name ∉ kvs.keys → f.opt = true ∧
      lookupByString (normalize (.struct F r) (TL.ofDM (.map kvs))) f.name = .ok .absent) := by
  have hFnd := (Schema.wf_struct hwf).2.1
  have hc' : conformsStruct F.toList [] (TLKVs.ofDMKVs kvs) = true := by
    simpa [conforms, TL.ofDM] using hc
  obtain ⟨hnd, _, hent⟩ := conformsStruct_entries' F.toList _ [] hc'
  have hnd' : (kvs.toList.map (·.1)).Nodup := by
    simpa [ofDMKVs_toList, List.map_map, Function.comp_def] using hnd
  have hw : normalize (.struct F r) (TL.ofDM (.map kvs)) =
      .map (TLKVs.ofList (canonFields F.toList (kvs.toList.map (nfield F.toList)))) := by
    simp only [TL.ofDM, normalize, normalizeStruct_toList]
  rw [hw]
  refine ⟨?_, ?_, ?_, ?_⟩
  · simp [length, canonFields]
  · simp [keys, canonFields_keys]
  · intro k v hm
    have hm' : (k, TL.ofDM v) ∈ (TLKVs.ofDMKVs kvs).toList := by
      rw [ofDMKVs_toList]
      exact List.mem_map.2 ⟨(k, v), hm, rfl⟩
    obtain ⟨f, hf, hv⟩ := hent _ hm'
    simp only at hf hv
    have hfm : f ∈ F.toList := List.mem_of_find?_eq_some hf
    have hname : f.name = k := by simpa using List.find?_some hf
    rw [Schema.fieldValOK_ofDM] at hv
    refine ⟨f, hf, hfm, hv, ?_⟩
    have hL : (kvs.toList.map (nfield F.toList)).find? (fun e => e.1 == k) = some (nfield F.toList (k, v)) :=
      find_map_of_mem (nfield F.toList) (·.1) (fun _ => rfl) kvs.toList hnd' (k, v) hm
    have hcf := canonFields_find F.toList hFnd (kvs.toList.map (nfield F.toList)) hfm
    rw [hname] at hcf
    simp only [lookupByString, Schema.TLKVs.toList_ofList, hcf, hL, nfield, hf]
  · intro f hfm hk
    have hL : (kvs.toList.map (nfield F.toList)).find? (fun e => e.1 == f.name) = none :=
      find_map_none (nfield F.toList) (·.1) (fun _ => rfl) f.name kvs.toList hk
    have hcf := canonFields_find F.toList hFnd (kvs.toList.map (nfield F.toList)) hfm
    refine ⟨?_, ?_⟩
    · rcases Schema.conformsStruct_required F.toList _ [] hc' f hfm with h | h | h
      · exact h
      · cases h
      · exfalso
        apply hk
        simpa [ofDMKVs_toList, List.map_map, Function.comp_def, DMKVs.keys] using h
    · simp only [lookupByString, Schema.TLKVs.toList_ofList, hcf, hL]

theorem read_map {vty : Ty} {vnul nul : Bool} {kvs : DMKVs}
    (hc : conforms (.map vty vnul) nul (TL.ofDM (.map kvs)) = true) :
    length (normalize (.map vty vnul) (TL.ofDM (.map kvs))) = (kvs.toList.length : Int) ∧
    keys (normalize (.map vty vnul) (TL.ofDM (.map kvs))) = kvs.keys ∧
    kvs.keys.Nodup ∧
    (∀ k v, (k, v) ∈ kvs.toList → conforms vty vnul (TL.ofDM v) = true ∧
      lookupByString (normalize (.map vty vnul) (TL.ofDM (.map kvs))) k = .ok (normalize vty (TL.ofDM v))) ∧
    (∀ k, k ∉ kvs.keys →
      lookupByString (normalize (.map vty vnul) (TL.ofDM (.map kvs))) k = .error .notExists) := by
  have hc' : conformsMap vty vnul [] (TLKVs.ofDMKVs kvs) = true := by
    simpa [conforms, TL.ofDM] using hc
  obtain ⟨hnd, _, hent⟩ := conformsMap_entries vty vnul _ [] hc'
  have hnd' : (kvs.toList.map (·.1)).Nodup := by
    simpa [ofDMKVs_toList, List.map_map, Function.comp_def] using hnd
  have hw : normalize (.map vty vnul) (TL.ofDM (.map kvs)) = .map (normalizeMap vty (TLKVs.ofDMKVs kvs)) := by
    simp only [TL.ofDM, normalize]
  rw [hw]
  refine ⟨?_, ?_, hnd', ?_, ?_⟩
  · simp [length, normalizeMap_toList]
  · simp [keys, normalizeMap_toList, DMKVs.keys, List.map_map, Function.comp_def]
  · intro k v hm
    have hm' : (k, TL.ofDM v) ∈ (TLKVs.ofDMKVs kvs).toList := by
      rw [ofDMKVs_toList]
      exact List.mem_map.2 ⟨(k, v), hm, rfl⟩
    refine ⟨hent _ hm', ?_⟩
    have hL := find_map_of_mem (fun p : Bytes × DM => (p.1, normalize vty (TL.ofDM p.2))) (·.1) (fun _ => rfl)
      kvs.toList hnd' (k, v) hm
    simp only at hL
    simp only [lookupByString, normalizeMap_toList, hL]
  · intro k hk
    have hL := find_map_none (fun p : Bytes × DM => (p.1, normalize vty (TL.ofDM p.2))) (·.1) (fun _ => rfl) k
      kvs.toList hk
    simp only [lookupByString, normalizeMap_toList, hL]

theorem read_list {ety : Ty} {enul nul : Bool} {ys : DMs}
    (hc : conforms (.list ety enul) nul (TL.ofDM (.list ys)) = true) :
    length (normalize (.list ety enul) (TL.ofDM (.list ys))) = (ys.toList.length : Int) ∧
    elems (normalize (.list ety enul) (TL.ofDM (.list ys))) = ys.toList.map (fun y => normalize ety (TL.ofDM y)) ∧
    (∀ y ∈ ys.toList, conforms ety enul (TL.ofDM y) = true) ∧
    (∀ n : Nat, lookupByIndex (normalize (.list ety enul) (TL.ofDM (.list ys))) (n : Int) =
      match ys.toList[n]? with
      | some y => .ok (normalize ety (TL.ofDM y))
      | none => .error .notExists) := by
  have hc' : conformsList ety enul (TLs.ofDMs ys) = true := by
    simpa [conforms, TL.ofDM] using hc
  have hent := conformsList_elems ety enul _ hc'
  have hw : normalize (.list ety enul) (TL.ofDM (.list ys)) = .list (normalizeList ety (TLs.ofDMs ys)) := by
    simp only [TL.ofDM, normalize]
  rw [hw]
  refine ⟨?_, ?_, ?_, ?_⟩
  · simp [length, normalizeList_toList]
  · simp [elems, normalizeList_toList]
  · intro y hy
    apply hent
    rw [ofDMs_toList]
    exact List.mem_map_of_mem hy
  · intro n
    simp only [lookupByIndex, Int.toNat_natCast, normalizeList_toList, List.getElem?_map]
    rw [if_neg (by omega)]
    cases ys.toList[n]? <;> rfl

/-- a scalar is read back as it is, whatever the type -/
theorem read_scalar {ty : Ty} {d : DM} (hs : Asm.isScalar d = true) : normalize ty (TL.ofDM d) = TL.ofDM d := by
  cases d <;> first | rfl | simp [Asm.isScalar] at hs

end TRead

end TAsm
end Ipld
