/-
  What the walk's visit events are (`Reach`: the positions the walk can arrive at) and in which order they
  come (a parent position is visited before its children).
-/
import IpldModel.Lemmas.WalkInv
namespace Ipld
namespace Walk
open Sel

/-- positions (path, node, selector) the walk from `(root, s0)` can arrive at: the root; a non-link child
    the selector explores; the block behind a link child the selector explores -/
inductive Reach (cfg : Cfg) (root : DM) (s0 : S) : Path → DM → S → Prop
  | root : Reach cfg root s0 [] root s0
  | child {path n s ps v sNext} : Reach cfg root s0 path n s → (ps, v) ∈ childList n s →
      explore s n ps = .ok (some sNext) → (∀ c, v ≠ .link c) → Reach cfg root s0 (path ++ [ps]) v sNext
  | link {path n s ps c blk sNext} : Reach cfg root s0 path n s → (ps, .link c) ∈ childList n s →
      explore s n ps = .ok (some sNext) → storeGet cfg.store c = some blk → cfg.skip.contains c = false →
      Reach cfg root s0 (path ++ [ps]) blk sNext

/-- an event is a link load, or the visit event of a reachable position -/
def EventOk (cfg : Cfg) (root : DM) (s0 : S) (e : Event) : Prop :=
  (∃ c, e = .load c) ∨ ∃ path n s, Reach cfg root s0 path n s ∧ e = visitEvent path n s

theorem walk_events_ok (cfg : Cfg) (fuel : Nat) (nb lb : Option Int) (root : DM) (s : S) :
    ∀ e ∈ (walk cfg fuel nb lb root s).events, EventOk cfg root s e := by
  have h := (walk_inv cfg (fun _ path n s' => Reach cfg root s path n s') (fun es => ∀ e ∈ es, EventOk cfg root s e)
    (fun _ _ _ _ _ h => h)
    (fun es c hq e he => by
      rcases List.mem_cons.1 he with rfl | he
      · exact Or.inl ⟨c, rfl⟩
      · exact hq e he)
    (fun es path n s' hq hp e he => by
      rcases List.mem_cons.1 he with rfl | he
      · exact Or.inr ⟨path, n, s', hp, rfl⟩
      · exact hq e he)
    (fun es path n s' ps v sNext hp _ hm hx hnl => Reach.child hp hm hx hnl)
    (fun es path n s' ps c blk sNext hp _ hm hx hs hk => Reach.link hp hm hx hs hk) fuel).1
      false [] root s { nodeBudget := nb, linkBudget := lb } (by intro e he; cases he) Reach.root
  intro e he
  unfold walk at he
  simp only [List.mem_reverse] at he
  exact h e he

/-! ### document order -/

def isVisitAt (p : Path) : Event → Bool
  | .visit q _ _ => q == p
  | _ => false

/-- (most-recent-first log) every visit at a non-root path has a visit at the parent path before it -/
def DocOrdered : List Event → Prop
  | [] => True
  | e :: es =>
    (match e with
      | .visit q _ _ => q = [] ∨ es.any (isVisitAt q.dropLast) = true
      | .load _ => True) ∧ DocOrdered es

theorem visitEvent_isVisitAt (path : Path) (n : DM) (s : S) : isVisitAt path (visitEvent path n s) = true := by
  obtain ⟨m, r, h⟩ : ∃ m r, visitEvent path n s = .visit path m r := by
    unfold visitEvent; split <;> exact ⟨_, _, rfl⟩
  rw [h]; simp [isVisitAt]

theorem walk_docOrdered_rev (cfg : Cfg) (hs : cfg.startAt = []) (fuel : Nat) (nb lb : Option Int) (root : DM) (s : S) :
    DocOrdered (walkAdv cfg fuel false [] root s { nodeBudget := nb, linkBudget := lb }).1.events := by
  refine (walk_inv cfg (fun es path _ _ => path = [] ∨ es.any (isVisitAt path.dropLast) = true) DocOrdered
    ?_ ?_ ?_ ?_ ?_ fuel).1 false [] root s _ trivial (Or.inl rfl)
  · intro es new path n s' h
    rcases h with h | h
    · exact Or.inl h
    · right; rw [List.any_append, h, Bool.or_true]
  · intro es c hq; exact ⟨trivial, hq⟩
  · intro es path n s' hq hp
    refine ⟨?_, hq⟩
    obtain ⟨m, r, h⟩ : ∃ m r, visitEvent path n s' = .visit path m r := by
      unfold visitEvent; split <;> exact ⟨_, _, rfl⟩
    rw [h]; exact hp
  · intro es path n s' ps v sNext _ hv _ _ _
    right
    rw [List.dropLast_concat]
    exact List.any_eq_true.2 ⟨_, hv hs, visitEvent_isVisitAt ..⟩
  · intro es path n s' ps c blk sNext _ hv _ _ _ _
    right
    rw [List.dropLast_concat]
    exact List.any_eq_true.2 ⟨_, hv hs, visitEvent_isVisitAt ..⟩

/-- `DocOrdered` read chronologically -/
theorem docOrdered_chrono : ∀ (es : List Event), DocOrdered es →
    ∀ (a b : List Event) (p : Path) (seg : Seg) (m : DM) (r : Reason),
      es.reverse = a ++ .visit (p ++ [seg]) m r :: b → ∃ m' r', .visit p m' r' ∈ a
  | [], _, a, b, p, seg, m, r, h => by
    have := congrArg List.length h
    simp at this
  | e :: es, hd, a, b, p, seg, m, r, h => by
    obtain ⟨h1, h2⟩ := hd
    rw [List.reverse_cons] at h
    -- is the visit the last event (`e`) or an earlier one?
    rcases List.eq_nil_or_concat b with hb | ⟨b', x, hb⟩
    · subst hb
      have h' : es.reverse ++ [e] = a ++ [.visit (p ++ [seg]) m r] := h
      obtain ⟨ha, he⟩ := List.append_inj' h' rfl
      have he' : e = .visit (p ++ [seg]) m r := by simpa using he
      subst he'
      simp only [List.dropLast_concat] at h1
      rcases h1 with h1 | h1
      · simp at h1
      · obtain ⟨x, hx, hxa⟩ := List.any_eq_true.1 h1
        cases x with
        | load c => simp [isVisitAt] at hxa
        | visit q m' r' =>
          simp only [isVisitAt, beq_iff_eq] at hxa
          subst hxa
          exact ⟨m', r', by rw [← ha]; simpa using hx⟩
    · subst hb
      have h' : es.reverse ++ [e] = (a ++ .visit (p ++ [seg]) m r :: b') ++ [x] := by
        rw [h]; simp
      obtain ⟨ha, _⟩ := List.append_inj' h' rfl
      exact docOrdered_chrono es h2 a b' p seg m r ha

end Walk
end Ipld
