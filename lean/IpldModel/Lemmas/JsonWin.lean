/-
  The token window of the DAG-JSON decoder (`Win.un`) against its meaning (`unTok`): the window
  mechanism never over- or under-consumes.  The invariant is `safe (tk[0] :: window)`: an `arrOpen` can
  only sit in the last slot (so the list loop, which reads the source directly, finds the window empty),
  and a `mapOpen` that is not last is followed by a token other than `"/"` or by the last slot (so a
  nested lookahead that succeeds has consumed exactly the window).
-/
import IpldModel.Lemmas.JsonTok
set_option linter.unusedSimpArgs false
namespace Ipld
namespace Json

/-- both lookaheads in sequence, as `Win.un` runs them -/
def laChain (pl pb : Bool) (w : Win) : JR Look := do
  let a ← (if pl then w.linkLookahead else pure (.notIt w))
  match a with
  | .got v w' => pure (.got v w')
  | .notIt w1 => if pb then w1.bytesLookahead else pure (.notIt w1)

/-- the ordinary-map reading through the window -/
def winMapPart (cfg : DecCfg) (fuel depth : Nat) (w2 : Win) : JR (DM × Win) := do
  let (es, w') ← winMapLoop (Win.un cfg fuel (depth + 1)) (w2.buf.length + w2.src.length + 1) [] w2
  pure (.map (DMKVs.ofList es), w')

theorem Win_un_mapOpen (cfg : DecCfg) (fuel depth : Nat) (w : Win) :
    Win.un cfg (fuel + 1) depth .mapOpen w =
    (if depth ≥ cfg.maxDepth then .error .depth else do
      let la ← laChain cfg.parseLinks cfg.parseBytes w
      match la with
      | .got v w' => pure (v, w')
      | .notIt w2 => winMapPart cfg fuel depth w2) := by
  unfold Win.un laChain winMapPart
  by_cases hd : depth ≥ cfg.maxDepth
  · simp [hd]
  simp only [hd, if_false]
  cases cfg.parseLinks
  · simp only [Bool.false_eq_true, if_false, pure, Except.pure, bind, Except.bind]
    cases cfg.parseBytes
    · simp
    · simp only [if_true]
      cases w.bytesLookahead with
      | error e => rfl
      | ok a => cases a <;> rfl
  · simp only [if_true, bind, Except.bind]
    cases w.linkLookahead with
    | error e => rfl
    | ok a =>
      cases a with
      | got v w' => rfl
      | notIt w1 =>
        simp only [pure, Except.pure]
        cases cfg.parseBytes
        · simp
        · simp only [if_true]
          cases w1.bytesLookahead with
          | error e => rfl
          | ok a => cases a <;> rfl

def laSpec (pl pb : Bool) (toks : List JTok) (m : Nat) : JR Look :=
  match classify pl pb toks with
  | .eof => .error .eof
  | .link s => (match cidParse s with | some c => .ok (.got (.link c) ⟨[], toks.drop 3⟩) | none => .error .badCid)
  | .bytes s => (match decodeB64 s with | some b => .ok (.got (.bytes b) ⟨[], toks.drop 6⟩) | none => .error .badBase64)
  | .plain n => .ok (.notIt ⟨toks.take (max m n), toks.drop (max m n)⟩)

macro "wt" : tactic => `(tactic| (constructor <;> simp [laChain, laSpec, Win.linkLookahead, Win.bytesLookahead, Win.ensure, classify, cls2, clsL3, clsB3, clsB4, clsB5, clsB6, bind, Except.bind, pure, Except.pure]))
macro "wt'" : tactic => `(tactic| (constructor <;> simp [*, laChain, laSpec, Win.linkLookahead, Win.bytesLookahead, Win.ensure, classify, cls2, clsL3, clsB3, clsB4, clsB5, clsB6, bind, Except.bind, pure, Except.pure]))

macro "wt" : tactic => `(tactic| (constructor <;> simp [laChain, laSpec, Win.linkLookahead, Win.bytesLookahead, Win.ensure, classify, cls2, clsL3, clsB3, clsB4, clsB5, clsB6, bind, Except.bind, pure, Except.pure]))
macro "wt'" : tactic => `(tactic| (constructor <;> simp [*, laChain, laSpec, Win.linkLookahead, Win.bytesLookahead, Win.ensure, classify, cls2, clsL3, clsB3, clsB4, clsB5, clsB6, bind, Except.bind, pure, Except.pure]))

theorem laChain_small (pl pb : Bool) (t1 : JTok) (r1 : List JTok) :
    laChain pl pb ⟨[], t1 :: r1⟩ = laSpec pl pb (t1 :: r1) 0 ∧
    laChain pl pb ⟨[t1], r1⟩ = laSpec pl pb (t1 :: r1) 1 := by
  cases t1 <;> try (cases pl <;> cases pb <;> wt; done)
  rename_i k
  by_cases hk : k = slash
  rotate_left
  · cases pl <;> cases pb <;> wt'
  subst hk
  rcases r1 with _ | ⟨t2, r2⟩
  · cases pl <;> cases pb <;> wt
  cases t2 <;> try (cases pl <;> cases pb <;> wt; done)
  · -- t2 = mapOpen
    cases pb
    · cases pl <;> wt
    rcases r2 with _ | ⟨t3, r3⟩
    · cases pl <;> wt
    cases t3 <;> try (cases pl <;> wt; done)
    rename_i k2
    by_cases hk2 : k2 = bytesWord
    rotate_left
    · cases pl <;> wt'
    subst hk2
    rcases r3 with _ | ⟨t4, r4⟩
    · cases pl <;> wt
    cases t4 <;> try (cases pl <;> wt; done)
    rename_i s
    rcases r4 with _ | ⟨t5, r5⟩
    · cases pl <;> wt
    cases t5 <;> try (cases pl <;> wt; done)
    rcases r5 with _ | ⟨t6, r6⟩
    · cases pl <;> wt
    cases t6 <;> (cases pl <;> wt) <;> (cases decodeB64 s <;> rfl)
  · -- t2 = str s
    rename_i s
    cases pl
    · cases pb <;> wt
    rcases r2 with _ | ⟨t3, r3⟩
    · cases pb <;> wt
    cases t3 <;> (cases pb <;> wt) <;> (cases cidParse s <;> rfl)
theorem take_big (b src : List JTok) (n : Nat) (h : n ≤ b.length) :
    List.take (max b.length n) (b ++ src) = b ∧ List.drop (max b.length n) (b ++ src) = src := by
  rw [Nat.max_eq_left h]; simp

theorem laChain_eq (pl pb : Bool) (w : Win)
    (hpre : w.buf.length ≤ 1 ∨ (∃ t b, w.buf = t :: b ∧ t ≠ .str slash)) :
    laChain pl pb w = laSpec pl pb (w.buf ++ w.src) w.buf.length := by
  obtain ⟨buf, src⟩ := w
  rcases buf with _ | ⟨t1, _ | ⟨t2, b⟩⟩
  · rcases src with _ | ⟨t1, r1⟩
    · cases pl <;> cases pb <;> wt'
    · exact (laChain_small pl pb t1 r1).1
  · exact (laChain_small pl pb t1 src).2
  · have hne : t1 ≠ .str slash := by
      rcases hpre with h | ⟨t, b', h1, h2⟩
      · simp at h
      · simp at h1; rw [h1.1]; exact h2
    have h0 := take_big (t1 :: t2 :: b) src 0 (by simp)
    have h1 := take_big (t1 :: t2 :: b) src 1 (by simp)
    simp only [List.cons_append, List.length_cons] at h0 h1 ⊢
    cases t1 <;> try (cases pl <;> cases pb <;> simp [laChain, laSpec, Win.linkLookahead, Win.bytesLookahead, Win.ensure, classify, bind, Except.bind, pure, Except.pure, h0, h1]; done)
    rename_i k
    have hk : k ≠ slash := fun h => hne (by rw [h])
    cases pl <;> cases pb <;> simp [laChain, laSpec, Win.linkLookahead, Win.bytesLookahead, Win.ensure, classify, bind, Except.bind, pure, Except.pure, h0, h1, hk]

/-- progress of the window: either emptied, or a suffix of what it was with the source untouched -/
def Adv (w w' : Win) : Prop := w'.buf = [] ∨ (w'.buf <:+ w.buf ∧ w'.src = w.src)

theorem Adv.refl (w : Win) : Adv w w := Or.inr ⟨List.suffix_refl _, rfl⟩

theorem Adv.trans {a b c : Win} (h1 : Adv a b) (h2 : Adv b c) : Adv a c := by
  rcases h2 with h2 | ⟨h2, h2'⟩
  · exact Or.inl h2
  · rcases h1 with h1 | ⟨h1, h1'⟩
    · rw [h1] at h2
      exact Or.inl (List.suffix_nil.mp h2)
    · exact Or.inr ⟨h2.trans h1, h2'.trans h1'⟩

theorem safe_tail (t : JTok) (l : List JTok) (h : safe (t :: l) = true) : safe l = true := by
  rcases l with _ | ⟨t2, l⟩
  · rfl
  · cases t <;> simp_all [safe]

theorem safe_suffix {l l' : List JTok} (hs : l' <:+ l) (h : safe l = true) : safe l' = true := by
  obtain ⟨pre, rfl⟩ := hs
  induction pre with
  | nil => simpa using h
  | cons t pre ih => exact ih (safe_tail t _ h)

theorem Adv.safe {w w' : Win} (a : Adv w w') (h : safe w.buf = true) : safe w'.buf = true := by
  rcases a with a | ⟨a, _⟩
  · rw [a]; rfl
  · exact safe_suffix a h

theorem Adv.len {w w' : Win} (a : Adv w w') (h : w.buf.length ≤ 6) : w'.buf.length ≤ 6 := by
  rcases a with a | ⟨a, _⟩
  · rw [a]; simp
  · exact Nat.le_trans a.length_le h

theorem step_ok {w w1 : Win} {t : JTok} (h : w.step = .ok (t, w1)) :
    (w.buf = [] ∧ w1.buf = [] ∧ w.src = t :: w1.src) ∨ (w.buf = t :: w1.buf ∧ w1.src = w.src) := by
  obtain ⟨buf, src⟩ := w
  unfold Win.step at h
  rcases buf with _ | ⟨b, bs⟩
  · rcases src with _ | ⟨s, ss⟩
    · simp at h
    · simp at h
      obtain ⟨rfl, rfl⟩ := h
      simp
  · simp only at h
    split at h
    · simp at h
      obtain ⟨rfl, rfl⟩ := h
      simp
    · simp at h

theorem step_err {w : Win} {e : JErr} (hl : w.buf.length ≤ 6) (h : w.step = .error e) :
    e = .eof ∧ w.buf = [] ∧ w.src = [] := by
  obtain ⟨buf, src⟩ := w
  unfold Win.step at h
  rcases buf with _ | ⟨b, bs⟩
  · rcases src with _ | ⟨s, ss⟩
    · simp at h; simp [h]
    · simp at h
  · simp only [List.length_cons] at h hl
    have : bs.length ≤ 5 := by omega
    simp [this] at h

theorem step_toks {w w1 : Win} {t : JTok} (h : w.step = .ok (t, w1)) :
    w.buf ++ w.src = t :: (w1.buf ++ w1.src) := by
  rcases step_ok h with ⟨a, b, c⟩ | ⟨a, b⟩
  · simp [a, b, c]
  · simp [a, b]

theorem step_adv {w w1 : Win} {t : JTok} (h : w.step = .ok (t, w1)) : Adv w w1 := by
  rcases step_ok h with ⟨a, b, c⟩ | ⟨a, b⟩
  · exact Or.inl b
  · exact Or.inr ⟨by rw [a]; exact List.suffix_cons _ _, b⟩

theorem step_safe {w w1 : Win} {t : JTok} (h : w.step = .ok (t, w1)) (hs : safe w.buf = true) :
    safe (t :: w1.buf) = true := by
  rcases step_ok h with ⟨a, b, c⟩ | ⟨a, b⟩
  · rw [b]; rfl
  · rw [← a]; exact hs

/-- agreement of a window computation with a token-list computation -/
def RelG {α : Type} (w : Win) (a : JR (α × Win)) (b : JR (α × List JTok)) : Prop :=
  match a, b with
  | .error e, .error e' => e = e'
  | .ok (v, w'), .ok (v', r) => v = v' ∧ w'.buf ++ w'.src = r ∧ Adv w w'
  | _, _ => False

def ItemRel (iw : JTok → Win → JR (DM × Win)) (it : List JTok → JR (DM × List JTok)) : Prop :=
  ∀ cur w, safe (cur :: w.buf) = true → w.buf.length ≤ 6 → RelG w (iw cur w) (it (cur :: (w.buf ++ w.src)))

theorem winMapLoop_rel (iw : JTok → Win → JR (DM × Win)) (it : List JTok → JR (DM × List JTok))
    (hi : ItemRel iw it) : ∀ (lf : Nat) (seen : List Bytes) (w : Win), safe w.buf = true → w.buf.length ≤ 6 →
    RelG w (winMapLoop iw lf seen w) (unMapLoop it lf seen (w.buf ++ w.src))
  | 0, _, _, _, _ => by simp [winMapLoop, unMapLoop, RelG]
  | lf + 1, seen, w, hs, hl => by
    unfold winMapLoop unMapLoop
    simp only [bind, Except.bind]
    cases h1 : w.step with
    | error e =>
      obtain ⟨rfl, a, b⟩ := step_err hl h1
      simp [a, b, RelG]
    | ok p =>
      obtain ⟨t, w1⟩ := p
      rw [step_toks h1]
      have hs1 := step_safe h1 hs
      have a1 := step_adv h1
      have hl1 := a1.len hl
      cases t <;> try (simp [RelG]; done)
      · -- mapClose
        simp [RelG, pure, Except.pure, a1]
      · -- str k
        rename_i k
        simp only
        split
        · simp [RelG]
        cases h2 : w1.step with
        | error e =>
          obtain ⟨rfl, a, b⟩ := step_err hl1 h2
          simp [a, b, RelG]
        | ok p2 =>
          obtain ⟨t2, w2⟩ := p2
          rw [step_toks h2]
          have hs2 := step_safe h2 (safe_tail _ _ hs1)
          have a2 := step_adv h2
          have hl2 := a2.len hl1
          have hit := hi t2 w2 hs2 hl2
          simp only
          cases h3 : iw t2 w2 with
          | error e =>
            cases h3' : it (t2 :: (w2.buf ++ w2.src)) with
            | error e' => rw [h3, h3'] at hit; simpa [RelG] using hit
            | ok q => rw [h3, h3'] at hit; simp [RelG] at hit
          | ok p3 =>
            obtain ⟨v, w3⟩ := p3
            cases h3' : it (t2 :: (w2.buf ++ w2.src)) with
            | error e' => rw [h3, h3'] at hit; simp [RelG] at hit
            | ok q =>
              obtain ⟨v', r3⟩ := q
              rw [h3, h3'] at hit
              obtain ⟨rfl, rfl, a3⟩ := hit
              have hs3 := a3.safe (safe_tail _ _ hs2)
              have hl3 := a3.len hl2
              have ih := winMapLoop_rel iw it hi lf (k :: seen) w3 hs3 hl3
              simp only
              cases h4 : winMapLoop iw lf (k :: seen) w3 with
              | error e =>
                cases h4' : unMapLoop it lf (k :: seen) (w3.buf ++ w3.src) with
                | error e' => rw [h4, h4'] at ih; simpa [RelG] using ih
                | ok q => rw [h4, h4'] at ih; simp [RelG] at ih
              | ok p4 =>
                obtain ⟨es, w4⟩ := p4
                cases h4' : unMapLoop it lf (k :: seen) (w3.buf ++ w3.src) with
                | error e' => rw [h4, h4'] at ih; simp [RelG] at ih
                | ok q =>
                  obtain ⟨es', r4⟩ := q
                  rw [h4, h4'] at ih
                  obtain ⟨rfl, rfl, a4⟩ := ih
                  simp only [RelG, pure, Except.pure]
                  exact ⟨trivial, trivial, ((a1.trans a2).trans a3).trans a4⟩


theorem winListLoop_rel (iw : JTok → Win → JR (DM × Win)) (it : List JTok → JR (DM × List JTok))
    (hi : ItemRel iw it) : ∀ (lf : Nat) (w : Win), w.buf = [] →
    RelG w (winListLoop iw lf w) (unListLoop it lf (w.buf ++ w.src))
  | 0, _, _ => by simp [winListLoop, unListLoop, RelG]
  | lf + 1, w, hb => by
    obtain ⟨buf, src⟩ := w
    simp only at hb
    subst hb
    unfold winListLoop unListLoop
    simp only [bind, Except.bind, Win.stepSrc, List.nil_append]
    rcases src with _ | ⟨t, s⟩
    · simp [RelG]
    have hit := hi t ⟨[], s⟩ (by rfl) (by simp)
    simp only [List.nil_append] at hit
    simp only []
    revert hit
    generalize iw t ⟨[], s⟩ = A
    generalize it (t :: s) = B
    intro hit
    cases t
    case arrClose => simp [RelG, pure, Except.pure, Adv]
    all_goals
      simp only
      cases A with
      | error e =>
        cases B with
        | error e' => simpa [RelG] using hit
        | ok q => simp [RelG] at hit
      | ok p3 =>
        obtain ⟨v, w3⟩ := p3
        cases B with
        | error e' => simp [RelG] at hit
        | ok q =>
          obtain ⟨v', r3⟩ := q
          obtain ⟨rfl, rfl, a3⟩ := hit
          have hb3 : w3.buf = [] := by
            rcases a3 with a | ⟨a, _⟩
            · exact a
            · exact List.suffix_nil.mp a
          have ih := winListLoop_rel iw it hi lf w3 hb3
          simp only
          revert ih
          generalize winListLoop iw lf w3 = A2
          generalize unListLoop it lf (w3.buf ++ w3.src) = B2
          intro ih
          cases A2 with
          | error e =>
            cases B2 with
            | error e' => simpa [RelG] using ih
            | ok q => simp [RelG] at ih
          | ok p4 =>
            obtain ⟨xs, w4⟩ := p4
            cases B2 with
            | error e' => simp [RelG] at ih
            | ok q =>
              obtain ⟨xs', r4⟩ := q
              obtain ⟨rfl, rfl, a4⟩ := ih
              simp only [RelG, pure, Except.pure]
              refine ⟨trivial, trivial, Or.inl ?_⟩
              rcases a4 with a | ⟨a, _⟩
              · exact a
              · rw [hb3] at a; exact List.suffix_nil.mp a


theorem safe_mapOpen_pre {buf : List JTok} (hs : safe (.mapOpen :: buf) = true) :
    buf.length ≤ 1 ∨ (∃ t b, buf = t :: b ∧ t ≠ .str slash) := by
  rcases buf with _ | ⟨t1, _ | ⟨t2, b⟩⟩
  · simp
  · simp
  · right
    refine ⟨t1, t2 :: b, rfl, ?_⟩
    simp [safe] at hs
    exact hs.1

theorem un_rel (cfg : DecCfg) : ∀ (fuel depth : Nat), ItemRel (Win.un cfg fuel depth) (unTok cfg fuel depth)
  | 0, _ => by intro cur w _ _; simp [Win.un, unTok, RelG]
  | fuel + 1, depth => by
    intro cur w hs hl
    cases cur
    case arrOpen =>
      have hb : w.buf = [] := by
        rcases hw : w.buf with _ | ⟨t, b⟩
        · rfl
        · rw [hw] at hs; simp [safe] at hs
      unfold Win.un unTok
      by_cases hd : depth ≥ cfg.maxDepth
      · simp [hd, RelG]
      simp only [hd, if_false, bind, Except.bind]
      have ih := winListLoop_rel _ _ (un_rel cfg fuel (depth + 1)) (w.buf.length + w.src.length + 1) w hb
      have e : (w.buf ++ w.src).length + 1 = w.buf.length + w.src.length + 1 := by simp
      rw [e]
      revert ih
      generalize winListLoop (Win.un cfg fuel (depth + 1)) (w.buf.length + w.src.length + 1) w = A
      generalize unListLoop (unTok cfg fuel (depth + 1)) (w.buf.length + w.src.length + 1) (w.buf ++ w.src) = B
      intro ih
      cases A with
      | error e =>
        cases B with
        | error e' => simpa [RelG] using ih
        | ok q => simp [RelG] at ih
      | ok p =>
        obtain ⟨xs, w'⟩ := p
        cases B with
        | error e' => simp [RelG] at ih
        | ok q =>
          obtain ⟨xs', r⟩ := q
          obtain ⟨rfl, rfl, a⟩ := ih
          simp only [RelG, pure, Except.pure]
          exact ⟨trivial, trivial, a⟩
    case mapOpen =>
      rw [Win_un_mapOpen, unTok_mapOpen]
      by_cases hd : depth ≥ cfg.maxDepth
      · simp [hd, RelG]
      simp only [hd, if_false]
      rw [laChain_eq _ _ w (safe_mapOpen_pre hs)]
      unfold laSpec
      have hspec := classify_spec cfg.parseLinks cfg.parseBytes (w.buf ++ w.src)
      cases hc : classify cfg.parseLinks cfg.parseBytes (w.buf ++ w.src) with
      | eof => simp [RelG, bind, Except.bind]
      | link s => cases hcp : cidParse s <;> simp [hcp, RelG, bind, Except.bind, pure, Except.pure, Adv]
      | bytes s => cases hcp : decodeB64 s <;> simp [hcp, RelG, bind, Except.bind, pure, Except.pure, Adv]
      | plain n =>
        rw [hc] at hspec
        obtain ⟨hn6, hnl, hsafe, hext⟩ := hspec
        simp only [bind, Except.bind]
        generalize hM : max w.buf.length n = M
        generalize hW : List.take M (w.buf ++ w.src) = W'
        generalize hS : List.drop M (w.buf ++ w.src) = src'
        have htoks : W' ++ src' = w.buf ++ w.src := by rw [← hW, ← hS]; exact List.take_append_drop _ _
        have hbuf := safe_tail _ _ hs
        have hWsafe : safe W' = true := by
          by_cases hnm : n ≤ w.buf.length
          · have := (take_big w.buf w.src n hnm).1
            rw [hM, hW] at this; rw [this]; exact hbuf
          · have : M = n := by omega
            rw [← hW, this]; exact hsafe
        have hWlen : W'.length ≤ 6 := by
          rw [← hW, List.length_take]; omega
        have ih := winMapLoop_rel _ _ (un_rel cfg fuel (depth + 1)) (W'.length + src'.length + 1) []
          ⟨W', src'⟩ hWsafe hWlen
        simp only [htoks] at ih
        unfold winMapPart asMap
        simp only [bind, Except.bind]
        have e : (w.buf ++ w.src).length + 1 = W'.length + src'.length + 1 := by
          rw [← htoks]; simp
        rw [e]
        cases hA : winMapLoop (Win.un cfg fuel (depth + 1)) (W'.length + src'.length + 1) [] ⟨W', src'⟩ with
        | error e =>
          cases hB : unMapLoop (unTok cfg fuel (depth + 1)) (W'.length + src'.length + 1) [] (w.buf ++ w.src) with
          | error e' => rw [hA, hB] at ih; simpa [RelG] using ih
          | ok q => rw [hA, hB] at ih; simp [RelG] at ih
        | ok p =>
          obtain ⟨es, w'⟩ := p
          cases hB : unMapLoop (unTok cfg fuel (depth + 1)) (W'.length + src'.length + 1) [] (w.buf ++ w.src) with
          | error e' => rw [hA, hB] at ih; simp [RelG] at ih
          | ok q =>
            obtain ⟨es', r⟩ := q
            rw [hA, hB] at ih
            obtain ⟨rfl, hr, a⟩ := ih
            simp only [RelG, pure, Except.pure]
            refine ⟨trivial, hr, ?_⟩
            by_cases hnm : n ≤ w.buf.length
            · have h1 := take_big w.buf w.src n hnm
              rw [hM, hW, hS] at h1
              rcases a with a | ⟨a1, a2⟩
              · exact Or.inl a
              · simp only at a1 a2
                exact Or.inr ⟨h1.1 ▸ a1, h1.2 ▸ a2⟩
            · have hMn : M = n := by omega
              rcases a with a | ⟨a1, a2⟩
              · exact Or.inl a
              · left
                obtain ⟨k, hk1, hk2⟩ := unMapLoop_extent _ (unTok_extent cfg fuel (depth + 1)) _ _ _ _ _ hB
                have hnk := hext k hk1
                simp only at a2
                have l1 : r.length = (w.buf ++ w.src).length - k := by rw [hk2]; simp
                have l2 : src'.length = (w.buf ++ w.src).length - n := by rw [← hS, hMn]; simp
                have l3 : r.length = w'.buf.length + w'.src.length := by rw [← hr]; simp
                rw [a2] at l3
                have : w'.buf.length = 0 := by omega
                exact List.length_eq_zero_iff.mp this
    all_goals simp [Win.un, unTok, RelG, Adv.refl]


theorem decodeToksWin_eq (cfg : DecCfg) (toks : List JTok) : decodeToksWin cfg toks = decodeToks cfg toks := by
  unfold decodeToksWin decodeToks
  rcases toks with _ | ⟨t, rest⟩
  · simp [unTok, bind, Except.bind]
  have h := un_rel cfg ((t :: rest).length + 1) 0 t ⟨[], rest⟩ (by rfl) (by simp)
  simp only [List.nil_append, bind, Except.bind] at h ⊢
  revert h
  generalize Win.un cfg ((t :: rest).length + 1) 0 t ⟨[], rest⟩ = A
  generalize unTok cfg ((t :: rest).length + 1) 0 (t :: rest) = B
  intro h
  cases A with
  | error e =>
    cases B with
    | error e' => simp [RelG] at h; simp [h]
    | ok q => simp [RelG] at h
  | ok p =>
    obtain ⟨v, w'⟩ := p
    cases B with
    | error e' => simp [RelG] at h
    | ok q =>
      obtain ⟨v', r⟩ := q
      obtain ⟨rfl, rfl, _⟩ := h
      simp only
      cases cfg.dontParseBeyondEnd
      · simp only [Bool.false_eq_true, if_false]
        cases hb : w'.buf <;> cases hs : w'.src <;> simp
      · simp

end Json
end Ipld
