package checks

import (
	"bytes"
	"context"
	"encoding/hex"
	"errors"
	"fmt"
	"io"
	"os"
	"os/exec"
	"os/signal"
	"path/filepath"
	"strings"
	"sync"
	"syscall"
	"time"

	"github.com/ipld/go-ipld-prime/storage"
	"github.com/ipld/go-ipld-prime/storage/fsstore"

	"verif/internal/core"
)

// C18 — filesystem store writes are atomic: a key is absent or complete, never partial.
//
//   (D) correspondence: the hook-point trace of real puts (shard directory present / absent) == the operation sequence of
//                       the Lean writer model (`store.trace`)
//   (O) oracle        : (i) a child process writing to the store is stopped (os.Exit inside the hook, i.e. no deferred
//                       cleanup) at every hook point of Put, and between the chunk writes of PutStream; (ii) a failure is
//                       injected at every hook point; (iii) writers of the same and of different keys race with readers
//                       (goroutines); (iv, thorough) child writers are SIGKILLed at random instants.  After each: every key is
//                       absent or holds exactly the content committed for it, a concurrent reader never saw anything else,
//                       and a fresh Store on the same directory accepts puts and gets.

func init() {
	core.Register(&core.Check{ID: "C18", Run: runC18, Replay: replayC18})
}

var errInjectedFS = errors.New("verif: injected filesystem failure")

var hookPoints = []string{"staged", "before-write", "before-close", "closed", "before-rename", "before-mkdir", "before-rename-retry", "renamed"}

func newFsStore(dir string) (*fsstore.Store, error) {
	st := &fsstore.Store{}
	if err := st.InitDefaults(dir); err != nil {
		return nil, err
	}
	return st, nil
}

// FsChild is the body of the child process (`vcheck-bin fs-child …`).
//
//	kill <dir> <keyhex> <contenthex> <point> <nth>      Put; os.Exit(137) at the nth time <point> is reached
//	stream <dir> <keyhex> <contenthex> <chunks> <after> PutStream in <chunks> writes; os.Exit(137) after <after> of them (no commit)
//	loop <dir> <seed>                                   put derived keys forever (the parent SIGKILLs)
func FsChild(args []string) int {
	if len(args) < 2 {
		return 2
	}
	mode, dir := args[0], args[1]
	st, err := newFsStore(dir)
	if err != nil {
		fmt.Fprintln(os.Stderr, err)
		return 3
	}
	ctx := context.Background()
	switch mode {
	case "kill":
		key, _ := hex.DecodeString(args[2])
		content, _ := hex.DecodeString(args[3])
		point := args[4]
		var nth int
		fmt.Sscan(args[5], &nth)
		seen := 0
		fsstore.VerifHook = func(p string, _ ...string) error {
			if p == point {
				seen++
				if seen == nth {
					os.Exit(137)
				}
			}
			return nil
		}
		if err := st.Put(ctx, string(key), content); err != nil {
			return 4
		}
		return 0
	case "stream":
		key, _ := hex.DecodeString(args[2])
		content, _ := hex.DecodeString(args[3])
		var chunks, after int
		fmt.Sscan(args[4], &chunks)
		fmt.Sscan(args[5], &after)
		w, commit, err := st.PutStream(ctx)
		if err != nil {
			return 4
		}
		sz := (len(content) + chunks - 1) / max(chunks, 1)
		for i := 0; i < chunks; i++ {
			if i == after {
				os.Exit(137)
			}
			lo, hi := min(i*sz, len(content)), min((i+1)*sz, len(content))
			if _, err := w.Write(content[lo:hi]); err != nil {
				return 4
			}
		}
		if after >= chunks+1 {
			return 0 // abandoned without commit
		}
		if err := commit(string(key)); err != nil {
			return 4
		}
		return 0
	case "efbig":
		// real write failures from the OS: the file size limit of this process is <limit> bytes and SIGXFSZ is ignored, so
		// a write crossing the limit fails with EFBIG (possibly after a short write).  Puts and streams of sizes around the
		// limit; one line per operation: <keyhex> <len> ok|err
		var limit, seed uint64
		fmt.Sscan(args[2], &limit)
		fmt.Sscan(args[3], &seed)
		signal.Ignore(syscall.SIGXFSZ)
		if err := syscall.Setrlimit(syscall.RLIMIT_FSIZE, &syscall.Rlimit{Cur: limit, Max: limit}); err != nil {
			fmt.Fprintln(os.Stderr, err)
			return 3
		}
		r := core.NewRand(seed, "c18-efbig")
		for i := 0; i < 12; i++ {
			size := int(limit) - 3 + r.Intn(7)
			switch r.Intn(4) {
			case 0:
				size = r.Intn(int(limit) + 1)
			case 1:
				size = int(limit) + 1 + r.Intn(3*int(limit)+70000)
			}
			if size < 0 {
				size = 0
			}
			key := fmt.Sprintf("efbig-%d-%d", seed, i)
			content := efbigContent(seed, i, size)
			var err error
			if form := r.Intn(3); form == 0 {
				err = st.Put(ctx, key, content)
			} else if form == 1 {
				// the vector form (the store has none of its own: the generic helper drives its stream)
				var vec [][]byte
				for lo := 0; lo < len(content); {
					hi := min(lo+1+r.Intn(4000), len(content))
					vec = append(vec, content[lo:hi])
					lo = hi
				}
				err = storage.PutVec(ctx, st, key, vec)
			} else {
				var w io.Writer
				var commit func(string) error
				if w, commit, err = st.PutStream(ctx); err == nil {
					chunk := 1 + r.Intn(5000)
					for lo := 0; lo < len(content) && err == nil; lo += chunk {
						_, err = w.Write(content[lo:min(lo+chunk, len(content))])
					}
					if err == nil {
						err = commit(key)
					} else {
						commit("")
					}
				}
			}
			res := "ok"
			if err != nil {
				res = "err"
			}
			fmt.Printf("%s %d %s\n", hex.EncodeToString([]byte(key)), size, res)
		}
		return 0
	case "exdev":
		// the staging directory lies on ANOTHER file system (the parent made <dir>/.temp a symlink), so the final rename
		// fails with EXDEV; and from the moment the stream is complete the file size limit is <limit>, so that anything
		// that tried to copy the staged file into place instead would be cut off by the OS.  One line per operation.
		var limit, seed uint64
		fmt.Sscan(args[2], &limit)
		fmt.Sscan(args[3], &seed)
		signal.Ignore(syscall.SIGXFSZ)
		var old syscall.Rlimit
		syscall.Getrlimit(syscall.RLIMIT_FSIZE, &old)
		r := core.NewRand(seed, "c18-exdev")
		for i := 0; i < 6; i++ {
			size := int(limit) + 1 + r.Intn(3*int(limit)+5000)
			key := fmt.Sprintf("exdev-%d-%d", seed, i)
			content := efbigContent(seed, i, size)
			w, commit, err := st.PutStream(ctx)
			if err == nil {
				_, err = w.Write(content)
			}
			if err == nil {
				syscall.Setrlimit(syscall.RLIMIT_FSIZE, &syscall.Rlimit{Cur: limit, Max: old.Max})
				err = commit(key)
				syscall.Setrlimit(syscall.RLIMIT_FSIZE, &old)
			}
			res := "ok"
			if err != nil {
				res = "err"
			}
			fmt.Printf("%s %d %s\n", hex.EncodeToString([]byte(key)), size, res)
		}
		return 0
	case "loop":
		var seed uint64
		fmt.Sscan(args[2], &seed)
		for i := 0; ; i++ {
			k, v := c18KV(seed, i%40)
			st.Put(ctx, k, v)
		}
	}
	return 2
}

func efbigContent(seed uint64, i, size int) []byte {
	return core.NewRand(seed, fmt.Sprintf("c18-efbig-content-%d", i)).Bytes(size)
}

// the content committed for key number i of a seed (write-once: a key always gets the same content)
func c18KV(seed uint64, i int) (string, []byte) {
	r := core.NewRand(seed, fmt.Sprintf("c18-key-%d", i))
	return string(r.Bytes(4 + r.Intn(8))), r.Bytes(1 + r.Intn(6000))
}

// inspect: with a fresh Store, every candidate key is absent or complete; the store accepts a new put and get.
func c18Inspect(c *core.Ctx, dir string, committed map[string][]byte, caseID string) {
	st, err := newFsStore(dir)
	if err != nil {
		c.Fail("C18/store-unusable-after-crash", core.Replay{Kind: "oracle", Case: caseID, Impl: err.Error(), Detail: "cannot re-open the store directory"})
		return
	}
	ctx := context.Background()
	for k, want := range committed {
		has, _ := st.Has(ctx, k)
		got, err := st.Get(ctx, k)
		if !has && err != nil {
			c.Dist("after:absent")
			continue
		}
		if err != nil || !bytes.Equal(got, want) {
			c.Fail("C18/partial-or-mixed-block", core.Replay{Kind: "oracle", Case: caseID, Impl: fmt.Sprintf("has=%v len=%d err=%v", has, len(got), err), Expected: fmt.Sprintf("absent, or the complete %d bytes", len(want)),
				Detail: "key " + hex.EncodeToString([]byte(k))})
			continue
		}
		c.Dist("after:complete")
	}
	nk, nv := "fresh-key-after", []byte("fresh content")
	if err := st.Put(ctx, nk, nv); err != nil {
		c.Fail("C18/store-unusable-after-crash", core.Replay{Kind: "oracle", Case: caseID, Impl: err.Error(), Detail: "put on the re-opened store fails"})
		return
	}
	if got, err := st.Get(ctx, nk); err != nil || !bytes.Equal(got, nv) {
		c.Fail("C18/store-unusable-after-crash", core.Replay{Kind: "oracle", Case: caseID, Impl: fmt.Sprint(err), Detail: "get on the re-opened store fails"})
	}
	// an interrupted put of the same key can be repeated and then reads back complete
	for k, want := range committed {
		if err := st.Put(ctx, k, want); err != nil {
			c.Fail("C18/put-after-crash-fails", core.Replay{Kind: "oracle", Case: caseID, Impl: err.Error()})
		} else if got, err := st.Get(ctx, k); err != nil || !bytes.Equal(got, want) {
			c.Fail("C18/put-after-crash-not-complete", core.Replay{Kind: "oracle", Case: caseID, Impl: fmt.Sprint(len(got), err)})
		}
		break
	}
}

func selfExe() string {
	p, err := os.Executable()
	if err != nil {
		return os.Args[0]
	}
	return p
}

func runC18(c *core.Ctx) error {
	c.Rule = "for keys with and without an existing shard directory: a child process stopped at every hook point of Put (staged, before-write, before-close, closed, before-rename, before-mkdir, before-rename-retry, renamed) and between the chunk writes of PutStream, an abandoned stream; a failure injected at every hook point; goroutine races of writers (same key and different keys) with readers; thorough: child writers SIGKILLed at random instants; non-trivial = a fault or race case; distinct by (fault kind, point, occurrence, directory state)"
	c.Explanation = "theorems on the inode-level model: atomic_inv (every destination name refers to a sealed inode holding the complete committed content, in every reachable state of any number of writers under any schedule with crashes and failures), reader_sees_complete, crash_usable; fact: the order of filesystem calls in fsstore.go"
	c.Assumptions = []string{"rename(2) is atomic and replaces the destination; data written before rename is visible to readers that open the destination afterwards", "power loss with un-synced data is outside the model (the code omits fsync on purpose)", "a single write(2) is not interrupted half-way by the simulated stop (the process is stopped between library calls; the SIGKILL mode samples arbitrary instants)"}
	root, err := os.MkdirTemp("", "verif-c18-")
	if err != nil {
		return err
	}
	defer os.RemoveAll(root)
	ctx := context.Background()
	caseN := 0
	newDir := func() string {
		caseN++
		d := filepath.Join(root, fmt.Sprintf("s%d", caseN))
		os.MkdirAll(d, 0o755)
		return d
	}
	// --- (D) hook trace vs model ---------------------------------------------------------------
	var lines, impl []string
	for _, dirExists := range []bool{false, true} {
		d := newDir()
		st, err := newFsStore(d)
		if err != nil {
			return err
		}
		key := "trace-key"
		if dirExists {
			if err := st.Put(ctx, key, []byte("first")); err != nil { // creates the shard directory
				return err
			}
			os.Remove(filepath.Join(d, filepathOf(d, key)))
		}
		var trace []string
		fsstore.VerifHook = func(p string, _ ...string) error { trace = append(trace, p); return nil }
		err = st.Put(ctx, key, []byte("first"))
		fsstore.VerifHook = nil
		if err != nil {
			return err
		}
		lines = append(lines, "store.trace "+tfs(dirExists))
		impl = append(impl, strings.Join(trace, " "))
	}
	outs, err := core.RunDriver(lines)
	if err != nil {
		return err
	}
	for i := range lines {
		c.Count(lines[i], true)
		c.Trace(1)
		c.Sample(map[string]string{"case": lines[i], "impl": impl[i]})
		if outs[i] != impl[i] {
			c.Fail("C18/corr-op-sequence", core.Replay{Kind: "correspondence", Case: lines[i], Impl: impl[i], Model: outs[i], Detail: "the filesystem operation sequence of Put differs from the writer model"})
		}
	}
	// --- (i) child stopped at every hook point --------------------------------------------------
	for _, dirExists := range []bool{false, true} {
		for _, point := range hookPoints {
			for nth := 1; nth <= 2; nth++ {
				d := newDir()
				key, content := c18KV(c.Seed, caseN%40)
				if dirExists {
					st, _ := newFsStore(d)
					st.Put(ctx, key, content)
					os.Remove(filepath.Join(d, filepathOf(d, key)))
				}
				cmd := exec.Command(selfExe(), "fs-child", "kill", d, hex.EncodeToString([]byte(key)), hex.EncodeToString(content), point, fmt.Sprint(nth))
				cmd.Run()
				caseID := fmt.Sprintf("c18.kill point=%s nth=%d dirExists=%v key=%s len=%d", point, nth, dirExists, hex.EncodeToString([]byte(key)), len(content))
				c18Inspect(c, d, map[string][]byte{key: content}, caseID)
				c.Count(caseID, true)
				c.Dist("fault:kill@" + point)
			}
		}
	}
	// --- stream: stopped between chunk writes, and abandoned -----------------------------------
	for chunks := 1; chunks <= 4; chunks++ {
		for after := 0; after <= chunks+1; after++ {
			d := newDir()
			key, content := c18KV(c.Seed, 50+chunks)
			cmd := exec.Command(selfExe(), "fs-child", "stream", d, hex.EncodeToString([]byte(key)), hex.EncodeToString(content), fmt.Sprint(chunks), fmt.Sprint(after))
			cmd.Run()
			caseID := fmt.Sprintf("c18.stream chunks=%d stop-after=%d key=%s", chunks, after, hex.EncodeToString([]byte(key)))
			c18Inspect(c, d, map[string][]byte{key: content}, caseID)
			c.Count(caseID, true)
			c.Dist("fault:stream-stop")
		}
	}
	// --- (ii) failure injected at every point --------------------------------------------------
	for _, dirExists := range []bool{false, true} {
		for _, point := range hookPoints {
			d := newDir()
			st, err := newFsStore(d)
			if err != nil {
				return err
			}
			key, content := c18KV(c.Seed, caseN%40)
			if dirExists {
				st.Put(ctx, key, content)
				os.Remove(filepath.Join(d, filepathOf(d, key)))
			}
			reached := false
			fsstore.VerifHook = func(p string, _ ...string) error {
				if p == point && !reached {
					reached = true
					return errInjectedFS
				}
				return nil
			}
			perr := st.Put(ctx, key, content)
			fsstore.VerifHook = nil
			caseID := fmt.Sprintf("c18.fail point=%s dirExists=%v key=%s", point, dirExists, hex.EncodeToString([]byte(key)))
			if reached && perr == nil && point != "renamed" {
				c.Fail("C18/injected-failure-swallowed", core.Replay{Kind: "oracle", Case: caseID, Impl: "nil", Expected: "error"})
			}
			c18Inspect(c, d, map[string][]byte{key: content}, caseID)
			c.Count(caseID, reached)
			c.Dist("fault:fail@" + point)
		}
	}
	// --- (iii) races: writers and readers ------------------------------------------------------
	for round := 0; round < c.Pick(6, 200); round++ {
		d := newDir()
		st, err := newFsStore(d)
		if err != nil {
			return err
		}
		nkeys := 1 + round%3
		committed := map[string][]byte{}
		for i := 0; i < nkeys; i++ {
			k, v := c18KV(c.Seed+uint64(round), i)
			committed[k] = v
		}
		var wg sync.WaitGroup
		stop := make(chan struct{})
		var mu sync.Mutex
		var bad string
		for k, v := range committed {
			for w := 0; w < 3; w++ {
				wg.Add(1)
				go func(k string, v []byte) {
					defer wg.Done()
					for i := 0; i < 20; i++ {
						st.Put(ctx, k, v)
					}
				}(k, v)
			}
		}
		var rg sync.WaitGroup
		for rdr := 0; rdr < 4; rdr++ {
			rg.Add(1)
			go func() {
				defer rg.Done()
				for {
					select {
					case <-stop:
						return
					default:
					}
					for k, v := range committed {
						if got, err := st.Get(ctx, k); err == nil && !bytes.Equal(got, v) {
							mu.Lock()
							bad = fmt.Sprintf("reader saw %d bytes under key %s, committed %d", len(got), hex.EncodeToString([]byte(k)), len(v))
							mu.Unlock()
						}
					}
				}
			}()
		}
		wg.Wait()
		close(stop)
		rg.Wait()
		caseID := fmt.Sprintf("c18.race round=%d keys=%d", round, nkeys)
		if bad != "" {
			c.Fail("C18/reader-saw-partial", core.Replay{Kind: "oracle", Case: caseID, Impl: bad})
		}
		c18Inspect(c, d, committed, caseID)
		c.Count(caseID, true)
		c.Dist("race")
	}
	// --- (viii) writers that OVERWRITE one key with different contents of different lengths (small, and several hundred
	// KiB: beyond any size from which a reader might treat a block differently), with readers: a reader sees one of the
	// committed contents, whole; afterwards the key holds one of them
	for round := 0; round < c.Pick(4, 120); round++ {
		d := newDir()
		st, err := newFsStore(d)
		if err != nil {
			return err
		}
		r := c.Rand.Fork()
		key := fmt.Sprintf("overwritten-%d", round)
		sizes := [][]int{{700000, 300000}, {524288, 262144, 262145}, {90, 40, 300000}, {1 << 20, 1<<18 + 1}}[round%4]
		var alts [][]byte
		for i, n := range sizes {
			alts = append(alts, bytes.Repeat([]byte{byte('a' + i)}, n))
		}
		isAlt := func(b []byte) bool {
			for _, a := range alts {
				if bytes.Equal(a, b) {
					return true
				}
			}
			return false
		}
		st.Put(ctx, key, alts[0])
		var wg, rg sync.WaitGroup
		stop := make(chan struct{})
		var mu sync.Mutex
		var bad string
		for w := 0; w < 3; w++ {
			wg.Add(1)
			go func(w int) {
				defer wg.Done()
				for i := 0; i < 40; i++ {
					st.Put(ctx, key, alts[(i+w)%len(alts)])
				}
			}(w)
		}
		for rdr := 0; rdr < 4; rdr++ {
			rg.Add(1)
			go func(rdr int) {
				defer rg.Done()
				for {
					select {
					case <-stop:
						return
					default:
					}
					var got []byte
					var err error
					if rdr%2 == 0 {
						got, err = st.Get(ctx, key)
					} else if rc, e := st.GetStream(ctx, key); e == nil {
						got, err = io.ReadAll(rc)
						rc.Close()
					} else {
						err = e
					}
					if err == nil && !isAlt(got) {
						mu.Lock()
						first := byte(0)
						if len(got) > 0 {
							first = got[0]
						}
						bad = fmt.Sprintf("reader saw %d bytes (first %q, mixed=%v) under the key; committed contents have %v bytes", len(got), first, bytes.Count(got, got[:min(1, len(got))]) != len(got), sizes)
						mu.Unlock()
					}
				}
			}(rdr)
		}
		wg.Wait()
		close(stop)
		rg.Wait()
		_ = r
		caseID := fmt.Sprintf("c18.overwrite round=%d sizes=%v", round, sizes)
		if bad != "" {
			c.Fail("C18/reader-saw-partial", core.Replay{Kind: "oracle", Case: caseID, Impl: bad, Expected: "one of the committed contents, whole"})
		}
		if got, err := st.Get(ctx, key); err != nil || !isAlt(got) {
			c.Fail("C18/partial-or-mixed-block", core.Replay{Kind: "oracle", Case: caseID, Impl: fmt.Sprintf("after the writers finished the key reads %d bytes (err %v)", len(got), err), Expected: "one of the committed contents"})
		}
		c.Count(caseID, true)
		c.Dist("race:overwrite")
	}
	// --- (v) interleaved streaming writers over several Store values on one directory --------------
	for round := 0; round < c.Pick(40, 2000); round++ {
		d := newDir()
		r := c.Rand.Fork()
		var stores []*fsstore.Store
		for i := 0; i < 1+r.Intn(3); i++ {
			st, err := newFsStore(d)
			if err != nil {
				return err
			}
			stores = append(stores, st)
		}
		type stream struct {
			key     string
			content []byte
			w       io.Writer
			commit  func(string) error
			pos     int
			done    bool
		}
		var ss []*stream
		committed := map[string][]byte{}
		var hist []string
		opFailed := func(what string, err error) {
			c.Fail("C18/stream-operation-fails", core.Replay{Kind: "oracle", Case: fmt.Sprintf("c18.streams round=%d: %s", round, strings.Join(hist, " ")), Impl: what + ": " + err.Error(),
				Expected: "success", Detail: "a streaming write or commit fails although no fault was injected (writers disturb each other)"})
		}
		verify := func(when string) {
			for k, want := range committed {
				for si, st := range stores {
					got, err := st.Get(ctx, k)
					if err != nil || !bytes.Equal(got, want) {
						c.Fail("C18/partial-or-mixed-block", core.Replay{Kind: "oracle", Case: fmt.Sprintf("c18.streams round=%d: %s", round, strings.Join(hist, " ")),
							Impl: fmt.Sprintf("%s: store %d reads %d bytes (err %v) under key %q", when, si, len(got), err, k), Expected: fmt.Sprintf("the %d committed bytes", len(want)),
							Detail: "a committed block changed, or was committed with another writer's bytes"})
						delete(committed, k)
					}
				}
			}
		}
		n := 2 + r.Intn(4)
		for i := 0; i < n; i++ {
			si := r.Intn(len(stores))
			w, commit, err := stores[si].PutStream(ctx)
			if err != nil {
				return err
			}
			ss = append(ss, &stream{key: fmt.Sprintf("k%d-%d", round, i), content: r.Bytes(1 + r.Intn(3000)), w: w, commit: commit})
			hist = append(hist, fmt.Sprintf("open%d@s%d", i, si))
			// interleave: some writes of any open stream, possibly a commit
			for k := r.Intn(4); k > 0; k-- {
				x := ss[r.Intn(len(ss))]
				if x.done {
					continue
				}
				if x.pos < len(x.content) && !r.Chance(1, 5) {
					hi := min(x.pos+1+r.Intn(1500), len(x.content))
					if _, err := x.w.Write(x.content[x.pos:hi]); err != nil {
						opFailed("write "+x.key, err)
						x.done = true
						continue
					}
					x.pos = hi
					hist = append(hist, fmt.Sprintf("w%s", x.key))
				} else if x.pos == len(x.content) {
					if err := x.commit(x.key); err != nil {
						opFailed("commit "+x.key, err)
						x.done = true
						continue
					}
					x.done = true
					committed[x.key] = x.content
					hist = append(hist, fmt.Sprintf("commit%s", x.key))
					verify("after " + hist[len(hist)-1])
				}
			}
		}
		for _, x := range ss {
			if x.done {
				continue
			}
			if r.Chance(1, 5) {
				x.commit("") // abandoned
				hist = append(hist, "abandon"+x.key)
				continue
			}
			if _, err := x.w.Write(x.content[x.pos:]); err != nil {
				opFailed("write "+x.key, err)
				continue
			}
			if err := x.commit(x.key); err != nil {
				opFailed("commit "+x.key, err)
				continue
			}
			committed[x.key] = x.content
			hist = append(hist, "finish"+x.key)
			verify("after " + hist[len(hist)-1])
		}
		verify("at the end")
		caseID := fmt.Sprintf("c18.streams round=%d stores=%d: %s", round, len(stores), strings.Join(hist, " "))
		c18Inspect(c, d, committed, caseID)
		c.Count(caseID, len(ss) >= 2)
		c.Dist(fmt.Sprintf("streams:stores=%d", len(stores)))
	}
	// --- (vi) write failures reported by the OS itself (file size limit in a child process) ---------
	for round := 0; round < c.Pick(6, 150); round++ {
		d := newDir()
		limit := uint64(1 + c.Rand.Intn(9000))
		if round%3 == 0 {
			limit = uint64(4096 * (1 + c.Rand.Intn(4)))
		}
		seed := c.Seed*7919 + uint64(round)
		out, err := exec.Command(selfExe(), "fs-child", "efbig", d, fmt.Sprint(limit), fmt.Sprint(seed)).Output()
		caseID := fmt.Sprintf("c18.efbig limit=%d seed=%d", limit, seed)
		if err != nil {
			return fmt.Errorf("%s: child failed: %v", caseID, err)
		}
		st, err := newFsStore(d)
		if err != nil {
			return err
		}
		for i, line := range strings.Split(strings.TrimSpace(string(out)), "\n") {
			var kh, res string
			var size int
			if _, err := fmt.Sscan(line, &kh, &size, &res); err != nil {
				return fmt.Errorf("%s: bad child line %q", caseID, line)
			}
			kb, _ := hex.DecodeString(kh)
			want := efbigContent(seed, i, size)
			got, gerr := st.Get(ctx, string(kb))
			switch {
			case res == "ok" && (gerr != nil || !bytes.Equal(got, want)):
				c.Fail("C18/partial-or-mixed-block", core.Replay{Kind: "oracle", Case: caseID, Impl: fmt.Sprintf("put %d of %d bytes reported success; the key reads %d bytes (err %v)", i, size, len(got), gerr),
					Expected: fmt.Sprintf("the complete %d bytes", size), Detail: "a write the OS refused (EFBIG) went unreported and a truncated block was committed"})
			case res == "err" && gerr == nil:
				c.Fail("C18/partial-or-mixed-block", core.Replay{Kind: "oracle", Case: caseID, Impl: fmt.Sprintf("put %d of %d bytes reported an error but the key reads %d bytes", i, size, len(got)),
					Expected: "absent"})
			case res == "ok" && uint64(size) > limit:
				return fmt.Errorf("%s: a put of %d bytes succeeded under a file size limit of %d: the limit is not effective here", caseID, size, limit)
			}
			c.Dist("efbig:" + res)
		}
		c.Count(caseID, true)
		c.Dist("fault:efbig")
	}
	// --- (vii) staging directory on another file system: the final rename cannot be atomic there ------
	for round := 0; round < c.Pick(3, 60); round++ {
		shm, err := os.MkdirTemp("/dev/shm", "verif-c18-stage-")
		if err != nil {
			c.Dist("exdev:no-second-file-system")
			break
		}
		d := newDir()
		var s1, s2 syscall.Stat_t
		if syscall.Stat(shm, &s1) != nil || syscall.Stat(d, &s2) != nil || s1.Dev == s2.Dev || os.Symlink(shm, filepath.Join(d, ".temp")) != nil {
			os.RemoveAll(shm)
			c.Dist("exdev:no-second-file-system")
			break
		}
		limit := uint64(1000 + c.Rand.Intn(60000))
		seed := c.Seed*104729 + uint64(round)
		out, err := exec.Command(selfExe(), "fs-child", "exdev", d, fmt.Sprint(limit), fmt.Sprint(seed)).Output()
		caseID := fmt.Sprintf("c18.exdev limit=%d seed=%d", limit, seed)
		if err != nil {
			os.RemoveAll(shm)
			return fmt.Errorf("%s: child failed: %v", caseID, err)
		}
		st, err := newFsStore(d)
		if err != nil {
			os.RemoveAll(shm)
			return err
		}
		for i, line := range strings.Split(strings.TrimSpace(string(out)), "\n") {
			var kh, res string
			var size int
			if _, err := fmt.Sscan(line, &kh, &size, &res); err != nil {
				os.RemoveAll(shm)
				return fmt.Errorf("%s: bad child line %q", caseID, line)
			}
			kb, _ := hex.DecodeString(kh)
			want := efbigContent(seed, i, size)
			got, gerr := st.Get(ctx, string(kb))
			if gerr == nil && !bytes.Equal(got, want) {
				c.Fail("C18/partial-or-mixed-block", core.Replay{Kind: "oracle", Case: caseID, Impl: fmt.Sprintf("stream %d of %d bytes (commit reported %s): the key reads %d bytes", i, size, res, len(got)),
					Expected: "absent, or the complete block", Detail: "the staging directory is on another file system: whatever the store does instead of the rename must not expose a partial block"})
			} else if res == "ok" && gerr != nil {
				c.Fail("C18/partial-or-mixed-block", core.Replay{Kind: "oracle", Case: caseID, Impl: fmt.Sprintf("commit %d reported success, the key is absent (%v)", i, gerr), Expected: "the complete block"})
			}
			c.Dist("exdev:" + res)
		}
		os.RemoveAll(shm)
		c.Count(caseID, true)
		c.Dist("fault:exdev")
	}
	// --- (iv) SIGKILL at random instants (thorough) ---------------------------------------------
	for round := 0; round < c.Pick(3, 150); round++ {
		d := newDir()
		seed := c.Seed*1000 + uint64(round)
		cmd := exec.Command(selfExe(), "fs-child", "loop", d, fmt.Sprint(seed))
		if err := cmd.Start(); err != nil {
			return err
		}
		time.Sleep(time.Duration(2+c.Rand.Intn(30)) * time.Millisecond)
		cmd.Process.Signal(syscall.SIGKILL)
		cmd.Wait()
		committed := map[string][]byte{}
		for i := 0; i < 40; i++ {
			k, v := c18KV(seed, i)
			committed[k] = v
		}
		caseID := fmt.Sprintf("c18.sigkill round=%d seed=%d", round, seed)
		c18Inspect(c, d, committed, caseID)
		c.Count(caseID, true)
		c.Dist("fault:sigkill")
	}
	return nil
}

// filepathOf: relative path of a key's file under the default layout (next-to-last-2 sharding of base32(key))
func filepathOf(_ string, key string) string {
	e := b32NoPad(key)
	shard := "00"
	if len(e) > 2 {
		shard = e[len(e)-3 : len(e)-1]
	}
	return filepath.Join(shard, e)
}

func replayC18(c *core.Ctx, rp core.Replay) error {
	return fmt.Errorf("C18 cases are deterministic per seed: VERIF_SEED=%d ./vcheck C18 %s (case: %s)", rp.Seed, rp.Tier, rp.Case)
}
