/-
  C17 (companion) — memstore Has / Get / Put as transcribed into the key-value model.
  Recorded by tools/pin_skeletons.py from the source the models were transcribed from; property-tie theorems only.
-/
import IpldModel.Generated.MemstoreSkeletons
namespace Ipld.Props.C17

/-- (T) statement skeleton of `Store.Has` (storage/memstore/memstore.go) — model: `Kv` lookup: the statements on this run are the recorded ones. -/
theorem memHas_is_transcribed : Ipld.Generated.memHas_skel_src = [
  "if store.Bag == nil",
  ". return false, nil",
  "_, exists := store.Bag[key]",
  "return exists, nil"
] := rfl

/-- (T) statement skeleton of `Store.Get` (storage/memstore/memstore.go) — model: `Kv` lookup, a copy is handed out: the statements on this run are the recorded ones. -/
theorem memGet_is_transcribed : Ipld.Generated.memGet_skel_src = [
  "store.beInitialized()",
  "content, exists := store.Bag[key]",
  "if !exists",
  ". return nil, fmt.Errorf(\"404\")",
  "cpy := make([]byte, len(content))",
  "copy(cpy, content)",
  "return cpy, nil"
] := rfl

/-- (T) statement skeleton of `Store.Put` (storage/memstore/memstore.go) — model: `Kv` insert-if-absent of a copy: the statements on this run are the recorded ones. -/
theorem memPut_is_transcribed : Ipld.Generated.memPut_skel_src = [
  "store.beInitialized()",
  "if _, exists := store.Bag[key]; exists",
  ". return nil",
  "cpy := make([]byte, len(content))",
  "copy(cpy, content)",
  "store.Bag[key] = cpy",
  "return nil"
] := rfl

end Ipld.Props.C17
