/-
  Node budget: a walk with node budget `b` is a prefix of the walk without a node budget (no start-at path).
-/
import IpldModel.Lemmas.Walk
namespace Ipld
namespace Walk
open Sel

/-- number of visit events -/
def visitCount (es : List Event) : Nat := (visitsOf es).length

@[simp] theorem visitCount_nil : visitCount [] = 0 := rfl
@[simp] theorem visitCount_visit (p : Path) (m : DM) (r : Reason) (es : List Event) :
    visitCount (.visit p m r :: es) = visitCount es + 1 := by simp [visitCount, visitsOf]
@[simp] theorem visitCount_load (c : Bytes) (es : List Event) :
    visitCount (.load c :: es) = visitCount es := by simp [visitCount, visitsOf]
@[simp] theorem visitCount_append (a b : List Event) : visitCount (a ++ b) = visitCount a + visitCount b := by
  simp [visitCount, visitsOf]

theorem visitEvent_is_visit (path : Path) (n : DM) (s : S) : ∃ m r, visitEvent path n s = .visit path m r := by
  unfold visitEvent; split <;> exact ⟨_, _, rfl⟩

/-- forget the node budget -/
def unb (st : St) : St := { st with nodeBudget := none }

/-- `extra` (most recent first) is what the unbudgeted run did after the budgeted one stopped -/
def ExtraOk (extra : List Event) (rU : Except Err Unit) : Prop :=
  (extra = [] ∧ rU = .error .reify) ∨ ∃ e p m r, extra = e ++ [.visit p m r]

/-- relation between the budgeted run's result `R` and the unbudgeted run's result `U`, both started from
    `st` (resp. `unb st`) with `st.nodeBudget = some b` -/
def Sim (st : St) (b : Int) (R U : WR) : Prop :=
  ∃ newR, R.1.events = newR ++ st.events ∧ (visitCount newR : Int) ≤ b ∧
    ((R.2 = .error .budgetNode ∧ (visitCount newR : Int) = b ∧
        ∃ extra, U.1.events = extra ++ R.1.events ∧ ExtraOk extra U.2)
     ∨ (R.2 = .ok () ∧ U.2 = .ok () ∧ U.1 = unb R.1 ∧ R.1.nodeBudget = some (b - visitCount newR))
     ∨ (∃ e, R.2 = .error e ∧ U.2 = .error e ∧ e ≠ .budgetNode ∧ U.1.events = R.1.events ∧
          (e = .reify → (visitCount newR : Int) < b)))

theorem Sim.refl_ok {st : St} {b : Int} (hb : st.nodeBudget = some b) (h0 : 0 ≤ b) :
    Sim st b (st, .ok ()) (unb st, .ok ()) :=
  ⟨[], rfl, by simpa using h0, Or.inr (Or.inl ⟨rfl, rfl, rfl, by simpa using hb⟩)⟩

theorem Sim.err {st : St} {b : Int} (h0 : 0 ≤ b) {e : Err} (h1 : e ≠ .budgetNode) (h2 : e ≠ .reify) :
    Sim st b (st, .error e) (unb st, .error e) :=
  ⟨[], rfl, by simpa using h0, Or.inr (Or.inr ⟨e, rfl, rfl, h1, rfl, fun h => absurd h h2⟩)⟩

/-- a budgeted prefix step: `st1` extends `st` having spent exactly one budget unit per visit -/
def Step (st : St) (b : Int) (st1 : St) : Prop :=
  ∃ new, st1.events = new ++ st.events ∧ st1.nodeBudget = some (b - visitCount new) ∧ (visitCount new : Int) ≤ b

theorem Sim.seq {st st1 : St} {b : Int} {R U : WR} (h1 : Step st b st1)
    (h2 : ∀ b1, st1.nodeBudget = some b1 → 0 ≤ b1 → Sim st1 b1 R U) : Sim st b R U := by
  obtain ⟨new1, he1, hb1, hk1⟩ := h1
  obtain ⟨new2, he2, hk2, h⟩ := h2 _ hb1 (by omega)
  refine ⟨new2 ++ new1, by rw [he2, he1, List.append_assoc], by simp; omega, ?_⟩
  rcases h with ⟨hr, hk, hx⟩ | ⟨hr, hu, hs, hb⟩ | ⟨e, hr, hu, hne, hev, hre⟩
  · exact Or.inl ⟨hr, by simp; omega, hx⟩
  · exact Or.inr (Or.inl ⟨hr, hu, hs, by rw [hb]; simp; omega⟩)
  · exact Or.inr (Or.inr ⟨e, hr, hu, hne, hev, fun h => by have := hre h; simp; omega⟩)

theorem ExtraOk.more {extra : List Event} {rU rU' : Except Err Unit} (more : List Event)
    (h : ExtraOk extra rU) (hne : extra = [] → more = [] ∧ rU' = rU) : ExtraOk (more ++ extra) rU' := by
  rcases h with ⟨h1, h2⟩ | ⟨e, p, m, r, h⟩
  · obtain ⟨hm, hr⟩ := hne h1
    left; subst h1 hm; simp [hr, h2]
  · right; exact ⟨more ++ e, p, m, r, by rw [h, List.append_assoc]⟩

/-- sequential composition through the `match … with | (st', .error e) => … | (st', .ok ()) => f st'` idiom -/
theorem Sim.bind {st : St} {b : Int} {R1 U1 : WR} (f : St → WR) (h1 : Sim st b R1 U1)
    (hf : ∀ st1 b1, R1.1 = st1 → st1.nodeBudget = some b1 → 0 ≤ b1 → Sim st1 b1 (f st1) (f (unb st1)))
    (hext : ∀ stU, ∃ new, (f stU).1.events = new ++ stU.events) :
    Sim st b (andThen R1 f) (andThen U1 f) := by
  obtain ⟨stR, rR⟩ := R1
  obtain ⟨stU, rU⟩ := U1
  obtain ⟨new1, he1, hk1, h⟩ := h1
  simp only at he1 h
  rcases h with ⟨hr, hk, extra, hx, hxo⟩ | ⟨hr, hu, hs, hb⟩ | ⟨e, hr, hu, hne, hev, hre⟩
  · subst hr
    refine ⟨new1, he1, hk1, Or.inl ⟨rfl, hk, ?_⟩⟩
    cases rU with
    | error e => exact ⟨extra, hx, hxo⟩
    | ok u =>
      obtain ⟨more, hm⟩ := hext stU
      refine ⟨more ++ extra, by cases u; simp only [andThen_ok, andThen_error, hm, hx, List.append_assoc], ?_⟩
      apply ExtraOk.more more hxo
      intro hnil
      rcases hxo with ⟨_, h2⟩ | ⟨e, p, m, r, h⟩
      · cases h2
      · subst hnil; simp at h
  · subst hr hu hs
    simp only [andThen_ok]
    apply Sim.seq ⟨new1, he1, hb, hk1⟩
    intro b1 hb1 h0
    exact hf stR b1 rfl hb1 h0
  · subst hr hu
    exact ⟨new1, he1, hk1, Or.inr (Or.inr ⟨e, rfl, rfl, hne, hev, hre⟩)⟩

/-! ### primitive steps commute with forgetting the budget -/

theorem checkLink_unb (st : St) : checkLink (unb st) = (checkLink st).map unb := by
  obtain ⟨nb, lb, seen, ev⟩ := st
  cases lb with
  | none => rfl
  | some b => simp only [checkLink, unb]; split <;> rfl

theorem linkStep_unb (cfg : Cfg) (c : Bytes) (st : St) :
    linkStep cfg c (unb st) = (unb (linkStep cfg c st).1, (linkStep cfg c st).2) := by
  unfold linkStep
  by_cases h1 : (cfg.linkOnce && st.seen.contains c) = true
  · have : (cfg.linkOnce && (unb st).seen.contains c) = true := h1
    rw [if_pos h1, if_pos this]
  · have : ¬ (cfg.linkOnce && (unb st).seen.contains c) = true := h1
    rw [if_neg h1, if_neg this]
    have h2 : (if cfg.linkOnce = true then { unb st with seen := c :: (unb st).seen } else unb st)
        = unb (if cfg.linkOnce = true then { st with seen := c :: st.seen } else st) := by
      split <;> rfl
    simp only [h2, checkLink_unb]
    cases checkLink (if cfg.linkOnce = true then { st with seen := c :: st.seen } else st) with
    | error e => rfl
    | ok st2 =>
      simp only [Except.map]
      split
      · rfl
      · split <;> rfl

theorem checkLink_nodeBudget {st st1 : St} (h : checkLink st = .ok st1) : st1.nodeBudget = st.nodeBudget := by
  unfold checkLink at h
  split at h
  · cases h; rfl
  · split at h
    · cases h
    · cases h; rfl

/-- what `linkStep` does to the log and the node budget -/
theorem linkStep_frame (cfg : Cfg) (c : Bytes) (st : St) :
    (linkStep cfg c st).1.nodeBudget = st.nodeBudget ∧
    ((linkStep cfg c st).1.events = st.events ∨ (linkStep cfg c st).1.events = .load c :: st.events) ∧
    (∀ e, (linkStep cfg c st).2 = .error e → e = .budgetLink ∨ e = .load) := by
  unfold linkStep
  split
  · exact ⟨rfl, Or.inl rfl, by intro e h; cases h⟩
  · have h0 : (if cfg.linkOnce = true then { st with seen := c :: st.seen } else st).events = st.events := by
      split <;> rfl
    have h0' : (if cfg.linkOnce = true then { st with seen := c :: st.seen } else st).nodeBudget = st.nodeBudget := by
      split <;> rfl
    simp only
    split
    · rename_i e hck
      refine ⟨h0', Or.inl h0, ?_⟩
      intro e' he'; cases he'
      unfold checkLink at hck
      split at hck
      · cases hck
      · split at hck
        · cases hck; exact Or.inl rfl
        · cases hck
    · rename_i st2 h
      have h3 := checkLink_events h
      have h4 := checkLink_nodeBudget h
      split
      · exact ⟨by simp [h4, h0'], Or.inr (by simp [h3, h0]), by intro e h; cases h⟩
      · split
        · exact ⟨by simp [h4, h0'], Or.inr (by simp [h3, h0]), by intro e h; cases h; exact Or.inr rfl⟩
        · exact ⟨by simp [h4, h0'], Or.inr (by simp [h3, h0]), by intro e h; cases h⟩

theorem linkStep_step (cfg : Cfg) (c : Bytes) (st : St) (b : Int) (hb : st.nodeBudget = some b) (h0 : 0 ≤ b) :
    Step st b (linkStep cfg c st).1 := by
  obtain ⟨h1, h2, _⟩ := linkStep_frame cfg c st
  rcases h2 with h2 | h2
  · exact ⟨[], by simp [h2], by simp [h1, hb], by simpa using h0⟩
  · exact ⟨[.load c], by simp [h2], by simp [h1, hb], by simpa using h0⟩

theorem loopStep_nil (cfg : Cfg) (h : cfg.startAt = []) (path : Path) (lp : Loop) (ps : Seg) :
    loopStep cfg path lp ps = (false, lp) := by
  simp [loopStep, h]

theorem visitSt_nil (cfg : Cfg) (h : cfg.startAt = []) (past : Bool) (path : Path) (n : DM) (s : S) (st : St) :
    visitSt cfg past path n s st = { st with events := visitEvent path n s :: st.events } := by
  simp [visitSt, h]

/-! ### the simulation -/

theorem sim_all (cfg : Cfg) (hs : cfg.startAt = []) (fuel : Nat) :
    (∀ past path n s st b, st.nodeBudget = some b → 0 ≤ b →
      Sim st b (walkAdv cfg fuel past path n s st) (walkAdv cfg fuel past path n s (unb st))) ∧
    (∀ path n s l lp st b, st.nodeBudget = some b → 0 ≤ b →
      Sim st b (walkChildren cfg fuel path n s l lp st) (walkChildren cfg fuel path n s l lp (unb st))) ∧
    (∀ past path n s ps v st b, st.nodeBudget = some b → 0 ≤ b →
      Sim st b (exploreChild cfg fuel past path n s ps v st) (exploreChild cfg fuel past path n s ps v (unb st))) := by
  induction fuel with
  | zero =>
    refine ⟨?_, ?_, ?_⟩
    · intro past path n s st b _ h0; rw [walkAdv_zero, walkAdv_zero]; exact Sim.err h0 (by simp) (by simp)
    · intro path n s l lp st b _ h0; rw [walkChildren_zero, walkChildren_zero]; exact Sim.err h0 (by simp) (by simp)
    · intro past path n s ps v st b _ h0; rw [exploreChild_zero, exploreChild_zero]
      exact Sim.err h0 (by simp) (by simp)
  | succ fuel ih =>
    obtain ⟨ihA, ihC, ihE⟩ := ih
    refine ⟨?_, ?_, ?_⟩
    · intro past path n s st b hb h0
      rw [walkAdv_succ, walkAdv_succ]
      have hU : checkNode (unb st) = .ok (unb st) := rfl
      rw [hU]
      simp only [visitSt_nil cfg hs]
      by_cases hb0 : b ≤ 0
      · -- out of budget here
        have hR : checkNode st = .error .budgetNode := by simp [checkNode, hb, hb0]
        rw [hR]
        simp only
        have hb' : b = 0 := by omega
        refine ⟨[], rfl, by simpa using h0, Or.inl ⟨rfl, by simp [hb'], ?_⟩⟩
        obtain ⟨m, r, hv⟩ := visitEvent_is_visit path n s
        split
        · exact ⟨[], rfl, Or.inl ⟨rfl, rfl⟩⟩
        · split
          · exact ⟨[visitEvent path n s], rfl, Or.inr ⟨[], path, m, r, by simp [hv]⟩⟩
          · obtain ⟨more, hm⟩ := events_extend_children cfg fuel path n s (childList n s) { past := past }
              { unb st with events := visitEvent path n s :: (unb st).events }
            exact ⟨more ++ [visitEvent path n s], by rw [hm]; simp [unb],
              Or.inr ⟨more, path, m, r, by simp [hv]⟩⟩
      · have hR : checkNode st = .ok { st with nodeBudget := some (b - 1) } := by simp [checkNode, hb, hb0]
        rw [hR]
        simp only
        split
        · exact ⟨[], rfl, by simpa using h0, Or.inr (Or.inr ⟨.reify, rfl, rfl, by simp, rfl, fun _ => by simp; omega⟩)⟩
        · obtain ⟨m, r, hv⟩ := visitEvent_is_visit path n s
          have hstep : Step st b { st with nodeBudget := some (b - 1), events := visitEvent path n s :: st.events } :=
            ⟨[visitEvent path n s], rfl, by simp [hv], by simp [hv]; omega⟩
          split
          · apply Sim.seq hstep
            intro b1 hb1 h01
            exact Sim.refl_ok hb1 h01
          · apply Sim.seq hstep
            intro b1 hb1 h01
            exact ihC _ _ _ _ _ _ b1 hb1 h01
    · intro path n s l lp st b hb h0
      cases l with
      | nil => rw [walkChildren_nil, walkChildren_nil]; exact Sim.refl_ok hb h0
      | cons x rest =>
        obtain ⟨ps, v⟩ := x
        rw [walkChildren_cons, walkChildren_cons]
        simp only [loopStep_nil cfg hs, Bool.false_eq_true, if_false]
        apply Sim.bind (fun st' => walkChildren cfg fuel path n s rest lp st') (ihE _ _ _ _ _ _ _ b hb h0)
        · intro st1 b1 _ hb1 h01
          exact ihC _ _ _ _ _ _ b1 hb1 h01
        · intro stU; exact events_extend_children ..
    · intro past path n s ps v st b hb h0
      rw [exploreChild_succ, exploreChild_succ]
      split
      · exact Sim.err h0 (by simp) (by simp)
      · exact Sim.err h0 (by simp) (by simp)
      · exact Sim.refl_ok hb h0
      · rename_i sNext _
        unfold enterChild
        split
        · rename_i c
          rw [linkStep_unb]
          have hstep := linkStep_step cfg c st b hb h0
          obtain ⟨_, _, herr⟩ := linkStep_frame cfg c st
          generalize linkStep cfg c st = ls at hstep herr
          obtain ⟨st', r⟩ := ls
          simp only at hstep herr ⊢
          apply Sim.seq hstep
          intro b1 hb1 h01
          cases r with
          | error e =>
            simp only
            have := herr e rfl
            apply Sim.err h01 <;> (rcases this with h | h <;> simp [h])
          | ok o =>
            cases o with
            | none => exact Sim.refl_ok hb1 h01
            | some blk => exact ihA _ _ _ _ _ b1 hb1 h01
        · rename_i hnl
          exact ihA _ _ _ _ _ b hb h0

/-! ### the whole walk -/

theorem visitsOf_reverse (es : List Event) : visitsOf es.reverse = (visitsOf es).reverse := by
  simp [visitsOf, List.filterMap_reverse]

theorem visitsOf_append (a b : List Event) : visitsOf (a ++ b) = visitsOf a ++ visitsOf b := by
  simp [visitsOf]

theorem visitsOf_cons_visit (p : Path) (m : DM) (r : Reason) (es : List Event) :
    visitsOf (.visit p m r :: es) = (p, m, r) :: visitsOf es := rfl

theorem loadsOf_append (a b : List Event) : loadsOf (a ++ b) = loadsOf a ++ loadsOf b := by
  simp [loadsOf]

/-- The budgeted walk against the unbudgeted one, in chronological order. -/
theorem walk_budget_cases (cfg : Cfg) (hs : cfg.startAt = []) (fuel : Nat) (N : Int) (hN : 0 ≤ N)
    (lb : Option Int) (root : DM) (s : S) (U R : Result) (hU : U = walk cfg fuel none lb root s)
    (hR : R = walk cfg fuel (some N) lb root s) :
    (visitsOf R.events).length ≤ N.toNat ∧
    ((R.outcome = .error .budgetNode ∧ (visitsOf R.events).length = N.toNat ∧
        ∃ rest, U.events = R.events ++ rest ∧
          ((rest = [] ∧ U.outcome = .error .reify) ∨ ∃ p m r rest', rest = .visit p m r :: rest'))
     ∨ (R.outcome ≠ .error .budgetNode ∧ R.events = U.events ∧ R.outcome = U.outcome ∧
        (U.outcome = .error .reify → (visitsOf U.events).length < N.toNat))) := by
  have h := (sim_all cfg hs fuel).1 false [] root s { nodeBudget := some N, linkBudget := lb } N rfl hN
  unfold walk at hU hR
  have e1 : unb { nodeBudget := some N, linkBudget := lb } = { nodeBudget := none, linkBudget := lb } := rfl
  rw [e1] at h
  generalize walkAdv cfg fuel false [] root s { nodeBudget := some N, linkBudget := lb } = wr at h hR
  generalize walkAdv cfg fuel false [] root s { nodeBudget := none, linkBudget := lb } = wu at h hU
  obtain ⟨stR, rR⟩ := wr
  obtain ⟨stU, rU⟩ := wu
  simp only at hU hR
  subst hU hR
  obtain ⟨newR, he, hk, h⟩ := h
  simp only [List.append_nil] at he h hk
  simp only
  have hlen : (visitsOf stR.events.reverse).length = visitCount newR := by
    rw [visitsOf_reverse, List.length_reverse, he]; rfl
  refine ⟨by rw [hlen]; omega, ?_⟩
  rcases h with ⟨hr, hk', extra, hx, hxo⟩ | ⟨hr, hu, hs', hb⟩ | ⟨e, hr, hu, hne, hev, hre⟩
  · left
    refine ⟨hr, by rw [hlen]; omega, extra.reverse, by rw [hx, List.reverse_append], ?_⟩
    rcases hxo with ⟨h1, h2⟩ | ⟨e, p, m, r, h1⟩
    · left; subst h1; exact ⟨rfl, h2⟩
    · right; exact ⟨p, m, r, e.reverse, by rw [h1]; simp⟩
  · right
    refine ⟨by rw [hr]; simp, by rw [hs']; rfl, by rw [hr, hu], ?_⟩
    intro h; rw [hu] at h; cases h
  · right
    refine ⟨by rw [hr]; simpa using hne, by rw [hev], by rw [hr, hu], ?_⟩
    intro h
    rw [hu] at h
    have : e = .reify := by cases h; rfl
    have := hre this
    rw [hev, hlen]; omega

end Walk
end Ipld
