package core

import (
	"bytes"
	"io"
	"fmt"
	"math"

	"github.com/ipld/go-ipld-prime/datamodel"
	"github.com/ipld/go-ipld-prime/node/basicnode"
)

// Assemble feeds v into na.  With r == nil the canonical plan is used (AssembleEntry, direct scalar
// assigns, exact size hints); otherwise every choice the builder contract leaves open is drawn from r:
// entry shortcut vs separate key/value assembly, scalar assign vs AssignNode of a prebuilt node,
// children inline or prebuilt, any size hint.
func Assemble(na datamodel.NodeAssembler, v Val, r *Rand) error {
	if r != nil && r.Chance(1, 6) {
		// prebuilt child assigned as a node
		n, err := BuildBasic(v, r)
		if err != nil {
			return err
		}
		return na.AssignNode(n)
	}
	switch v.K {
	case 'n':
		return na.AssignNull()
	case 't':
		return na.AssignBool(true)
	case 'f':
		return na.AssignBool(false)
	case 'i':
		if UintNodesForNonNegative && !v.Neg {
			// every non-negative integer arrives as a datamodel.UintNode handed over with AssignNode (in range or not)
			return na.AssignNode(basicnode.NewUint(v.Mag))
		}
		if i, ok := v.Int64(); ok {
			return na.AssignInt(i)
		}
		if v.Neg {
			return fmt.Errorf("int below int64 range cannot be held by any node")
		}
		return na.AssignNode(basicnode.NewUint(v.Mag))
	case 'd':
		return na.AssignFloat(math.Float64frombits(v.F))
	case 's':
		return na.AssignString(string(v.S))
	case 'b':
		if r != nil && r.Chance(1, 5) {
			// a stream-backed bytes node whose underlying reader delivers short reads (legal for an io.Reader)
			return na.AssignNode(basicnode.NewBytesFromReader(StreamSource(r, v.S)))
		}
		return na.AssignBytes(append([]byte{}, v.S...))
	case 'l':
		l, err := LinkOf(v.S)
		if err != nil {
			return err
		}
		return na.AssignLink(l)
	case '[':
		hint := int64(len(v.L))
		if r != nil {
			switch r.Intn(4) {
			case 0:
				hint = -1
			case 1:
				hint = 0
			case 2:
				hint = int64(r.Intn(2*len(v.L) + 3))
			}
		}
		la, err := na.BeginList(hint)
		if err != nil {
			return err
		}
		for _, x := range v.L {
			if err := Assemble(la.AssembleValue(), x, r); err != nil {
				return err
			}
		}
		return la.Finish()
	case '{':
		hint := int64(len(v.M))
		if r != nil {
			switch r.Intn(4) {
			case 0:
				hint = -1
			case 1:
				hint = 0
			case 2:
				hint = int64(r.Intn(2*len(v.M) + 3))
			}
		}
		ma, err := na.BeginMap(hint)
		if err != nil {
			return err
		}
		for _, e := range v.M {
			mode := 0
			if r != nil {
				mode = r.Intn(3)
			}
			switch mode {
			case 0:
				va, err := ma.AssembleEntry(string(e.K))
				if err != nil {
					return err
				}
				if err := Assemble(va, e.V, r); err != nil {
					return err
				}
			case 1:
				if err := ma.AssembleKey().AssignString(string(e.K)); err != nil {
					return err
				}
				if err := Assemble(ma.AssembleValue(), e.V, r); err != nil {
					return err
				}
			case 2:
				if err := ma.AssembleKey().AssignNode(basicnode.NewString(string(e.K))); err != nil {
					return err
				}
				if err := Assemble(ma.AssembleValue(), e.V, r); err != nil {
					return err
				}
			}
		}
		return ma.Finish()
	}
	return fmt.Errorf("cannot assemble kind %q", v.K)
}

// BuildBasic builds v with basicnode's Any prototype.
// UintNodesForNonNegative: Assemble supplies every non-negative integer as a UintNode through AssignNode (set by a route
// around one Assemble call).
var UintNodesForNonNegative bool

func BuildBasic(v Val, r *Rand) (datamodel.Node, error) {
	nb := basicnode.Prototype.Any.NewBuilder()
	if err := Assemble(nb, v, r); err != nil {
		return nil, err
	}
	return nb.Build(), nil
}

// ShortReadSeeker is an io.ReadSeeker over Data that delivers at most Max bytes per Read.
type ShortReadSeeker struct {
	Data []byte
	Max  int
	pos  int64
	// EOFWithData: the read that delivers the last byte reports io.EOF together with it (legal for an io.Reader:
	// "may return the (non-nil) error from the same call"), as section readers and some network readers do
	EOFWithData bool
}

// StreamSource draws an io.ReadSeeker over data: a bytes.Reader, or one that delivers short reads, with the end of the
// stream reported on a separate read or together with the last bytes.
func StreamSource(r *Rand, data []byte) io.ReadSeeker {
	switch r.Intn(4) {
	case 0:
		return &ShortReadSeeker{Data: append([]byte{}, data...), Max: 1 + r.Intn(4)}
	case 1:
		return &ShortReadSeeker{Data: append([]byte{}, data...), Max: 1 + r.Intn(64), EOFWithData: true}
	case 2:
		return &ShortReadSeeker{Data: append([]byte{}, data...), Max: 1 << 20, EOFWithData: true}
	}
	return bytes.NewReader(append([]byte{}, data...))
}

func (s *ShortReadSeeker) Read(p []byte) (int, error) {
	if s.pos >= int64(len(s.Data)) {
		return 0, io.EOF
	}
	n := len(p)
	if n > s.Max {
		n = s.Max
	}
	if rem := int64(len(s.Data)) - s.pos; int64(n) > rem {
		n = int(rem)
	}
	copy(p, s.Data[s.pos:s.pos+int64(n)])
	s.pos += int64(n)
	if s.EOFWithData && s.pos >= int64(len(s.Data)) && n > 0 {
		return n, io.EOF
	}
	return n, nil
}

func (s *ShortReadSeeker) Seek(offset int64, whence int) (int64, error) {
	switch whence {
	case io.SeekCurrent:
		offset += s.pos
	case io.SeekEnd:
		offset += int64(len(s.Data))
	}
	if offset < 0 {
		return 0, fmt.Errorf("negative position")
	}
	s.pos = offset
	return offset, nil
}
