/-
  Effects of the primitive heap operations of the heap model (`writeCell`, `appendSlice`, `setObj`,
  `gomapInsert`, allocation).  Core Lean only.
-/
import IpldModel.Lemmas.HeapList
set_option linter.unusedSimpArgs false
set_option linter.unusedVariables false
namespace Ipld
namespace Heap

/-! ### accessors -/

def Obj.slice : Obj → Slice
  | .map t _ => t
  | .list x => x

def Obj.gm : Obj → Option Nat
  | .map _ m => some m
  | .list _ => none

def Obj.withSlice : Obj → Slice → Obj
  | .map _ m, s => .map s m
  | .list _, s => .list s

/-- the node a cell refers to, if it has one -/
def Cell.ref : Cell → Option NRef
  | .entry _ (some v) => some v
  | .item v => some v
  | _ => none

def HFrame.id : HFrame → Nat
  | .map id _ => id
  | .list id _ => id

def objAt (h : H) (id : Nat) : Obj := h.objs.getD id default
def arrAt (h : H) (a : Nat) : List Cell := h.arrs.getD a []
def gmAt (h : H) (m : Nat) : List (Bytes × NRef) := h.gomaps.getD m []

theorem sliceCells_eq (h : H) (s : Slice) : sliceCells h s = (arrAt h s.arr).take s.len := rfl

@[simp] theorem Obj.withSlice_slice (o : Obj) (s : Slice) : (o.withSlice s).slice = s := by
  cases o <;> rfl
@[simp] theorem Obj.withSlice_gm (o : Obj) (s : Slice) : (o.withSlice s).gm = o.gm := by
  cases o <;> rfl

/-- a slice header is consistent with the heap: its array exists and `len ≤ cap ≤` array length -/
def SliceWf (h : H) (s : Slice) : Prop :=
  s.arr < h.arrs.length ∧ s.len ≤ s.cap ∧ s.cap ≤ (arrAt h s.arr).length

/-! ### writeCell -/

@[simp] theorem writeCell_objs (h : H) (a i : Nat) (c : Cell) : (writeCell h a i c).objs = h.objs := rfl
@[simp] theorem writeCell_gomaps (h : H) (a i : Nat) (c : Cell) : (writeCell h a i c).gomaps = h.gomaps := rfl
@[simp] theorem writeCell_finished (h : H) (a i : Nat) (c : Cell) : (writeCell h a i c).finished = h.finished := rfl
@[simp] theorem writeCell_arrs_length (h : H) (a i : Nat) (c : Cell) :
    (writeCell h a i c).arrs.length = h.arrs.length := by simp [writeCell]

theorem arrAt_writeCell (h : H) (a i a' : Nat) (c : Cell) :
    arrAt (writeCell h a i c) a' =
      if a' = a ∧ a < h.arrs.length then setAt (arrAt h a) i c else arrAt h a' := by
  simp only [arrAt, writeCell, getD_setAt]

theorem arrAt_writeCell_ne (h : H) {a i a' : Nat} (c : Cell) (hne : a' ≠ a) :
    arrAt (writeCell h a i c) a' = arrAt h a' := by
  rw [arrAt_writeCell, if_neg (fun hh => hne hh.1)]

theorem arrAt_writeCell_self (h : H) {a i : Nat} (c : Cell) (ha : a < h.arrs.length) :
    arrAt (writeCell h a i c) a = setAt (arrAt h a) i c := by
  rw [arrAt_writeCell, if_pos ⟨rfl, ha⟩]

theorem arrAt_writeCell_length (h : H) (a i a' : Nat) (c : Cell) :
    (arrAt (writeCell h a i c) a').length = (arrAt h a').length := by
  rw [arrAt_writeCell]
  split
  · rename_i hh; rw [length_setAt, hh.1]
  · rfl

theorem arrAt_writeCell_take (h : H) {a i a' n : Nat} (c : Cell) (hn : a' = a → n ≤ i) :
    (arrAt (writeCell h a i c) a').take n = (arrAt h a').take n := by
  rw [arrAt_writeCell]
  split
  · rename_i hh; rw [take_setAt_le _ _ (hn hh.1), hh.1]
  · rfl

/-! ### setObj, gomapInsert, finished -/

@[simp] theorem setObj_arrs (h : H) (id : Nat) (o : Obj) : (setObj h id o).arrs = h.arrs := rfl
@[simp] theorem setObj_gomaps (h : H) (id : Nat) (o : Obj) : (setObj h id o).gomaps = h.gomaps := rfl
@[simp] theorem setObj_finished (h : H) (id : Nat) (o : Obj) : (setObj h id o).finished = h.finished := rfl
@[simp] theorem setObj_objs_length (h : H) (id : Nat) (o : Obj) :
    (setObj h id o).objs.length = h.objs.length := by simp [setObj]
@[simp] theorem arrAt_setObj (h : H) (id : Nat) (o : Obj) (a : Nat) : arrAt (setObj h id o) a = arrAt h a := rfl
@[simp] theorem gmAt_setObj (h : H) (id : Nat) (o : Obj) (m : Nat) : gmAt (setObj h id o) m = gmAt h m := rfl

theorem objAt_setObj (h : H) (id id' : Nat) (o : Obj) :
    objAt (setObj h id o) id' = if id' = id ∧ id < h.objs.length then o else objAt h id' := by
  simp only [objAt, setObj, getD_setAt]

theorem objAt_setObj_ne (h : H) {id id' : Nat} (o : Obj) (hne : id' ≠ id) :
    objAt (setObj h id o) id' = objAt h id' := by
  rw [objAt_setObj, if_neg (fun hh => hne hh.1)]

theorem objAt_setObj_self (h : H) {id : Nat} (o : Obj) (hlt : id < h.objs.length) :
    objAt (setObj h id o) id = o := by
  rw [objAt_setObj, if_pos ⟨rfl, hlt⟩]

@[simp] theorem gomapInsert_objs (h : H) (m : Nat) (k : Bytes) (v : NRef) : (gomapInsert h m k v).objs = h.objs := rfl
@[simp] theorem gomapInsert_arrs (h : H) (m : Nat) (k : Bytes) (v : NRef) : (gomapInsert h m k v).arrs = h.arrs := rfl
@[simp] theorem gomapInsert_finished (h : H) (m : Nat) (k : Bytes) (v : NRef) :
    (gomapInsert h m k v).finished = h.finished := rfl
@[simp] theorem gomapInsert_gomaps_length (h : H) (m : Nat) (k : Bytes) (v : NRef) :
    (gomapInsert h m k v).gomaps.length = h.gomaps.length := by simp [gomapInsert]
@[simp] theorem arrAt_gomapInsert (h : H) (m : Nat) (k : Bytes) (v : NRef) (a : Nat) :
    arrAt (gomapInsert h m k v) a = arrAt h a := rfl
@[simp] theorem objAt_gomapInsert (h : H) (m : Nat) (k : Bytes) (v : NRef) (id : Nat) :
    objAt (gomapInsert h m k v) id = objAt h id := rfl

theorem gmAt_gomapInsert (h : H) (m m' : Nat) (k : Bytes) (v : NRef) :
    gmAt (gomapInsert h m k v) m' =
      if m' = m ∧ m < h.gomaps.length then ((gmAt h m).filter fun e => e.1 ≠ k) ++ [(k, v)] else gmAt h m' := by
  simp only [gmAt, gomapInsert, getD_setAt]

theorem gmAt_gomapInsert_ne (h : H) {m m' : Nat} (k : Bytes) (v : NRef) (hne : m' ≠ m) :
    gmAt (gomapInsert h m k v) m' = gmAt h m' := by
  rw [gmAt_gomapInsert, if_neg (fun hh => hne hh.1)]

/-! ### allocation -/

@[simp] theorem allocArr_fst_objs (h : H) (n : Nat) : (allocArr h n).1.objs = h.objs := rfl
@[simp] theorem allocArr_fst_gomaps (h : H) (n : Nat) : (allocArr h n).1.gomaps = h.gomaps := rfl
@[simp] theorem allocArr_fst_finished (h : H) (n : Nat) : (allocArr h n).1.finished = h.finished := rfl
@[simp] theorem allocArr_snd (h : H) (n : Nat) : (allocArr h n).2 = h.arrs.length := rfl
@[simp] theorem allocArr_fst_arrs (h : H) (n : Nat) :
    (allocArr h n).1.arrs = h.arrs ++ [List.replicate n .empty] := rfl

theorem arrAt_append_lt (h h' : H) (x : List Cell) {a : Nat} (he : h'.arrs = h.arrs ++ [x])
    (ha : a < h.arrs.length) : arrAt h' a = arrAt h a := by
  simp only [arrAt, he]; exact getD_append_lt _ _ _ ha

theorem arrAt_append_len (h h' : H) (x : List Cell) (he : h'.arrs = h.arrs ++ [x]) :
    arrAt h' h.arrs.length = x := by
  simp only [arrAt, he]; exact getD_append_len _ _ _

theorem objAt_append_lt (h h' : H) (o : Obj) {id : Nat} (he : h'.objs = h.objs ++ [o])
    (hlt : id < h.objs.length) : objAt h' id = objAt h id := by
  simp only [objAt, he]; exact getD_append_lt _ _ _ hlt

theorem objAt_append_len (h h' : H) (o : Obj) (he : h'.objs = h.objs ++ [o]) :
    objAt h' h.objs.length = o := by
  simp only [objAt, he]; exact getD_append_len _ _ _

theorem gmAt_append_lt (h h' : H) (x : List (Bytes × NRef)) {m : Nat} (he : h'.gomaps = h.gomaps ++ [x])
    (hlt : m < h.gomaps.length) : gmAt h' m = gmAt h m := by
  simp only [gmAt, he]; exact getD_append_lt _ _ _ hlt

theorem gmAt_append_len (h h' : H) (x : List (Bytes × NRef)) (he : h'.gomaps = h.gomaps ++ [x]) :
    gmAt h' h.gomaps.length = x := by
  simp only [gmAt, he]; exact getD_append_len _ _ _

/-! ### appendSlice -/

theorem appendSlice_objs (h : H) (s : Slice) (c : Cell) : (appendSlice h s c).1.objs = h.objs := by
  unfold appendSlice; split <;> rfl

theorem appendSlice_gomaps (h : H) (s : Slice) (c : Cell) : (appendSlice h s c).1.gomaps = h.gomaps := by
  unfold appendSlice; split <;> rfl

theorem appendSlice_finished (h : H) (s : Slice) (c : Cell) :
    (appendSlice h s c).1.finished = h.finished := by
  unfold appendSlice; split <;> rfl

theorem appendSlice_len (h : H) (s : Slice) (c : Cell) : (appendSlice h s c).2.1.len = s.len + 1 := by
  unfold appendSlice; split <;> rfl

theorem appendSlice_arrs_length (h : H) (s : Slice) (c : Cell) :
    h.arrs.length ≤ (appendSlice h s c).1.arrs.length := by
  unfold appendSlice; split
  · simp
  · simp [allocArr]

/-- the new slice is over the old array (written in place) or over a freshly allocated one -/
theorem appendSlice_arr (h : H) (s : Slice) (c : Cell) :
    (appendSlice h s c).2.1.arr = s.arr ∨ (appendSlice h s c).2.1.arr = h.arrs.length := by
  unfold appendSlice; split
  · exact Or.inl rfl
  · exact Or.inr rfl

theorem appendSlice_arrs_length_le (h : H) (s : Slice) (c : Cell) :
    (appendSlice h s c).1.arrs.length ≤ h.arrs.length + 1 := by
  unfold appendSlice; split
  · simp
  · simp [allocArr]

/-- every array other than the slice's own keeps its contents -/
theorem arrAt_appendSlice_ne (h : H) (s : Slice) (c : Cell) {a : Nat} (ha : a < h.arrs.length)
    (hne : a ≠ s.arr) : arrAt (appendSlice h s c).1 a = arrAt h a := by
  unfold appendSlice; split
  · exact arrAt_writeCell_ne h c hne
  · simp only [arrAt, allocArr]
    rw [getD_setAt_ne _ _ _ (by omega)]
    exact getD_append_lt _ _ _ ha

/-- the cells below `len` of every existing array keep their contents -/
theorem arrAt_appendSlice_take (h : H) (s : Slice) (c : Cell) {a n : Nat} (ha : a < h.arrs.length)
    (hn : a = s.arr → n ≤ s.len) : (arrAt (appendSlice h s c).1 a).take n = (arrAt h a).take n := by
  unfold appendSlice; split
  · exact arrAt_writeCell_take h c hn
  · simp only [arrAt, allocArr]
    rw [getD_setAt_ne _ _ _ (by omega), getD_append_lt _ _ _ ha]

theorem arrAt_appendSlice_length (h : H) (s : Slice) (c : Cell) {a : Nat} (ha : a < h.arrs.length) :
    (arrAt (appendSlice h s c).1 a).length = (arrAt h a).length := by
  unfold appendSlice; split
  · exact arrAt_writeCell_length h _ _ _ c
  · simp only [arrAt, allocArr]
    rw [getD_setAt_ne _ _ _ (by omega), getD_append_lt _ _ _ ha]

theorem appendSlice_wf (h : H) (s : Slice) (c : Cell) (hw : SliceWf h s) :
    SliceWf (appendSlice h s c).1 (appendSlice h s c).2.1 := by
  obtain ⟨h1, h2, h3⟩ := hw
  unfold appendSlice; split
  · rename_i hlt
    refine ⟨by simpa using h1, by simp; omega, ?_⟩
    simp only [arrAt_writeCell_length]; exact h3
  · rename_i hlt
    refine ⟨by simp [allocArr], ?_, ?_⟩
    · simp only; split <;> omega
    · simp only [arrAt, allocArr]
      rw [getD_setAt_self _ _ _ (by simp)]
      have hl : ((arrAt h s.arr).take s.len).length = s.len := by
        rw [List.length_take]; omega
      simp only [arrAt] at hl
      simp only [List.length_append, List.length_replicate, List.length_cons, List.length_nil, hl]
      split <;> omega

/-- `append` extends the view of the slice by exactly the new cell -/
theorem appendSlice_cells (h : H) (s : Slice) (c : Cell) (hw : SliceWf h s) :
    sliceCells (appendSlice h s c).1 (appendSlice h s c).2.1 = sliceCells h s ++ [c] := by
  obtain ⟨h1, h2, h3⟩ := hw
  unfold appendSlice; split
  · rename_i hlt
    simp only [sliceCells_eq]
    rw [arrAt_writeCell_self h c h1]
    exact take_succ_setAt _ _ (by omega)
  · rename_i hlt
    simp only [sliceCells_eq, arrAt, allocArr]
    rw [getD_setAt_self _ _ _ (by simp)]
    have hl : ((arrAt h s.arr).take s.len).length = s.len := by
      rw [List.length_take]; omega
    simp only [arrAt] at hl
    generalize List.take s.len (h.arrs.getD s.arr []) = o at hl
    have e1 : (o ++ [c]).length = s.len + 1 := by simp [hl]
    rw [List.take_append_of_le_length (by omega), List.take_of_length_le (by omega)]

/-- what `append` logs as written: only the cell just past `len` of the slice's own array -/
theorem appendSlice_written (h : H) (s : Slice) (c : Cell) :
    ∀ l ∈ (appendSlice h s c).2.2, l = .arrCell s.arr s.len := by
  unfold appendSlice; split
  · intro l hl; simpa using hl
  · intro l hl; cases hl

end Heap
end Ipld
