/-
  Model of the link system (`linking/functions.go`, `linking/cid/cidLink.go`), DESIGN §5 C05/C06.
  Core Lean only.

  The hash function is a parameter `H : Nat → Bytes → Bytes` (multihash code ↦ function), so every
  theorem holds for every hash function and is, by construction, "modulo collisions".
  Codecs enter as a parameter too (`Codec`), instantiated with the DAG-CBOR model where wanted.
-/
import IpldModel.Model.DM
namespace Ipld
namespace Link

/-- `cid.Prefix` -/
structure Proto where
  version : Nat
  codec : Nat
  mhType : Nat
  mhLength : Int      -- -1 = "whatever the hash function yields"
  deriving DecidableEq, Repr

/-- a CID, abstractly: the fields its binary form is an injective function of -/
structure Lnk where
  version : Nat
  codec : Nat
  mhType : Nat
  digest : Bytes
  deriving DecidableEq, Repr

def identityCode : Nat := 0x00
def sha256Code : Nat := 0x12

/-- `Link.Prototype()`: the prefix of a CID carries the digest length it has. -/
def Lnk.proto (l : Lnk) : Proto := ⟨l.version, l.codec, l.mhType, l.digest.length⟩

/-- digest truncation of `BuildLink`: identity and "-1" keep the whole hash; otherwise the first
    `mhLength` bytes - when the hash has that many: a length the hash function cannot supply (a link from untrusted
    data may claim any) or a negative one leaves the whole hash (since the repair of the slice-bounds panic; the
    result is an `Option` for the callers' sake and never `none`). -/
def truncate (p : Proto) (hashsum : Bytes) : Option Bytes :=
  if p.mhType = identityCode ∨ p.mhLength = -1 then some hashsum
  else if p.mhLength < 0 ∨ (hashsum.length : Int) < p.mhLength then some hashsum
  else some (hashsum.take p.mhLength.toNat)

/-- the CIDv0 guard of `BuildLink` -/
def v0ok (p : Proto) : Bool :=
  !(p.version = 0 ∧ (p.mhType ≠ sha256Code ∨ (p.mhLength ≠ 32 ∧ p.mhLength ≠ -1)))

def mkLink (p : Proto) (d : Bytes) : Option Lnk :=
  if p.version = 0 then (if d.length = 32 then some ⟨0, 0x70, p.mhType, d⟩ else none)  -- CIDv0 is dag-pb + sha2-256-32 by definition
  else if p.version = 1 then some ⟨1, p.codec, p.mhType, d⟩
  else none

/-- `LinkPrototype.BuildLink` (`none` = the Go code panics). -/
def buildLink (p : Proto) (hashsum : Bytes) : Option Lnk :=
  if v0ok p then (truncate p hashsum).bind (mkLink p) else none

variable (H : Nat → Bytes → Bytes)

/-- Does `bytes` hash to `l`, in the sense the loader checks: rebuild the link from the hash with the
    link's own prototype and compare binary forms. -/
def hashesTo (l : Lnk) (bytes : Bytes) : Bool :=
  buildLink l.proto (H l.mhType bytes) == some l

/-! ## Fill / Load over an abstract reader and an abstract decoder (C06) -/

/-- The storage stream: `data` is what it would deliver; `failAt = some f` means a read error occurs
    after exactly `f` bytes were delivered (and persists). -/
structure Stream where
  data : Bytes
  failAt : Option Nat := none

def Stream.deliverable (s : Stream) : Bytes :=
  match s.failAt with
  | none => s.data
  | some f => s.data.take f

/-- What the decoder did with the tee'd stream: how many bytes it pulled (`pulled ≤ deliverable`),
    and whether it returned an error.  Arbitrary: theorems quantify over all behaviours. -/
structure DecRun where
  pulled : Nat
  failed : Bool

inductive Res where
  | ok
  | hashMismatch
  | ioErr
  | decodeErr
  deriving DecidableEq, Repr

/-- `LinkSystem.Fill` after the choosers and the storage opener succeeded.  Whatever the decoder did - succeeded after
    reading everything, succeeded EARLY (a decoder configured with `DontParseBeyondEnd`), failed midway - the rest of the
    stream is drained into the hasher before anything else is decided (since library fix: the drain used to happen only
    after a decode error, so an early-stopping decoder had the hash taken over a prefix): an I/O error surfaces as
    such, then the hash of the WHOLE stream is compared, and only then may a decode error be admitted. -/
def fill (trusted : Bool) (l : Lnk) (s : Stream) (d : DecRun) : Res :=
  if trusted then (if d.failed then .decodeErr else .ok)
  else
    match s.failAt with
    | some _ => .ioErr
    | none =>
      if hashesTo H l s.data then (if d.failed then .decodeErr else .ok) else .hashMismatch

/-- the bytes the hasher has seen when `fill` takes its decision: everything the stream delivers -/
def hasherSaw (s : Stream) (_d : DecRun) : Bytes := s.deliverable

/-- `LinkSystem.LoadRaw`: buffer everything, hash, compare; returns the block on success. -/
def loadRaw (l : Lnk) (s : Stream) : Res × Option Bytes :=
  match s.failAt with
  | some _ => (.ioErr, none)
  | none => if hashesTo H l s.data then (.ok, some s.data) else (.hashMismatch, none)

/-- outcome of the entry points that also run the reifier -/
inductive LoadRes where
  | res (r : Res)
  | reifyErr
  deriving DecidableEq, Repr

/-- `LinkSystem.Load`: `Fill` into a fresh builder; the reifier only ever sees a node that `Fill` accepted. -/
def load (trusted : Bool) (l : Lnk) (s : Stream) (d : DecRun) (reifyOk : Bool := true) : LoadRes :=
  match fill H trusted l s d with
  | .ok => if reifyOk then .res .ok else .reifyErr
  | r => .res r

/-! ## Store over an abstract encoder and writer -/

/-- The encoder's output as the sequence of writes it makes; `encFails` = it returns an error after
    those writes; `writerFailsAt = some j` = the storage writer fails on write number `j`. -/
structure EncRun where
  writes : List Bytes
  encFails : Bool := false
  writerFailsAt : Option Nat := none

inductive StoreRes where
  | committed (l : Lnk) (block : Bytes)
  | failed                         -- an error is returned and the committer was never called
  | panicked
  deriving DecidableEq, Repr

def store (p : Proto) (e : EncRun) : StoreRes :=
  match e.writerFailsAt with
  | some j => if j < e.writes.length ∨ e.encFails then .failed else
      -- the writer would only have failed on a write that never happened
      match buildLink p (H p.mhType e.writes.flatten) with
      | some l => .committed l e.writes.flatten
      | none => .panicked
  | none =>
    if e.encFails then .failed else
    match buildLink p (H p.mhType e.writes.flatten) with
    | some l => .committed l e.writes.flatten
    | none => .panicked

def computeLink (p : Proto) (e : EncRun) : Option (Option Lnk) :=   -- none = error, some none = panic
  if e.encFails then none else some (buildLink p (H p.mhType e.writes.flatten))

/-! ## Histories of store / load on one storage (C05) -/

/-- storage: an association list keyed by link (the link's binary form is injective in these fields) -/
abbrev Store := List (Lnk × Bytes)

def Store.get (s : Store) (l : Lnk) : Option Bytes :=
  match s with
  | [] => none
  | (l', b) :: r => if l' = l then some b else Store.get r l

def Store.put (s : Store) (l : Lnk) (b : Bytes) : Store := (l, b) :: s

/-- A codec as a pair of functions on abstract values (`none` = refuses). -/
structure Codec where
  encode : DM → Option Bytes
  decode : Bytes → Option DM

inductive HOp where
  | store (p : Proto) (v : DM)
  | compute (p : Proto) (v : DM)
  | load (l : Lnk)
  | loadRaw (l : Lnk)

inductive HOut where
  | link (l : Lnk)
  | node (v : DM)
  | raw (b : Bytes)
  | error
  deriving DecidableEq, Repr

variable (codecs : Nat → Option Codec)

def hstep (s : Store) : HOp → Store × HOut
  | .store p v =>
    match codecs p.codec with
    | none => (s, .error)
    | some c =>
      match c.encode v with
      | none => (s, .error)
      | some b =>
        match buildLink p (H p.mhType b) with
        | none => (s, .error)
        | some l => (s.put l b, .link l)
  | .compute p v =>
    match codecs p.codec with
    | none => (s, .error)
    | some c =>
      match c.encode v with
      | none => (s, .error)
      | some b =>
        match buildLink p (H p.mhType b) with
        | none => (s, .error)
        | some l => (s, .link l)
  | .load l =>
    match codecs l.codec, s.get l with
    | some c, some b =>
      if hashesTo H l b then
        match c.decode b with
        | some v => (s, .node v)
        | none => (s, .error)
      else (s, .error)
    | _, _ => (s, .error)
  | .loadRaw l =>
    match s.get l with
    | some b => if hashesTo H l b then (s, .raw b) else (s, .error)
    | none => (s, .error)

def hrun (s : Store) : List HOp → Store × List HOut
  | [] => (s, [])
  | op :: ops =>
    let (s', o) := hstep H codecs s op
    let (s'', os) := hrun s' ops
    (s'', o :: os)

end Link
end Ipld
