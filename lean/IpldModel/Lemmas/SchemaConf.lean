/-
  C09-4: whatever the ideal builder (either level) builds conforms to the type.
-/
import IpldModel.Lemmas.SchemaBasic
namespace Ipld
namespace Schema

/-! ## Canonical struct values conform -/

/-- `es` lists the fields `fs` in order, each with an admissible value. -/
def entriesOK : List Field → List (Bytes × TL) → Prop
  | [], [] => True
  | f :: fs, e :: es => e.1 = f.name ∧ fieldValOK f e.2 = true ∧ entriesOK fs es
  | _, _ => False

theorem conformsStruct_canon (fs : List Field) (hnd : (fs.map (·.name)).Nodup) :
    (suf : List Field) → (pre : List Field) → (seen : List Bytes) → (es : List (Bytes × TL)) →
    fs = pre ++ suf → (∀ k, seen.contains k = true ↔ k ∈ pre.map (·.name)) → entriesOK suf es →
    conformsStruct fs seen (TLKVs.ofList es) = true
  | [], pre, seen, [], hfs, hseen, _ => by
    simp only [TLKVs.ofList_nil, conformsStruct, List.all_eq_true, Bool.or_eq_true]
    intro f hf
    right
    rw [hseen]
    simp only [List.append_nil] at hfs
    subst hfs
    exact List.mem_map_of_mem hf
  | [], _, _, _ :: _, _, _, h => by simp [entriesOK] at h
  | _ :: _, _, _, [], _, _, h => by simp [entriesOK] at h
  | f :: suf, pre, seen, (k, v) :: es, hfs, hseen, h => by
    simp only [entriesOK] at h
    obtain ⟨hk, hv, hrest⟩ := h
    subst hk
    have hmem : f ∈ fs := by rw [hfs]; simp
    have hfind := find?_key_of_mem (·.name) fs hnd f hmem
    have hnotseen : seen.contains f.name = false := by
      cases hc : seen.contains f.name with
      | false => rfl
      | true =>
        exfalso
        have hin := (hseen f.name).1 hc
        rw [hfs, List.map_append, List.map_cons] at hnd
        have := (List.nodup_append.1 hnd).2.2 _ hin f.name (by simp)
        exact this rfl
    simp only [TLKVs.ofList_cons, conformsStruct_cons, hfind, hnotseen, hv, Bool.not_false, Bool.true_and]
    apply conformsStruct_canon fs hnd suf (pre ++ [f]) (f.name :: seen) es (by simp [hfs]) _ hrest
    intro k
    simp only [List.contains_cons, Bool.or_eq_true, beq_iff_eq, hseen, List.map_append, List.map_cons,
      List.map_nil, List.mem_append, List.mem_singleton]
    exact or_comm

theorem conforms_struct_of_entriesOK (fs : Fields) (r : StructRepr) (nul : Bool)
    (hnd : (fs.toList.map (·.name)).Nodup) (es : List (Bytes × TL)) (h : entriesOK fs.toList es) :
    conforms (.struct fs r) nul (.map (TLKVs.ofList es)) = true := by
  unfold conforms
  exact conformsStruct_canon fs.toList hnd fs.toList [] [] es (by simp) (by simp) h

theorem eq_of_name_eq (fs : List Field) (hnd : (fs.map (·.name)).Nodup) (f f' : Field)
    (hf : f ∈ fs) (hf' : f' ∈ fs) (h : f.name = f'.name) : f = f' := by
  have h1 := find?_key_of_mem (·.name) fs hnd f hf
  have h2 := find?_key_of_mem (·.name) fs hnd f' hf'
  simp only [h] at h1
  rw [h1] at h2
  exact Option.some.inj h2

/-- Every value the assembly state holds conforms to its field. -/
def GOK (fs : List Field) (g : Bytes → Option TL) : Prop :=
  ∀ f ∈ fs, ∀ v, g f.name = some v → conforms f.ty f.nullable v = true

theorem GOK_none (fs : List Field) : GOK fs (fun _ => none) := by
  intro f _ v h; cases h

theorem GOK_set (fs : List Field) (hnd : (fs.map (·.name)).Nodup) (g : Bytes → Option TL)
    (hg : GOK fs g) (f : Field) (hf : f ∈ fs) (v : TL) (hv : conforms f.ty f.nullable v = true) :
    GOK fs (setFn g f.name v) := by
  intro f' hf' v' h
  by_cases hn : f'.name = f.name
  · have := eq_of_name_eq fs hnd f' f hf' hf hn
    subst this
    simp only [setFn_same, Option.some.injEq] at h
    subst h; exact hv
  · rw [setFn_other _ _ _ _ hn] at h
    exact hg f' hf' v' h

theorem entriesOK_map (g : Bytes → Option TL) : (fs : List Field) →
    (∀ f ∈ fs, fieldValOK f ((g f.name).getD .absent) = true) →
    entriesOK fs (fs.map fun f => (f.name, (g f.name).getD .absent))
  | [], _ => by simp [entriesOK]
  | f :: fs, h => by
    simp only [List.map_cons, entriesOK, true_and]
    exact ⟨h f (by simp), entriesOK_map g fs (fun f' hf' => h f' (by simp [hf']))⟩

theorem finish_conforms (fs : Fields) (r : StructRepr) (nul : Bool)
    (hnd : (fs.toList.map (·.name)).Nodup) (g : Bytes → Option TL) (hg : GOK fs.toList g) (v : TL)
    (h : (SSt.ofFn fs.toList g).finish fs.toList = .ok v) :
    conforms (.struct fs r) nul v = true := by
  rw [SSt.ofFn_finish] at h
  split at h
  · next hall =>
    simp only [Outcome.ok.injEq] at h
    subst h
    apply conforms_struct_of_entriesOK fs r nul hnd
    apply entriesOK_map
    intro f hf
    simp only [List.all_eq_true, Bool.or_eq_true] at hall
    cases hgf : g f.name with
    | none =>
      have := hall f hf
      simp only [hgf, Option.isSome_none, Bool.false_eq_true, or_false] at this
      simp [fieldValOK, this]
    | some v =>
      simp only [Option.getD_some]
      exact fieldValOK_of_conforms f v (hg f hf v hgf)
  · cases h

/-! ## Union values -/

theorem conforms_union_single (ms : Members) (ur : UnionRepr) (nul : Bool)
    (hnd : (ms.toList.map (·.name)).Nodup) (m : Member) (hm : m ∈ ms.toList) (tv : TL)
    (h : conforms m.ty false tv = true) :
    conforms (.union ms ur) nul (.map (.cons m.name tv .nil)) = true := by
  unfold conforms
  simp only [find?_key_of_mem (·.name) ms.toList hnd m hm]
  exact h

/-- A union value: one entry, keyed by a member's type name, holding a conforming value. -/
def UnionVal (ms : List Member) (v : TL) : Prop :=
  ∃ m ∈ ms, ∃ tv, v = .map (.cons m.name tv .nil) ∧ conforms m.ty false tv = true

theorem conforms_of_unionVal (ms : Members) (ur : UnionRepr) (nul : Bool)
    (hnd : (ms.toList.map (·.name)).Nodup) (v : TL) (h : UnionVal ms.toList v) :
    conforms (.union ms ur) nul v = true := by
  obtain ⟨m, hm, tv, rfl, hc⟩ := h
  exact conforms_union_single ms ur nul hnd m hm tv hc

theorem UnionVal_cons (m : Member) (ms : List Member) (v : TL) (h : UnionVal ms v) : UnionVal (m :: ms) v := by
  obtain ⟨m', hm', tv, hv, hc⟩ := h
  exact ⟨m', by simp [hm'], tv, hv, hc⟩

/-! ## Scalars -/

theorem conforms_any_scalar (nul : Bool) (d : DM) (hd : d ≠ .null) (hs : isScalar d = true) :
    conforms .any nul (TL.ofDM d) = true := by
  cases d <;> simp_all [isScalar, TL.ofDM, conforms]

mutual
theorem buildScalar_conforms (lvl : Level) (nul : Bool) (d : DM) (hd : d ≠ .null) :
    (ty : Ty) → ty.wf = true → (v : TL) → buildScalar Engine.ideal lvl nul d ty = .ok v →
    conforms ty nul v = true
  | .bool, _, v, h => by cases d <;> simp [buildScalar] at h; subst h; simp [conforms]
  | .int, _, v, h => by cases d <;> simp [buildScalar] at h; subst h; simp [conforms]
  | .float, _, v, h => by cases d <;> simp [buildScalar] at h; subst h; simp [conforms]
  | .str, _, v, h => by cases d <;> simp [buildScalar] at h; subst h; simp [conforms]
  | .bytes, _, v, h => by cases d <;> simp [buildScalar] at h; subst h; simp [conforms]
  | .link, _, v, h => by cases d <;> simp [buildScalar] at h; subst h; simp [conforms]
  | .any, _, v, h => by
    simp only [buildScalar] at h
    split at h
    · next hs => simp only [Outcome.ok.injEq] at h; subst h; exact conforms_any_scalar nul d hd hs
    · cases h
  | .list _ _, _, v, h => by simp [buildScalar] at h
  | .map _ _, _, v, h => by simp [buildScalar] at h
  | .struct fs r, hwf, v, h => by
    unfold buildScalar at h
    split at h
    · simp only [] at h
      split at h
      · cases h
      · split at h
        · next es hes =>
          simp only [Outcome.ok.injEq] at h
          subst h
          have hw := wf_struct hwf
          exact conforms_struct_of_entriesOK fs _ nul hw.2.1 es (buildJoin_conforms fs _ hw.1 es hes)
        · cases h
        · cases h
    · cases h
  | .union ms r, hwf, v, h => by
    have hw := wf_union hwf
    unfold buildScalar at h
    split at h
    · exact conforms_of_unionVal ms _ nul hw.2 v (buildKinded_conforms nul d hd ms hw.1 v h)
    · split at h
      · split at h
        · exact conforms_of_unionVal ms _ nul hw.2 v (buildPrefixNoDelim_conforms nul _ ms hw.1 v h)
        · split at h
          · cases h
          · exact conforms_of_unionVal ms _ nul hw.2 v (buildPrefix_conforms nul _ _ ms hw.1 v h)
      · cases h
    · cases h
  | .enum ms r, _, v, h => by
    unfold buildScalar at h
    split at h
    · simp only [ideal_enumTypeAnyString, Bool.false_or] at h
      split at h
      · next hany => simp only [Outcome.ok.injEq] at h; subst h; simpa [conforms] using hany
      · cases h
    · split at h
      · split at h
        · next m hm =>
          simp only [Outcome.ok.injEq] at h; subst h
          have := List.mem_of_find?_eq_some hm
          simp only [conforms, List.any_eq_true, beq_iff_eq]
          exact ⟨m, this, rfl⟩
        · simp at h
      · cases h
    · split at h
      · split at h
        · next m hm =>
          simp only [Outcome.ok.injEq] at h; subst h
          have := List.mem_of_find?_eq_some hm
          simp only [conforms, List.any_eq_true, beq_iff_eq]
          exact ⟨m, this, rfl⟩
        · cases h
      · cases h
    · cases h
theorem buildJoin_conforms : (fs : Fields) → (ps : List Bytes) → fs.wf = true →
    (es : List (Bytes × TL)) → buildJoin Engine.ideal fs ps = .ok es → entriesOK fs.toList es
  | .nil, [], _, es, h => by simp only [buildJoin, Outcome.ok.injEq] at h; subst h; simp [Fields.toList, entriesOK]
  | .nil, _ :: _, _, es, h => by simp [buildJoin] at h
  | .cons _ _ _ _ _ _, [], _, es, h => by simp [buildJoin] at h
  | .cons n rn o nu t rest, p :: ps, hwf, es, h => by
    simp only [Fields.wf, Bool.and_eq_true] at hwf
    unfold buildJoin at h
    split at h
    · next v hv =>
      split at h
      · next es' hes' =>
        simp only [Outcome.ok.injEq] at h; subst h
        simp only [Fields.toList, entriesOK, true_and]
        refine ⟨?_, buildJoin_conforms rest ps hwf.2 es' hes'⟩
        apply fieldValOK_of_conforms
        exact conforms_mono_nul _ _ _ (buildScalar_conforms .repr false (.str p) (by simp) t hwf.1 v hv)
      · cases h
      · cases h
    · cases h
    · cases h
theorem buildKinded_conforms (nul : Bool) (d : DM) (hd : d ≠ .null) : (ms : Members) → ms.wf = true →
    (v : TL) → buildKinded Engine.ideal nul d ms = .ok v → UnionVal ms.toList v
  | .nil, _, v, h => by simp [buildKinded] at h
  | .cons n dc k t rest, hwf, v, h => by
    simp only [Members.wf, Bool.and_eq_true] at hwf
    unfold buildKinded at h
    split at h
    · simp only [ideal_nullableUnionPanic, Bool.and_false, Bool.false_eq_true, if_false,
        Outcome.map_eq_ok] at h
      obtain ⟨tv, htv, rfl⟩ := h
      exact ⟨⟨n, dc, k, t⟩, by simp [Members.toList], tv, rfl,
        buildScalar_conforms .repr false d hd t hwf.1 tv htv⟩
    · exact UnionVal_cons _ _ _ (buildKinded_conforms nul d hd rest hwf.2 v h)
theorem buildPrefix_conforms (nul : Bool) (p r : Bytes) : (ms : Members) → ms.wf = true →
    (v : TL) → buildPrefix Engine.ideal nul p r ms = .ok v → UnionVal ms.toList v
  | .nil, _, v, h => by simp [buildPrefix] at h
  | .cons n dc k t rest, hwf, v, h => by
    simp only [Members.wf, Bool.and_eq_true] at hwf
    unfold buildPrefix at h
    split at h
    · simp only [ideal_nullableUnionPanic, Bool.and_false, Bool.false_eq_true, if_false,
        Outcome.map_eq_ok] at h
      obtain ⟨tv, htv, rfl⟩ := h
      exact ⟨⟨n, dc, k, t⟩, by simp [Members.toList], tv, rfl,
        buildScalar_conforms .repr false _ (by simp) t hwf.1 tv htv⟩
    · exact UnionVal_cons _ _ _ (buildPrefix_conforms nul p r rest hwf.2 v h)
theorem buildPrefixNoDelim_conforms (nul : Bool) (s : Bytes) : (ms : Members) → ms.wf = true →
    (v : TL) → buildPrefixNoDelim Engine.ideal nul s ms = .ok v → UnionVal ms.toList v
  | .nil, _, v, h => by simp [buildPrefixNoDelim] at h
  | .cons n dc k t rest, hwf, v, h => by
    simp only [Members.wf, Bool.and_eq_true] at hwf
    unfold buildPrefixNoDelim at h
    split at h
    · simp only [ideal_nullableUnionPanic, Bool.and_false, Bool.false_eq_true, if_false,
        Outcome.map_eq_ok] at h
      obtain ⟨tv, htv, rfl⟩ := h
      exact ⟨⟨n, dc, k, t⟩, by simp [Members.toList], tv, rfl,
        buildScalar_conforms .repr false _ (by simp) t hwf.1 tv htv⟩
    · exact UnionVal_cons _ _ _ (buildPrefixNoDelim_conforms nul s rest hwf.2 v h)
end

/-! ## `any` -/

mutual
theorem anyOK_ofDM : (d : DM) → d.noDupKeys = true → anyOK (TL.ofDM d) = true
  | .null, _ => by simp [TL.ofDM, anyOK]
  | .bool _, _ => by simp [TL.ofDM, anyOK]
  | .int _, _ => by simp [TL.ofDM, anyOK]
  | .float _, _ => by simp [TL.ofDM, anyOK]
  | .str _, _ => by simp [TL.ofDM, anyOK]
  | .bytes _, _ => by simp [TL.ofDM, anyOK]
  | .link _, _ => by simp [TL.ofDM, anyOK]
  | .list xs, h => by
    simp only [TL.ofDM, anyOK]
    exact anyOKs_ofDMs xs (by simpa [DM.noDupKeys] using h)
  | .map es, h => by
    simp only [TL.ofDM, anyOK]
    exact anyOKkv_ofDMKVs es [] (by simpa [DM.noDupKeys] using h)
theorem anyOKs_ofDMs : (xs : DMs) → xs.noDupKeys = true → anyOKs (TLs.ofDMs xs) = true
  | .nil, _ => by simp [TLs.ofDMs, anyOKs]
  | .cons x xs, h => by
    simp only [DMs.noDupKeys, Bool.and_eq_true] at h
    simp only [TLs.ofDMs, anyOKs, Bool.and_eq_true]
    exact ⟨anyOK_ofDM x h.1, anyOKs_ofDMs xs h.2⟩
theorem anyOKkv_ofDMKVs : (es : DMKVs) → (seen : List Bytes) → es.noDupKeysIn seen = true →
    anyOKkv seen (TLKVs.ofDMKVs es) = true
  | .nil, _, _ => by simp [TLKVs.ofDMKVs, anyOKkv]
  | .cons k v es, seen, h => by
    simp only [DMKVs.noDupKeysIn, Bool.and_eq_true] at h
    simp only [TLKVs.ofDMKVs, anyOKkv, Bool.and_eq_true]
    exact ⟨⟨h.1.1, anyOK_ofDM v h.1.2⟩, anyOKkv_ofDMKVs es (k :: seen) h.2⟩
end

theorem conforms_any_of_noDup (d : DM) (hd : d ≠ .null) (h : d.noDupKeys = true) :
    conforms .any false (TL.ofDM d) = true := by
  have := anyOK_ofDM d h
  cases d <;> simp_all [TL.ofDM, conforms]

/-! ## Kinded dispatch -/

theorem resolveKinded_nonKinded (e : Engine) (nul : Bool) (k : Kind) (ty : Ty)
    (h : ∀ ms, ty ≠ .union ms .kinded) : resolveKinded e nul k ty = .ok (ty, []) := by
  unfold resolveKinded
  split
  · next ms => exact absurd rfl (h ms)
  · rfl

mutual
theorem resolveKinded_conforms (nul : Bool) (k : Kind) : (ty : Ty) → ty.wf = true → (ty' : Ty) →
    (path : List Bytes) → resolveKinded Engine.ideal nul k ty = .ok (ty', path) →
    ty'.wf = true ∧ ∀ v nul', conforms ty' false v = true → conforms ty nul' (wrapPath path v) = true
  | .union ms .kinded, hwf, ty', path, h => by
    unfold resolveKinded at h
    have hw := wf_union hwf
    obtain ⟨h1, m, hm, rest, rfl, h2⟩ := resolveMembers_conforms nul k ms hw.1 ty' path h
    refine ⟨h1, fun v nul' hv => ?_⟩
    simp only [wrapPath]
    exact conforms_union_single ms _ nul' hw.2 m hm _ (h2 v hv)
  | .union ms .keyed, hwf, ty', path, h => by
    simp only [resolveKinded, Outcome.ok.injEq, Prod.mk.injEq] at h
    obtain ⟨rfl, rfl⟩ := h
    exact ⟨hwf, fun v nul' hv => conforms_mono_nul _ _ _ hv⟩
  | .union ms (.stringprefix _), hwf, ty', path, h => by
    simp only [resolveKinded, Outcome.ok.injEq, Prod.mk.injEq] at h
    obtain ⟨rfl, rfl⟩ := h
    exact ⟨hwf, fun v nul' hv => conforms_mono_nul _ _ _ hv⟩
  | .bool, hwf, ty', path, h => by
    simp only [resolveKinded, Outcome.ok.injEq, Prod.mk.injEq] at h
    obtain ⟨rfl, rfl⟩ := h
    exact ⟨hwf, fun v nul' hv => conforms_mono_nul _ _ _ hv⟩
  | .int, hwf, ty', path, h => by
    simp only [resolveKinded, Outcome.ok.injEq, Prod.mk.injEq] at h
    obtain ⟨rfl, rfl⟩ := h
    exact ⟨hwf, fun v nul' hv => conforms_mono_nul _ _ _ hv⟩
  | .float, hwf, ty', path, h => by
    simp only [resolveKinded, Outcome.ok.injEq, Prod.mk.injEq] at h
    obtain ⟨rfl, rfl⟩ := h
    exact ⟨hwf, fun v nul' hv => conforms_mono_nul _ _ _ hv⟩
  | .str, hwf, ty', path, h => by
    simp only [resolveKinded, Outcome.ok.injEq, Prod.mk.injEq] at h
    obtain ⟨rfl, rfl⟩ := h
    exact ⟨hwf, fun v nul' hv => conforms_mono_nul _ _ _ hv⟩
  | .bytes, hwf, ty', path, h => by
    simp only [resolveKinded, Outcome.ok.injEq, Prod.mk.injEq] at h
    obtain ⟨rfl, rfl⟩ := h
    exact ⟨hwf, fun v nul' hv => conforms_mono_nul _ _ _ hv⟩
  | .link, hwf, ty', path, h => by
    simp only [resolveKinded, Outcome.ok.injEq, Prod.mk.injEq] at h
    obtain ⟨rfl, rfl⟩ := h
    exact ⟨hwf, fun v nul' hv => conforms_mono_nul _ _ _ hv⟩
  | .any, hwf, ty', path, h => by
    simp only [resolveKinded, Outcome.ok.injEq, Prod.mk.injEq] at h
    obtain ⟨rfl, rfl⟩ := h
    exact ⟨hwf, fun v nul' hv => conforms_mono_nul _ _ _ hv⟩
  | .list _ _, hwf, ty', path, h => by
    simp only [resolveKinded, Outcome.ok.injEq, Prod.mk.injEq] at h
    obtain ⟨rfl, rfl⟩ := h
    exact ⟨hwf, fun v nul' hv => conforms_mono_nul _ _ _ hv⟩
  | .map _ _, hwf, ty', path, h => by
    simp only [resolveKinded, Outcome.ok.injEq, Prod.mk.injEq] at h
    obtain ⟨rfl, rfl⟩ := h
    exact ⟨hwf, fun v nul' hv => conforms_mono_nul _ _ _ hv⟩
  | .struct _ _, hwf, ty', path, h => by
    simp only [resolveKinded, Outcome.ok.injEq, Prod.mk.injEq] at h
    obtain ⟨rfl, rfl⟩ := h
    exact ⟨hwf, fun v nul' hv => conforms_mono_nul _ _ _ hv⟩
  | .enum _ _, hwf, ty', path, h => by
    simp only [resolveKinded, Outcome.ok.injEq, Prod.mk.injEq] at h
    obtain ⟨rfl, rfl⟩ := h
    exact ⟨hwf, fun v nul' hv => conforms_mono_nul _ _ _ hv⟩
theorem resolveMembers_conforms (nul : Bool) (k : Kind) : (ms : Members) → ms.wf = true → (ty' : Ty) →
    (path : List Bytes) → resolveMembers Engine.ideal nul k ms = .ok (ty', path) →
    ty'.wf = true ∧ ∃ m ∈ ms.toList, ∃ rest, path = m.name :: rest ∧
      ∀ v, conforms ty' false v = true → conforms m.ty false (wrapPath rest v) = true
  | .nil, _, _, _, h => by simp [resolveMembers] at h
  | .cons n dc k' t rest, hwf, ty', path, h => by
    simp only [Members.wf, Bool.and_eq_true] at hwf
    unfold resolveMembers at h
    split at h
    · simp only [ideal_nullableUnionPanic, Bool.and_false, Bool.false_eq_true, if_false] at h
      split at h
      · next t' p' hq =>
        simp only [Outcome.ok.injEq, Prod.mk.injEq] at h
        obtain ⟨rfl, rfl⟩ := h
        have := resolveKinded_conforms false k t hwf.1 _ _ hq
        exact ⟨this.1, ⟨n, dc, k', t⟩, by simp [Members.toList], p', rfl, fun v hv => this.2 v false hv⟩
      · cases h
      · cases h
    · obtain ⟨h1, m, hm, r, hp, h2⟩ := resolveMembers_conforms nul k rest hwf.2 ty' path h
      exact ⟨h1, m, by simp [Members.toList, hm], r, hp, h2⟩
end

/-! ## Lists and maps of conforming values -/

theorem conformsList_ofList (ety : Ty) (enul : Bool) : (ys : List TL) →
    (∀ y ∈ ys, conforms ety enul y = true) → conformsList ety enul (TLs.ofList ys) = true
  | [], _ => by simp [conformsList]
  | y :: ys, h => by
    simp only [TLs.ofList_cons, conformsList, Bool.and_eq_true]
    exact ⟨h y (by simp), conformsList_ofList ety enul ys (fun y' hy' => h y' (by simp [hy']))⟩

theorem conformsMap_ofList (vty : Ty) (vnul : Bool) : (ys : List (Bytes × TL)) → (seen : List Bytes) →
    (ys.map (·.1)).Nodup → (∀ e ∈ ys, e.1 ∉ seen) → (∀ e ∈ ys, conforms vty vnul e.2 = true) →
    conformsMap vty vnul seen (TLKVs.ofList ys) = true
  | [], _, _, _, _ => by simp [conformsMap]
  | (k, v) :: ys, seen, hnd, hs, hc => by
    simp only [List.map_cons, List.nodup_cons] at hnd
    simp only [TLKVs.ofList_cons, conformsMap, Bool.and_eq_true, Bool.not_eq_true']
    refine ⟨⟨?_, hc (k, v) (by simp)⟩, ?_⟩
    · have := hs (k, v) (by simp)
      simpa using this
    · apply conformsMap_ofList vty vnul ys (k :: seen) hnd.2
      · intro e he
        simp only [List.mem_cons, not_or]
        refine ⟨?_, hs e (by simp [he])⟩
        intro heq
        exact hnd.1 (heq ▸ List.mem_map_of_mem he)
      · intro e he; exact hc e (by simp [he])

/-! ## The builders -/

mutual
theorem build_conforms (lvl : Level) : (d : DM) → (ty : Ty) → (nul : Bool) → ty.wf = true → (v : TL) →
    build Engine.ideal lvl ty nul none d = .ok v → conforms ty nul v = true
  | .null, ty, nul, _, v, h => by
    rw [build_null_ideal] at h
    split at h
    · next hn => simp only [Outcome.ok.injEq] at h; subst h; simp [conforms, hn]
    · cases h
  | .bool b, ty, nul, hwf, v, h => by
    unfold build at h; exact buildScalar_conforms lvl nul _ (by simp) ty hwf v h
  | .int b, ty, nul, hwf, v, h => by
    unfold build at h; exact buildScalar_conforms lvl nul _ (by simp) ty hwf v h
  | .float b, ty, nul, hwf, v, h => by
    unfold build at h; exact buildScalar_conforms lvl nul _ (by simp) ty hwf v h
  | .str b, ty, nul, hwf, v, h => by
    unfold build at h; exact buildScalar_conforms lvl nul _ (by simp) ty hwf v h
  | .bytes b, ty, nul, hwf, v, h => by
    unfold build at h; exact buildScalar_conforms lvl nul _ (by simp) ty hwf v h
  | .link b, ty, nul, hwf, v, h => by
    unfold build at h; exact buildScalar_conforms lvl nul _ (by simp) ty hwf v h
  | .list xs, ty, nul, hwf, v, h => by
    unfold build at h
    split at h
    · cases h
    · cases h
    · next ty' path hres =>
      have hr : ty'.wf = true ∧ ∀ v nul', conforms ty' false v = true →
          conforms ty nul' (wrapPath path v) = true := by
        cases lvl
        · simp only [Outcome.ok.injEq, Prod.mk.injEq] at hres
          obtain ⟨rfl, rfl⟩ := hres
          exact ⟨hwf, fun v nul' hv => conforms_mono_nul _ _ _ hv⟩
        · exact resolveKinded_conforms nul .list ty hwf ty' path hres
      simp only [ite_self, Outcome.map_eq_ok] at h
      obtain ⟨r, hr1, rfl⟩ := h
      apply hr.2
      split at hr1
      · next ety enul =>
        simp only [curList, Outcome.map_eq_ok] at hr1
        obtain ⟨ys, hys, rfl⟩ := hr1
        unfold conforms
        have hwe : ety.wf = true := by have := hr.1; simpa [Ty.wf] using this
        exact conformsList_ofList ety enul ys
          (buildList_conforms lvl xs ety enul hwe [] ys hys (by simp))
      · next fs sr =>
        have hw := wf_struct hr.1
        rw [SSt.init_none] at hr1
        split at hr1
        · obtain ⟨g', hg', hfin⟩ := buildTuple_conforms xs fs.toList (Fields.wf_mem fs hw.1) hw.2.1 _
            (GOK_none _) 0 r hr1
          exact finish_conforms fs _ false hw.2.1 g' hg' r hfin
        · obtain ⟨g', hg', hfin⟩ := buildPairs_conforms xs fs.toList (Fields.wf_mem fs hw.1) hw.2.1 _
            (GOK_none _) r hr1
          exact finish_conforms fs _ false hw.2.1 g' hg' r hfin
        · cases hr1
      · split at hr1
        · next hnd =>
          simp only [Outcome.ok.injEq] at hr1; subst hr1
          exact conforms_any_of_noDup (.list xs) (by simp) hnd
        · cases hr1
      · cases hr1
  | .map es, ty, nul, hwf, v, h => by
    rw [build_map_ideal] at h
    split at h
    · cases h
    · cases h
    · next ty' path hres =>
      have hr : ty'.wf = true ∧ ∀ v nul', conforms ty' false v = true →
          conforms ty nul' (wrapPath path v) = true := by
        cases lvl
        · simp only [Outcome.ok.injEq, Prod.mk.injEq] at hres
          obtain ⟨rfl, rfl⟩ := hres
          exact ⟨hwf, fun v nul' hv => conforms_mono_nul _ _ _ hv⟩
        · exact resolveKinded_conforms nul .map ty hwf ty' path hres
      simp only [ite_self, Outcome.map_eq_ok] at h
      obtain ⟨r, hr1, rfl⟩ := h
      apply hr.2
      split at hr1
      · next vty vnul =>
        simp only [curMap, Outcome.map_eq_ok] at hr1
        obtain ⟨ys, hys, rfl⟩ := hr1
        unfold conforms
        have hwe : vty.wf = true := by have := hr.1; simpa [Ty.wf] using this
        have := buildMap_conforms lvl es vty vnul hwe [] ys hys (by simp) (by simp)
        exact conformsMap_ofList vty vnul ys [] this.1 (by simp) this.2
      · next fs sr =>
        have hw := wf_struct hr.1
        rw [SSt.init_none] at hr1
        have key : buildStruct Engine.ideal lvl fs.toList (SSt.ofFn fs.toList fun _ => none) es = .ok r := by
          split at hr1
          · exact hr1
          · exact hr1
          · cases hr1
        obtain ⟨g', hg', hfin⟩ := buildStruct_conforms lvl es fs.toList (Fields.wf_mem fs hw.1) hw.2.1 _
            (GOK_none _) r key
        exact finish_conforms fs _ false hw.2.1 g' hg' r hfin
      · next ms ur =>
        have hw := wf_union hr.1
        have key : buildUnion Engine.ideal lvl ms.toList none 0 es = .ok r := by
          split at hr1
          · exact hr1
          · exact hr1
          · cases hr1
        have := buildUnion_conforms lvl es ms.toList (Members.wf_mem ms hw.1) none 0 r key (by simp)
        exact conforms_of_unionVal ms ur false hw.2 r this
      · split at hr1
        · next hnd =>
          simp only [Outcome.ok.injEq] at hr1; subst hr1
          exact conforms_any_of_noDup (.map es) (by simp) hnd
        · cases hr1
      · cases hr1
theorem buildList_conforms (lvl : Level) : (xs : DMs) → (ety : Ty) → (enul : Bool) → ety.wf = true →
    (acc ys : List TL) → buildList Engine.ideal lvl ety enul acc xs = .ok ys →
    (∀ y ∈ acc, conforms ety enul y = true) → ∀ y ∈ ys, conforms ety enul y = true
  | .nil, _, _, _, acc, ys, h, hacc => by
    simp only [buildList, Outcome.ok.injEq] at h; subst h; exact hacc
  | .cons x xs, ety, enul, hwf, acc, ys, h, hacc => by
    unfold buildList at h
    split at h
    · next v hv =>
      have hc := build_conforms lvl x ety enul hwf v hv
      apply buildList_conforms lvl xs ety enul hwf (acc ++ [v]) ys h
      intro y hy
      simp only [List.mem_append, List.mem_singleton] at hy
      rcases hy with hy | rfl
      · exact hacc y hy
      · exact hc
    · cases h
    · cases h
theorem buildMap_conforms (lvl : Level) : (es : DMKVs) → (vty : Ty) → (vnul : Bool) → vty.wf = true →
    (acc ys : List (Bytes × TL)) → buildMap Engine.ideal lvl vty vnul acc es = .ok ys →
    (acc.map (·.1)).Nodup → (∀ e ∈ acc, conforms vty vnul e.2 = true) →
    (ys.map (·.1)).Nodup ∧ ∀ e ∈ ys, conforms vty vnul e.2 = true
  | .nil, _, _, _, acc, ys, h, hnd, hacc => by
    simp only [buildMap, Outcome.ok.injEq] at h; subst h; exact ⟨hnd, hacc⟩
  | .cons k v es, vty, vnul, hwf, acc, ys, h, hnd, hacc => by
    rw [buildMap_cons_ideal] at h
    split at h
    · cases h
    · next hfresh =>
      simp only [ideal_dupMapKey, Bool.not_false, Bool.and_true, Bool.not_eq_true] at hfresh
      split at h
      · next tv htv =>
        have hc := build_conforms lvl v vty vnul hwf tv htv
        rw [mapAppend_fresh acc k tv hfresh] at h
        apply buildMap_conforms lvl es vty vnul hwf (acc ++ [(k, tv)]) ys h
        · simp only [List.map_append, List.map_cons, List.map_nil]
          rw [List.nodup_append]
          refine ⟨hnd, by simp, ?_⟩
          intro a ha b hb
          simp only [List.mem_singleton] at hb
          subst hb
          intro heq; subst heq
          simp only [List.any_eq_false, beq_iff_eq] at hfresh
          obtain ⟨e, he, rfl⟩ := List.mem_map.1 ha
          exact hfresh e he rfl
        · intro e he
          simp only [List.mem_append, List.mem_singleton] at he
          rcases he with he | rfl
          · exact hacc e he
          · exact hc
      · cases h
      · cases h
theorem buildStruct_conforms (lvl : Level) : (es : DMKVs) → (fs : List Field) →
    (∀ f ∈ fs, f.ty.wf = true) → (fs.map (·.name)).Nodup → (g : Bytes → Option TL) → GOK fs g →
    (v : TL) → buildStruct Engine.ideal lvl fs (SSt.ofFn fs g) es = .ok v →
    ∃ g', GOK fs g' ∧ (SSt.ofFn fs g').finish fs = .ok v
  | .nil, fs, _, _, g, hg, v, h => by
    unfold buildStruct at h; exact ⟨g, hg, h⟩
  | .cons k x es, fs, hwf, hnd, g, hg, v, h => by
    unfold buildStruct at h
    split at h
    · cases h
    · next i f hf =>
      have hk := fieldByKey_ideal_some lvl fs k i f hf
      split at h
      · cases h
      · rw [SSt.curOf_ideal] at h
        split at h
        · next tv htv =>
          have hc := build_conforms lvl x f.ty f.nullable (hwf f hk.2.1) tv htv
          rw [SSt.ofFn_assign fs g i f tv hk.1 hnd] at h
          exact buildStruct_conforms lvl es fs hwf hnd _ (GOK_set fs hnd g hg f hk.2.1 tv hc) v h
        · cases h
        · cases h
theorem buildTuple_conforms : (xs : DMs) → (fs : List Field) →
    (∀ f ∈ fs, f.ty.wf = true) → (fs.map (·.name)).Nodup → (g : Bytes → Option TL) → GOK fs g →
    (i : Nat) → (v : TL) → buildTuple Engine.ideal fs (SSt.ofFn fs g) i xs = .ok v →
    ∃ g', GOK fs g' ∧ (SSt.ofFn fs g').finish fs = .ok v
  | .nil, fs, _, _, g, hg, i, v, h => by
    unfold buildTuple at h; exact ⟨g, hg, h⟩
  | .cons x xs, fs, hwf, hnd, g, hg, i, v, h => by
    unfold buildTuple at h
    split at h
    · cases h
    · next f hf =>
      have hmem : f ∈ fs := List.mem_of_getElem? hf
      rw [SSt.curOf_ideal] at h
      split at h
      · next tv htv =>
        have hc := build_conforms .repr x f.ty f.nullable (hwf f hmem) tv htv
        rw [SSt.ofFn_assign fs g i f tv hf hnd] at h
        exact buildTuple_conforms xs fs hwf hnd _ (GOK_set fs hnd g hg f hmem tv hc) (i + 1) v h
      · cases h
      · cases h
theorem buildPairs_conforms : (xs : DMs) → (fs : List Field) →
    (∀ f ∈ fs, f.ty.wf = true) → (fs.map (·.name)).Nodup → (g : Bytes → Option TL) → GOK fs g →
    (v : TL) → buildPairs Engine.ideal fs (SSt.ofFn fs g) xs = .ok v →
    ∃ g', GOK fs g' ∧ (SSt.ofFn fs g').finish fs = .ok v
  | .nil, fs, _, _, g, hg, v, h => by
    unfold buildPairs at h; exact ⟨g, hg, h⟩
  | .cons (.list (.cons (.str k) (.cons x rest))) ps, fs, hwf, hnd, g, hg, v, h => by
    unfold buildPairs at h
    simp only [] at h
    split at h
    · simp at h
    · next i f hf =>
      have hfi := findIdx_some _ fs i f hf
      have hmem : f ∈ fs := List.mem_of_getElem? hfi.1
      split at h
      · cases h
      · rw [SSt.curOf_ideal] at h
        split at h
        · next tv htv =>
          have hc := build_conforms .repr x f.ty f.nullable (hwf f hmem) tv htv
          split at h
          · rw [SSt.ofFn_assign fs g i f tv hfi.1 hnd] at h
            exact buildPairs_conforms ps fs hwf hnd _ (GOK_set fs hnd g hg f hmem tv hc) v h
          · cases h
        · cases h
        · cases h
  | .cons (.list .nil) ps, _, _, _, _, _, _, h => by simp [buildPairs] at h
  | .cons (.list (.cons (.str _) .nil)) ps, _, _, _, _, _, _, h => by simp [buildPairs] at h
  | .cons .null ps, _, _, _, _, _, _, h => by simp [buildPairs] at h
  | .cons (.bool _) ps, _, _, _, _, _, _, h => by simp [buildPairs] at h
  | .cons (.int _) ps, _, _, _, _, _, _, h => by simp [buildPairs] at h
  | .cons (.float _) ps, _, _, _, _, _, _, h => by simp [buildPairs] at h
  | .cons (.str _) ps, _, _, _, _, _, _, h => by simp [buildPairs] at h
  | .cons (.bytes _) ps, _, _, _, _, _, _, h => by simp [buildPairs] at h
  | .cons (.link _) ps, _, _, _, _, _, _, h => by simp [buildPairs] at h
  | .cons (.map _) ps, _, _, _, _, _, _, h => by simp [buildPairs] at h
  | .cons (.list (.cons .null _)) ps, _, _, _, _, _, _, h => by simp [buildPairs] at h
  | .cons (.list (.cons (.bool _) _)) ps, _, _, _, _, _, _, h => by simp [buildPairs] at h
  | .cons (.list (.cons (.int _) _)) ps, _, _, _, _, _, _, h => by simp [buildPairs] at h
  | .cons (.list (.cons (.float _) _)) ps, _, _, _, _, _, _, h => by simp [buildPairs] at h
  | .cons (.list (.cons (.bytes _) _)) ps, _, _, _, _, _, _, h => by simp [buildPairs] at h
  | .cons (.list (.cons (.link _) _)) ps, _, _, _, _, _, _, h => by simp [buildPairs] at h
  | .cons (.list (.cons (.list _) _)) ps, _, _, _, _, _, _, h => by simp [buildPairs] at h
  | .cons (.list (.cons (.map _) _)) ps, _, _, _, _, _, _, h => by simp [buildPairs] at h
theorem buildUnion_conforms (lvl : Level) : (es : DMKVs) → (ms : List Member) →
    (∀ m ∈ ms, m.ty.wf = true) → (cur : Option TL) → (n : Nat) → (v : TL) →
    buildUnion Engine.ideal lvl ms cur n es = .ok v → (∀ c, cur = some c → UnionVal ms c) →
    UnionVal ms v
  | .nil, ms, _, cur, n, v, h, hcur => by
    unfold buildUnion at h
    split at h
    · simp only [Outcome.ok.injEq] at h; subst h; exact hcur _ rfl
    · cases h
  | .cons k x es, ms, hwf, cur, n, v, h, hcur => by
    unfold buildUnion at h
    split at h
    · cases h
    · split at h
      · cases h
      · next m hm =>
        have hmem : m ∈ ms := by
          rw [memberByKey_ideal] at hm
          cases lvl
          · exact List.mem_of_find?_eq_some hm
          · exact List.mem_of_find?_eq_some hm
        split at h
        · next tv htv =>
          have hc := build_conforms lvl x m.ty false (hwf m hmem) tv htv
          apply buildUnion_conforms lvl es ms hwf _ _ v h
          intro c hcv
          simp only [Option.some.injEq] at hcv
          subst hcv
          exact ⟨m, hmem, tv, rfl, hc⟩
        · cases h
        · cases h
end

end Schema
end Ipld
